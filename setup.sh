#!/bin/bash
# Builds the framework offline from files on disk: regenerate Gen/, full .vo build of the Coq development.
set -e
cd "$(dirname "$0")"
export PIP_NO_INDEX=1
python3 - <<'PY'
import sys
sys.path.insert(0, "harness")
import common
print(common.regenerate())
bad = common.forbidden_scan()
if bad:
    print("forbidden constructs:", bad); sys.exit(1)
PY
cd coq
coq_makefile -f _CoqProject -o Makefile > /dev/null
timeout 3000 make -k -j16 2>&1 | tail -15
