# Reference graph of /repo/code_data for C15 ("the JSON form and normalize do not depend on the interpreter"):
# regenerates coq/Gen/SrcDeps.v - one entry per function / method / class / module-level binding of the
# package with the names its body refers to, resolved to nodes of the package or to `ext:<module>[.<attr>]`.
# Over-approximating on purpose: a method call `x.m(...)` refers to EVERY method named m in the package, a
# class refers to its decorators, bases and field defaults, a function-level import is a reference.
# Fail-closed: exec/eval/globals()/... become a reference to the node ext:<dynamic> (never allowed on a path
# from an entry point); star imports and unresolved names make the translator decline; the obligation then falls back to the stored
# graph of the pinned source and the cross-interpreter run alone decides.
import ast
import builtins
import os

from translate_src import Decline

SKIP = ("_test", "test_")
BUILTINS = set(dir(builtins))


def module_files(repo):
    d = os.path.join(repo, "code_data")
    out = []
    for fn in sorted(os.listdir(d)):
        if fn.endswith(".py") and not any(s in fn for s in SKIP):
            out.append((fn[:-3], os.path.join(d, fn)))
    return out


class Mod:
    def __init__(self, name, tree):
        self.name, self.tree = name, tree
        self.defs = {}      # local top-level name -> node id
        self.imports = {}   # local name -> target ("pkg:mod.name" or "ext:...")


def resolve_import(modname, node, pkg_mods):
    """ImportFrom / Import -> {local name: target}"""
    out = {}
    if isinstance(node, ast.Import):
        for a in node.names:
            out[(a.asname or a.name).split(".")[0]] = "ext:" + a.name.split(".")[0]
        return out
    base = node.module or ""
    if node.level == 0 and not base.startswith("code_data"):
        for a in node.names:
            if a.name == "*":
                raise Decline("star import")
            out[a.asname or a.name] = "ext:%s.%s" % (base, a.name)
        return out
    # relative (or absolute code_data.) import
    if node.level == 0:
        base = base[len("code_data"):].lstrip(".")
    for a in node.names:
        if a.name == "*":
            raise Decline("star import")
        local = a.asname or a.name
        if base == "":
            # from . import X : X is a submodule or a name of __init__
            if a.name in pkg_mods:
                out[local] = "mod:" + a.name
            else:
                out[local] = "pkg:__init__." + a.name
        else:
            out[local] = "pkg:%s.%s" % (base, a.name)
    return out


def bound_names(fn):
    """names bound inside a function: parameters, assignment / loop / with / except / comprehension targets"""
    b = set()
    a = fn.args
    for x in a.args + a.kwonlyargs + getattr(a, "posonlyargs", []):
        b.add(x.arg)
    if a.vararg:
        b.add(a.vararg.arg)
    if a.kwarg:
        b.add(a.kwarg.arg)
    nonloc = set()
    for n in ast.walk(fn):
        if isinstance(n, ast.Name) and isinstance(n.ctx, (ast.Store, ast.Del)):
            b.add(n.id)
        elif isinstance(n, (ast.FunctionDef, ast.AsyncFunctionDef, ast.ClassDef)) and n is not fn:
            b.add(n.name)
        elif isinstance(n, ast.ExceptHandler) and n.name:
            b.add(n.name)
        elif isinstance(n, ast.Global):
            nonloc.update(n.names)
    return b - nonloc


# builtins whose result depends on the running interpreter (repr: Unicode tables, see D18; hash / id: per process)
HOST_DEPENDENT_BUILTINS = {"repr", "hash", "id", "compile", "open", "input", "dir", "format", "memoryview", "breakpoint", "help"}
FORBIDDEN_CALLS = {"exec", "eval", "globals", "vars", "__import__", "locals"}


def refs_of(body_nodes, bound, mod, methods_by_name, local_imports=None):
    """references made by a list of AST nodes"""
    refs = set()
    imports = dict(mod.imports)
    # comprehension / lambda variables of the nodes themselves
    bound = set(bound)
    for top in body_nodes:
        for n in ast.walk(top):
            if isinstance(n, ast.comprehension):
                for x in ast.walk(n.target):
                    if isinstance(x, ast.Name):
                        bound.add(x.id)
            elif isinstance(n, ast.Lambda):
                bound |= {a.arg for a in n.args.args + n.args.kwonlyargs}
    for top in body_nodes:
        for n in ast.walk(top):
            if isinstance(n, (ast.Import, ast.ImportFrom)):
                got = resolve_import(mod.name, n, PKG_MODS)
                imports.update(got)
                refs.update(got.values())
    for top in body_nodes:
        for n in ast.walk(top):
            if isinstance(n, ast.Call) and isinstance(n.func, ast.Name) and n.func.id in FORBIDDEN_CALLS and n.func.id not in bound:
                refs.add("ext:<dynamic>." + n.func.id)   # reachable from an entry point = not provably independent
            if isinstance(n, ast.Attribute):
                # x.m : every method called m in the package may be meant
                for tgt in methods_by_name.get(n.attr, ()):
                    refs.add(tgt)
                # module attribute: sys.version_info
                if isinstance(n.value, ast.Name) and n.value.id not in bound:
                    t = imports.get(n.value.id)
                    if t and t.startswith("ext:"):
                        refs.add(t + "." + n.attr)
                    elif t and t.startswith("mod:"):
                        refs.add("pkg:%s.%s" % (t[4:], n.attr))
            if isinstance(n, ast.Name) and isinstance(n.ctx, ast.Load) and n.id not in bound:
                if n.id in imports:
                    refs.add(imports[n.id])
                elif n.id in mod.defs:
                    refs.add(mod.defs[n.id])
                elif n.id in HOST_DEPENDENT_BUILTINS:
                    refs.add("ext:builtins." + n.id)
                elif n.id in BUILTINS or n.id in ("__name__", "__file__", "__doc__"):
                    pass
                else:
                    raise Decline("unresolved name %s in %s" % (n.id, mod.name))
    return refs


PKG_MODS = set()


def build_graph(repo):
    global PKG_MODS
    mods = {}
    for name, path in module_files(repo):
        with open(path) as f:
            mods[name] = Mod(name, ast.parse(f.read()))
    PKG_MODS = set(mods)
    # top-level definitions and imports
    methods_by_name = {}
    for m in mods.values():
        for n in m.tree.body:
            if isinstance(n, (ast.FunctionDef, ast.AsyncFunctionDef, ast.ClassDef)):
                m.defs[n.name] = "pkg:%s.%s" % (m.name, n.name)
                if isinstance(n, ast.ClassDef):
                    for k in n.body:
                        if isinstance(k, (ast.FunctionDef, ast.AsyncFunctionDef)):
                            methods_by_name.setdefault(k.name, []).append("pkg:%s.%s.%s" % (m.name, n.name, k.name))
            elif isinstance(n, (ast.Assign, ast.AnnAssign, ast.AugAssign)):
                targets = n.targets if isinstance(n, ast.Assign) else [n.target]
                for t in targets:
                    for x in ast.walk(t):
                        if isinstance(x, ast.Name):
                            m.defs[x.id] = "pkg:%s.%s" % (m.name, x.id)
            elif isinstance(n, (ast.Import, ast.ImportFrom)):
                m.imports.update(resolve_import(m.name, n, PKG_MODS))
            elif isinstance(n, (ast.If, ast.Try)):
                # conditional module-level code: bindings inside count as definitions, imports as imports
                for x in ast.walk(n):
                    if isinstance(x, (ast.Import, ast.ImportFrom)):
                        m.imports.update(resolve_import(m.name, x, PKG_MODS))
                    elif isinstance(x, (ast.FunctionDef, ast.ClassDef)):
                        m.defs[x.name] = "pkg:%s.%s" % (m.name, x.name)
                    elif isinstance(x, ast.Name) and isinstance(x.ctx, ast.Store):
                        m.defs[x.id] = "pkg:%s.%s" % (m.name, x.id)
    graph = {}
    for m in mods.values():
        def add(node_id, nodes, bound):
            graph.setdefault(node_id, set()).update(refs_of(nodes, bound, m, methods_by_name))
        for n in m.tree.body:
            if isinstance(n, (ast.FunctionDef, ast.AsyncFunctionDef)):
                add(m.defs[n.name], [n], bound_names(n))
            elif isinstance(n, ast.ClassDef):
                cid = m.defs[n.name]
                non_methods = [k for k in n.body if not isinstance(k, (ast.FunctionDef, ast.AsyncFunctionDef))]
                cls_bound = set()
                for k in non_methods:
                    for x in ast.walk(k):
                        if isinstance(x, ast.Name) and isinstance(x.ctx, ast.Store):
                            cls_bound.add(x.id)
                add(cid, n.decorator_list + n.bases + non_methods, cls_bound)
                for k in n.body:
                    if isinstance(k, (ast.FunctionDef, ast.AsyncFunctionDef)):
                        mid = "pkg:%s.%s.%s" % (m.name, n.name, k.name)
                        add(mid, [k], bound_names(k) | cls_bound)
                        graph[mid].add(cid)
            elif isinstance(n, (ast.Assign, ast.AnnAssign, ast.AugAssign)):
                targets = n.targets if isinstance(n, ast.Assign) else [n.target]
                value = [n.value] if n.value is not None else []
                for t in targets:
                    for x in ast.walk(t):
                        if isinstance(x, ast.Name):
                            add(m.defs[x.id], value, set())
            elif isinstance(n, (ast.If, ast.Try)):
                # every binding made under the condition depends on everything the statement mentions
                names = [x.id for x in ast.walk(n) if isinstance(x, ast.Name) and isinstance(x.ctx, ast.Store)]
                names += [x.name for x in ast.walk(n) if isinstance(x, (ast.FunctionDef, ast.ClassDef))]
                inner_bound = set()
                for x in ast.walk(n):
                    if isinstance(x, (ast.FunctionDef, ast.AsyncFunctionDef)):
                        inner_bound |= bound_names(x)
                for nm in names:
                    add(m.defs[nm], [n], inner_bound | set(names))
    # a reference to pkg:mod.name where name is itself imported into mod from elsewhere: follow the import
    def canon(t, depth=0):
        if t.startswith("pkg:") and t not in graph and depth < 5:
            parts = t[4:].split(".")
            if len(parts) == 2 and parts[0] in mods and parts[1] in mods[parts[0]].imports:
                return canon(mods[parts[0]].imports[parts[1]], depth + 1)
        return t
    def dotted(t):
        return t + "." if t.startswith("ext:") and "." not in t[4:] else t
    out = {}
    for k, v in graph.items():
        out[k] = sorted({dotted(canon(t)) for t in v} - {k})
    for k, v in out.items():
        for t in v:
            if t.startswith("pkg:") and t not in out:
                raise Decline("reference to unknown node " + t)
    return out


def coq_str(s):
    if any(ord(c) > 126 or ord(c) < 32 or c == '"' for c in s):
        raise Decline("node name")
    return '"%s"' % s


ENTRY = ["pkg:__init__.CodeData.to_json_data", "pkg:__init__.CodeData.from_json_data", "pkg:_normalize.normalize",
         "pkg:__init__.CodeData.normalize"]


def render(graph):
    lines = ["(* generated by harness/translate_deps.py from /repo/code_data/*.py on every run; do not edit *)",
             "From Coq Require Import String List.", "Import ListNotations.", "Open Scope string_scope.", "",
             "Definition deps : list (string * list string) := ["]
    items = ["  (%s, [%s])" % (coq_str(k), "; ".join(coq_str(t) for t in v)) for k, v in sorted(graph.items())]
    lines.append(";\n".join(items))
    lines.append("].")
    entry = [e for e in ENTRY if e in graph]
    lines.append("Definition entry_points : list string := [%s]." % "; ".join(coq_str(e) for e in entry))
    return "\n".join(lines) + "\n"


def generate(repo, outpath, fallback_dir, write_fallback=False):
    from common import write_if_changed
    notes = {}
    fb = os.path.join(fallback_dir, "SrcDeps.v")
    try:
        g = build_graph(repo)
        for e in ENTRY[:3]:
            if e not in g:
                raise Decline("entry point %s not found" % e)
        text = render(g) + "Definition deps_translated := true.\n"
        notes["deps"] = "translated (%d nodes)" % len(g)
        if write_fallback:
            with open(fb, "w") as f:
                f.write(render(g))
    except (Decline, OSError, SyntaxError) as e:
        notes["deps"] = "declined: %s" % e
        with open(fb) as f:
            text = ("(* declined (%s): reference graph of the pinned source; decided by the cross-interpreter run only *)\n"
                    % str(e).replace("*)", "* )")[:100]) + f.read() + "Definition deps_translated := false.\n"
    notes["changed"] = write_if_changed(outpath, text)
    return notes


if __name__ == "__main__":
    import sys
    here = os.path.dirname(os.path.abspath(__file__))
    sys.path.insert(0, here)
    print(generate("/repo", os.path.join(here, "..", "coq", "Gen", "SrcDeps.v"), os.path.join(here, "fallback"),
                   write_fallback="--write-fallback" in sys.argv))
