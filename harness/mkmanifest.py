#!/usr/bin/env python3
# Writes /verif/MANIFEST.json from harness/registry.py (kept in one place so it stays valid).
import json
import os
import sys

HERE = os.path.dirname(os.path.abspath(__file__))
sys.path.insert(0, HERE)
import registry  # noqa: E402

VERIF = os.path.dirname(HERE)
ALL = ["C%02d" % i for i in range(1, 17)]


import re as _re


def technique_of(pid):
    """names the deciding method: the theorems of coq/Props/<pid>.v and what ties the model to /repo"""
    path = os.path.join(os.path.dirname(os.path.dirname(os.path.abspath(__file__))), "coq", "Props", pid + ".v")
    try:
        src = open(path).read()
    except OSError:
        src = ""
    thms = _re.findall(r"(?m)^Theorem\s+([A-Za-z0-9_']+)", src)
    exs = _re.findall(r"(?m)^Example\s+([A-Za-z0-9_']+)", src)
    gens = sorted(set(_re.findall(r"Gen\.(Src[A-Za-z]*)", src)))
    t = ("machine-checked proof in Coq 8.16.1: %d theorems in coq/Props/%s.v (%s) about a hand-written executable Gallina model, "
         "all closed under the global context" % (len(thms), pid, ", ".join(thms)))
    if exs:
        t += "; closed obligations / non-vacuity examples: " + ", ".join(exs)
    t += ("; the model is tied to /repo on every run by evaluating it inside Coq (vm_compute) against the implementation under "
          "CPython 3.7-3.10 on the same inputs (correspondence), by premise monitors")
    if gens:
        t += " and by proof obligations over terms re-translated from the source (Gen/%s.v)" % ".v, Gen/".join(gens)
    t += "; a failing input is searched with the property's direct oracle on the real implementation"
    return t


def main():
    checks = []
    for pid in ALL:
        spec = registry.PROPS.get(pid)
        if not spec or not spec.get("claimed", True):
            continue
        checks.append({
            "property_id": pid,
            "quick_cmd": "./check %s --tier quick" % pid,
            "thorough_cmd": "./check %s --tier thorough" % pid,
            "evidence_file": "/verif/evidence/%s.json" % pid,
            "replay_cmd_template": "./check %s --replay {path}" % pid,
            "engine": "coq-model+correspondence",
            "level_claimed": {"category": "proof", "text": spec["level_text"], "design_ref": spec.get("design_ref", "DESIGN.md section 8")},
            "level_note": spec["level_note"],
            "technique": spec.get("technique", technique_of(pid)),
        })
    na = [{"property_id": pid, "reason": registry.NOT_CLAIMED.get(pid, "no check built yet (work in progress)")}
          for pid in ALL if pid not in [c["property_id"] for c in checks]]
    man = {
        "version": 1,
        "setup_cmd": "cd /verif && ./setup.sh",
        "hooks": {"guard": "CODE_DATA_VERIF", "enable": "none needed: the harness imports /repo/code_data (private functions included) directly; CODE_DATA_VERIF=1 is set for workers but guards nothing",
                  "baseline_off_cmd": "cd /repo && /venv/bin/python -m pytest -ra -q -p no:cacheprovider --timeout=900 --continue-on-collection-errors",
                  "source_commits": [], "add_only": True},
        "engines": [{"name": "coq-model+correspondence", "path": "/verif/coq", "serves_properties": [c["property_id"] for c in checks],
                     "kind_free_text": "Coq 8.16.1 development (Base/ Model/ Spec/ Proofs/ Props/ Gen/), model evaluated by vm_compute against the implementation under CPython 3.7-3.10"}],
        "checks": checks,
        "not_applicable": na,
        "notes": "See DESIGN.md. Every check: regenerates coq/Gen from /repo and the interpreters, rebuilds the Coq development, recompiles Props/<id>.v (proof obligations), "
                 "runs the implementation from /repo under each interpreter, evaluates the model on the same inputs inside Coq, runs the property's direct oracle.",
    }
    with open(os.path.join(VERIF, "MANIFEST.json"), "w") as f:
        json.dump(man, f, indent=1)
    print("checks:", [c["property_id"] for c in checks], "not claimed:", [n["property_id"] for n in na])


if __name__ == "__main__":
    main()
