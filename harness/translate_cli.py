# Translator for code_data/_cli.py:main (C16): the rule that decides whether the program sources given on the command line
# are acceptable, and the sequence of things main prints - as a function of the output flags, with the value printed at each
# point (the decoded data, or its normal form) - are re-translated on every run (coq/Gen/SrcCli.v) and proved equal to
# Model/Cli.v.  How each kind of source becomes a code object is compared verbatim with its expected text (decline otherwise).
import ast

from translate_src import Decline


def same(node, text, mode="eval"):
    want = ast.parse(text, mode=mode)
    want = want.body if mode == "eval" else want.body[0]
    return ast.dump(node) == ast.dump(want)


SOURCES = ["file", "cmd", "mod", "eval_"]

BRANCHES = {
    "eval_": ['source = eval(eval_, {"linesep": linesep})', 'code = compile(cast(str, source), "<string>", "exec")'],
    "file": ['code = compile(file.read_bytes(), str(file), "exec")', "with tokenize.open(file) as f:\n    source = f.read()"],
    "cmd": ['source = cmd.replace("\\\\n", "\\n")', 'code = compile(source, "<string>", "exec")'],
    "mod": ["spec = importlib.util.find_spec(mod)", "assert spec", "assert spec.loader", "code = spec.loader.get_code(mod)",
            "source = spec.loader.get_source(mod)", "assert code"],
}


def strip(body):
    return [s for s in body if not (isinstance(s, ast.Expr) and isinstance(s.value, ast.Constant))]


def translate(tree):
    f = next((n for n in tree.body if isinstance(n, ast.FunctionDef) and n.name == "main"), None)
    if f is None or f.decorator_list or f.args.args:
        raise Decline("main")
    body = strip(f.body)
    # ---- validation: if len([s for s in [file, cmd, mod, eval_] if <test>]) != 1: parser.error(...)
    val = next((s for s in body if isinstance(s, ast.If) and isinstance(s.test, ast.Compare) and isinstance(s.test.left, ast.Call)
                and isinstance(s.test.left.func, ast.Name) and s.test.left.func.id in ("len", "sum")), None)
    if val is None:
        raise Decline("validation of the sources")
    t = val.test
    if not (len(t.ops) == 1 and isinstance(t.comparators[0], ast.Constant) and t.comparators[0].value == 1
            and len(val.body) == 1 and isinstance(val.body[0], ast.Expr) and isinstance(val.body[0].value, ast.Call)
            and same(val.body[0].value.func, "parser.error") and not val.orelse):
        raise Decline("shape of the validation")
    comp = t.left.args[0]
    if t.left.func.id == "sum":
        # sum(<test on s> for s in [file, cmd, mod, eval_]): the number of sources for which the test holds
        if not (isinstance(comp, ast.GeneratorExp) and len(comp.generators) == 1 and not comp.generators[0].ifs
                and isinstance(comp.generators[0].target, ast.Name) and same(comp.generators[0].iter, "[file, cmd, mod, eval_]")):
            raise Decline("sum over the sources")
        comp = ast.ListComp(elt=ast.Name(id=comp.generators[0].target.id, ctx=ast.Load()),
                            generators=[ast.comprehension(target=comp.generators[0].target, iter=comp.generators[0].iter, ifs=[comp.elt], is_async=0)])
    TRUTHY = "(fun gv : bool * bool => fst gv && snd gv)"    # truthy: given and not empty
    if isinstance(comp, ast.Call) and same(comp.func, "list") and len(comp.args) == 1 and isinstance(comp.args[0], ast.Call) \
            and same(comp.args[0].func, "filter") and len(comp.args[0].args) == 2 and same(comp.args[0].args[0], "None") \
            and same(comp.args[0].args[1], "[file, cmd, mod, eval_]"):
        counted = TRUTHY                     # filter(None, ...) keeps the truthy values
    else:
        if not (isinstance(comp, ast.ListComp) and len(comp.generators) == 1 and isinstance(comp.generators[0].target, ast.Name)
                and isinstance(comp.elt, ast.Name) and comp.elt.id == comp.generators[0].target.id
                and same(comp.generators[0].iter, "[file, cmd, mod, eval_]")
                and not comp.generators[0].is_async and len(comp.generators[0].ifs) == 1):
            raise Decline("list of the sources")
        v = comp.generators[0].target.id
        test = comp.generators[0].ifs[0]
        if same(test, "%s is not None" % v):
            counted = "fst"                      # given
        elif isinstance(test, ast.Name) and test.id == v:
            counted = TRUTHY
        else:
            raise Decline("test of the sources")
    if isinstance(t.ops[0], ast.NotEq):
        acc = "zlen (filter %s [file; cmd; mod_; eval_]) =? 1" % counted
    elif isinstance(t.ops[0], ast.Eq):
        acc = "negb (zlen (filter %s [file; cmd; mod_; eval_]) =? 1)" % counted
    else:
        raise Decline("comparison of the count")
    # ---- the four ways a source becomes a code object: verbatim
    chain = next((s for s in body if isinstance(s, ast.If) and same(s.test, "eval_ is not None")), None)
    if chain is None:
        raise Decline("source selection")
    node, seen = chain, []
    while True:
        name = None
        for n in SOURCES:
            if same(node.test, "%s is not None" % n):
                name = n
        if name is None:
            raise Decline("test in the source selection")
        got = strip(node.body)
        want = BRANCHES[name]
        if not (len(got) == len(want) and all(same(a, b, "exec") for a, b in zip(got, want))):
            raise Decline("branch of the source selection for " + name)
        seen.append(name)
        if len(node.orelse) == 1 and isinstance(node.orelse[0], ast.If):
            node = node.orelse[0]
        elif not node.orelse:
            break
        else:
            raise Decline("else of the source selection")
    if sorted(seen) != sorted(SOURCES):
        raise Decline("sources handled: %s" % seen)
    # ---- what is printed, in order
    i = body.index(chain) + 1
    actions = []
    value = None       # symbolic value of code_data: None (unbound), "VDecoded", "(VNormalized ...)", conditional forms
    for st in body[i:]:
        if isinstance(st, ast.If) and same(st.test, "show_source and source is not None") and not st.orelse \
                and len(st.body) == 1 and same(st.body[0], 'console.print(Syntax(source, "python", line_numbers=True))', "exec"):
            actions.append("(if show_source && has_source then [APrintSource] else [])")
        elif isinstance(st, ast.If) and same(st.test, "show_dis") and not st.orelse and len(st.body) == 2 \
                and same(st.body[0], "show_code_recursive(code)", "exec") and same(st.body[1], "dis.dis(code)", "exec"):
            actions.append("(if show_dis then [ADis] else [])")
        elif same(st, "code_data = CodeData.from_code(code)", "exec"):
            value = "VDecoded"
        elif isinstance(st, ast.If) and not st.orelse and len(st.body) == 1 and same(st.body[0], "code_data = normalize(code_data)", "exec"):
            if value is None:
                raise Decline("normalize before decoding")
            if same(st.test, "not no_normalize"):
                value = "(if negb no_normalize then VNormalized %s else %s)" % (value, value)
            elif same(st.test, "no_normalize"):
                value = "(if no_normalize then VNormalized %s else %s)" % (value, value)
            else:
                raise Decline("condition of normalize")
        elif same(st, "console.print(code_data)", "exec"):
            if value is None:
                raise Decline("print before decoding")
            actions.append("[APrint %s]" % value)
        elif isinstance(st, ast.If) and same(st.test, "json") and not st.orelse and len(st.body) == 2 \
                and same(st.body[1], "console.print(JSON.from_data(json_data, ensure_ascii=False))", "exec"):
            a0 = st.body[0]
            if same(a0, "json_data = code_data.to_json_data()", "exec"):
                jv = value
            elif same(a0, "json_data = normalize(code_data).to_json_data()", "exec"):
                jv = "(VNormalized %s)" % value
            else:
                raise Decline("value of the JSON section")
            if jv is None:
                raise Decline("JSON before decoding")
            actions.append("(if json then [AJson %s] else [])" % jv)
        elif isinstance(st, ast.If) and same(st.test, "show_dis_after") and not st.orelse and len(st.body) == 3 \
                and same(st.body[0], "res = code_data.to_code()", "exec") and same(st.body[1], "show_code_recursive(res)", "exec") \
                and same(st.body[2], "dis.dis(res)", "exec"):
            if value is None:
                raise Decline("dis-after before decoding")
            actions.append("(if show_dis_after then [ADisAfter %s] else [])" % value)
        elif isinstance(st, (ast.AnnAssign,)) or same(st, "console = Console()", "exec"):
            pass
        else:
            raise Decline("statement of main after the source selection: " + ast.dump(st)[:60])
    return ("(* each source: (given on the command line, value not empty) *)\n"
            "Definition accepts (file cmd mod_ eval_ : bool * bool) : bool := %s.\n"
            "Definition actions (show_dis show_source show_dis_after no_normalize json has_source : bool) : list action :=\n  %s.\n"
            % (acc, " ++ ".join(actions)))


HEADER = ("(* generated by harness/translate_cli.py from /repo/code_data/_cli.py on every run; do not edit *)\n"
          "From PCD Require Import Base.PyBase Model.Cli.\n\n")


def generate(repo, outpath, fallback_dir, write_fallback=False):
    import os
    from common import write_if_changed
    notes = {}
    fb = os.path.join(fallback_dir, "SrcCli.v")
    try:
        with open(os.path.join(repo, "code_data", "_cli.py")) as f:
            tree = ast.parse(f.read())
        text = translate(tree)
        notes["cli"] = "translated"
        flag = "true"
        if write_fallback:
            with open(fb, "w") as f:
                f.write(text)
    except (Decline, OSError, SyntaxError, IndexError, KeyError, AttributeError, ValueError) as e:
        notes["cli"] = "declined: %s" % e
        with open(fb) as f:
            text = ("(* declined (%s): reference translation of the pinned source; tied by correspondence only *)\n"
                    % str(e).replace("*)", "* )")[:100]) + f.read()
        flag = "false"
    notes["changed"] = write_if_changed(outpath, HEADER + text + "Definition cli_translated := %s.\n" % flag)
    return notes


if __name__ == "__main__":
    import sys
    import os
    here = os.path.dirname(os.path.abspath(__file__))
    sys.path.insert(0, here)
    print(generate("/repo", os.path.join(here, "..", "coq", "Gen", "SrcCli.v"), os.path.join(here, "fallback"),
                   write_fallback="--write-fallback" in sys.argv))
