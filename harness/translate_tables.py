# Translator for the operand tables of code_data/_blocks.py (C09 / C03): ToArgs.found_index, FromArgs.__setitem__ and
# FromArgs.add are re-translated on every run into Gallina (coq/Gen/SrcTables.v) over the model's table records, and proved
# equal to Model/Blocks.found_index / fa_setitem / fa_add for all tables and all key equalities.
# The methods work on dict / set fields of self; each field has a declared representation:
#   ToArgs:   _args -> ta_args (tuple), _index_to_order -> ta_order (ordered dict int -> int),
#             _key_to_index -> ta_keys (association list under the key equality), _duplicate_keys -> ta_dups (set of keys)
#   FromArgs: _i_to_arg -> fa_items (ordered dict int -> value), _arg_to_i -> fa_index (association list under the key equality)
#   self._hash_fn(x) is the key of x: keys are compared with keq, so the key of x is x itself.
# Fail-closed on anything else.
import ast

from translate_src import Decline


def same(node, text, mode="eval"):
    want = ast.parse(text, mode=mode)
    want = want.body if mode == "eval" else want.body[0]
    return ast.dump(node) == ast.dump(want)


class M:
    """method translation state: Gallina names of the current table and of locals"""

    def __init__(self, kind):
        self.kind = kind          # "to" | "from"
        self.n = 0
        self.locals = {}          # python local -> (gallina text, type)

    def st(self):
        return "st%d" % self.n

    def new_st(self):
        self.n += 1
        return "st%d" % self.n


def key_of(m, e):
    """self._hash_fn(x) or a local holding a key -> the value whose key it is"""
    if isinstance(e, ast.Call) and same(e.func, "self._hash_fn") and len(e.args) == 1:
        return val(m, e.args[0])
    if isinstance(e, ast.Name) and e.id in m.locals and m.locals[e.id][1] == "key":
        return m.locals[e.id][0]
    raise Decline("key expression " + ast.dump(e)[:60])


def val(m, e):
    """an expression denoting a table value (of type T)"""
    if isinstance(e, ast.Name) and e.id in m.locals and m.locals[e.id][1] == "T":
        return m.locals[e.id][0]
    if m.kind == "from" and same(e, "self._i_to_arg[i]"):
        return "old__"      # only used under `i in self._i_to_arg`, see cond()
    raise Decline("value expression " + ast.dump(e)[:60])


def zexp(m, e):
    if isinstance(e, ast.Name) and e.id in m.locals and m.locals[e.id][1] == "Z":
        return m.locals[e.id][0]
    if m.kind == "to" and same(e, "len(self._index_to_order)"):
        return "(zlen (ta_order %s))" % m.st()
    if m.kind == "from" and (same(e, "len(self)") or same(e, "len(self._i_to_arg)")):
        return "(zlen (fa_items %s))" % m.st()
    raise Decline("integer expression " + ast.dump(e)[:60])


# ---------------------------------------------------------------------------------------------------------

def translate_found_index(cls):
    f = next((n for n in cls.body if isinstance(n, ast.FunctionDef) and n.name == "found_index"), None)
    if f is None or f.decorator_list or [a.arg for a in f.args.args] != ["self", "index"]:
        raise Decline("found_index")
    body = [s for s in f.body if not (isinstance(s, ast.Expr) and isinstance(s.value, ast.Constant))]
    if len(body) != 5:
        raise Decline("statements of found_index")
    s_arg, s_key, s_if, s_wrong, s_ret = body
    if not same(s_arg, "arg = self._args[index]", "exec"):
        raise Decline("arg = self._args[index]")
    if not same(s_key, "key = self._hash_fn(arg)", "exec"):
        raise Decline("key = self._hash_fn(arg)")
    # if index not in self._index_to_order: <register>
    if not (isinstance(s_if, ast.If) and same(s_if.test, "index not in self._index_to_order") and not s_if.orelse):
        raise Decline("registration guard")
    reg = s_if.body
    if not (len(reg) == 2 and isinstance(reg[0], ast.Assign) and same(reg[0].targets[0], "self._index_to_order[index]")
            is False):
        pass
    if not (len(reg) == 2 and isinstance(reg[0], ast.Assign)
            and ast.dump(reg[0].targets[0]) == ast.dump(ast.parse("self._index_to_order[index] = 0").body[0].targets[0])):
        raise Decline("rank assignment")
    rank = reg[0].value
    if same(rank, "len(self._index_to_order)"):
        rank_t = "(zlen (ta_order st))"
    elif same(rank, "len(self._args)"):
        rank_t = "(zlen (ta_args st))"
    else:
        raise Decline("rank expression")
    d = reg[1]
    if not (isinstance(d, ast.If) and not d.orelse and len(d.body) == 1 and same(d.body[0], "self._duplicate_keys.add(key)", "exec")):
        raise Decline("duplicate registration")
    t = d.test
    if not (isinstance(t, ast.Compare) and len(t.ops) == 1 and same(t.left, "self._key_to_index.setdefault(key, index)")
            and same(t.comparators[0], "index")):
        raise Decline("first-index test")
    if isinstance(t.ops[0], ast.NotEq):
        dup_cond = "negb (first =? index)"
    elif isinstance(t.ops[0], ast.Eq):
        dup_cond = "(first =? index)"
    else:
        raise Decline("first-index comparison")     # `is not` on ints is not equality of values
    # wrong_position = (self._index_to_order[index] != index or key in self._duplicate_keys)
    if not (isinstance(s_wrong, ast.Assign) and isinstance(s_wrong.targets[0], ast.Name)):
        raise Decline("wrong_position")
    wname = s_wrong.targets[0].id

    def wexpr(e):
        if isinstance(e, ast.BoolOp):
            parts = [wexpr(x) for x in e.values]
            return "(" + (" || " if isinstance(e.op, ast.Or) else " && ").join(parts) + ")"
        if isinstance(e, ast.Compare) and len(e.ops) == 1:
            if same(e.left, "self._index_to_order[index]") and same(e.comparators[0], "index"):
                if isinstance(e.ops[0], ast.NotEq):
                    return "negb (order_at (ta_order st1) index =? index)"
                if isinstance(e.ops[0], ast.Eq):
                    return "(order_at (ta_order st1) index =? index)"
                raise Decline("rank comparison")
            if isinstance(e.ops[0], ast.In) and same(e.left, "key") and same(e.comparators[0], "self._duplicate_keys"):
                return "key_mem keq (ta_dups st1) a"
            if isinstance(e.ops[0], ast.NotIn) and same(e.left, "key") and same(e.comparators[0], "self._duplicate_keys"):
                return "negb (key_mem keq (ta_dups st1) a)"
        raise Decline("wrong_position expression " + ast.dump(e)[:60])
    wrong = wexpr(s_wrong.value)
    if not (isinstance(s_ret, ast.Return) and same(s_ret.value, "(arg, index if %s else None)" % wname)):
        raise Decline("return of found_index")
    return ("  Definition found_index (st : toargs T) (index : Z) : res (T * option Z * toargs T) :=\n"
            "    match py_index (ta_args st) index with\n    | None => Err IndexError\n    | Some a =>\n"
            "        let st1 :=\n          if negb (omem (ta_order st) index) then\n"
            "            let order' := oset (ta_order st) index %s in\n"
            "            let '(first, keys') := setdefault keq (ta_keys st) a index in\n"
            "            mkToArgs (ta_args st) order' keys' (if %s then dup_add keq (ta_dups st) a else ta_dups st)\n"
            "          else st in\n"
            "        let wrong := %s in\n"
            "        OK (a, (if wrong then Some index else None), st1)\n    end.\n" % (rank_t, dup_cond, wrong))


def translate_additional_args(cls):
    f = next((n for n in cls.body if isinstance(n, ast.FunctionDef) and n.name == "additional_args"), None)
    if f is None or f.decorator_list or [a.arg for a in f.args.args] != ["self"]:
        raise Decline("additional_args")
    body = [s for s in f.body if not (isinstance(s, ast.Expr) and isinstance(s.value, ast.Constant))]
    if not (len(body) == 1 and isinstance(body[0], ast.For) and same(body[0].iter, "range(len(self._args))")
            and isinstance(body[0].target, ast.Name) and not body[0].orelse):
        raise Decline("loop of additional_args")
    i = body[0].target.id
    lb = [s for s in body[0].body if not (isinstance(s, ast.Expr) and isinstance(s.value, ast.Constant))]
    if not (len(lb) == 1 and isinstance(lb[0], ast.If) and not lb[0].orelse and len(lb[0].body) == 1):
        raise Decline("body of the loop of additional_args")
    t = lb[0].test
    if same(t, "%s not in self._index_to_order" % i):
        cond = "negb (omem (ta_order (fst acc)) i)"
    elif same(t, "%s in self._index_to_order" % i):
        cond = "omem (ta_order (fst acc)) i"
    else:
        raise Decline("test of additional_args")
    y = lb[0].body[0]
    if not (isinstance(y, ast.Expr) and isinstance(y.value, ast.Yield) and same(y.value.value, "self.found_index(%s)" % i)):
        raise Decline("yield of additional_args")
    return ("  (* the generator is consumed to the end by its callers; the table it reads is the one found_index updates *)\n"
            "  Definition additional_args (st : toargs T) : res (list (T * option Z)) :=\n"
            "    match foldM (fun (acc : toargs T * list (T * option Z)) (i : Z) =>\n"
            "                   if %s then\n"
            "                     match found_index (fst acc) i with\n"
            "                     | OK (a, ov, st') => OK (st', snd acc ++ [(a, ov)])\n"
            "                     | Err e => Err e\n                     end\n"
            "                   else OK acc)\n"
            "                (map Z.of_nat (seq 0 (length (ta_args st)))) (st, []) with\n"
            "    | OK acc => OK (snd acc)\n    | Err e => Err e\n    end.\n" % cond)


def translate_setitem(cls):
    f = next((n for n in cls.body if isinstance(n, ast.FunctionDef) and n.name == "__setitem__"), None)
    if f is None or f.decorator_list or [a.arg for a in f.args.args] != ["self", "i", "arg"]:
        raise Decline("__setitem__")
    body = [s for s in f.body if not (isinstance(s, ast.Expr) and isinstance(s.value, ast.Constant))]
    if len(body) != 3:
        raise Decline("statements of __setitem__")
    g, a1, a2 = body
    if not (isinstance(g, ast.If) and not g.orelse and len(g.body) == 1 and isinstance(g.body[0], ast.Raise)
            and isinstance(g.body[0].exc, ast.Call) and isinstance(g.body[0].exc.func, ast.Name)):
        raise Decline("collision guard")
    exn = g.body[0].exc.func.id
    if exn not in ("ValueError", "KeyError", "AssertionError"):
        raise Decline("exception of the collision guard")
    t = g.test
    want = "i in self._i_to_arg and self._hash_fn(self._i_to_arg[i]) != self._hash_fn(arg)"
    if not same(t, want):
        raise Decline("collision test")
    if not (same(a1, "self._i_to_arg[i] = arg", "exec") and same(a2, "self._arg_to_i[self._hash_fn(arg)] = i", "exec")):
        raise Decline("stores of __setitem__")
    return ("  Definition fa_setitem (st : fromargs T) (i : Z) (a : T) : res (fromargs T) :=\n"
            "    let clash := match oget (fa_items st) i with Some old => negb (keq old a) | None => false end in\n"
            "    if clash then Err %s\n"
            "    else OK (mkFromArgs (oset (fa_items st) i a) (key_set keq (fa_index st) a i)).\n" % exn)


def translate_add(cls):
    f = next((n for n in cls.body if isinstance(n, ast.FunctionDef) and n.name == "add"), None)
    if f is None or f.decorator_list or [a.arg for a in f.args.args] != ["self", "arg", "index_override"]:
        raise Decline("add")
    body = [s for s in f.body if not (isinstance(s, ast.Expr) and isinstance(s.value, ast.Constant))]
    if len(body) != 6:
        raise Decline("statements of add: %d" % len(body))
    s_ov, s_hash, s_known, s_idx, s_set, s_ret = body
    if not (isinstance(s_ov, ast.If) and same(s_ov.test, "index_override is not None") and not s_ov.orelse and len(s_ov.body) == 2
            and same(s_ov.body[0], "self[index_override] = arg", "exec") and same(s_ov.body[1], "return index_override", "exec")):
        raise Decline("override branch of add")
    if not same(s_hash, "hash_ = self._hash_fn(arg)", "exec"):
        raise Decline("hash_ = self._hash_fn(arg)")
    if not (isinstance(s_known, ast.If) and same(s_known.test, "hash_ in self._arg_to_i") and not s_known.orelse and len(s_known.body) == 1
            and same(s_known.body[0], "return self._arg_to_i[hash_]", "exec")):
        raise Decline("known-value branch of add")
    if same(s_idx, "index = len(self)", "exec"):
        idx = "zlen (fa_items st)"
    elif same(s_idx, "index = len(self._i_to_arg)", "exec"):
        idx = "zlen (fa_items st)"
    else:
        raise Decline("new index")
    if not same(s_set, "self[index] = arg", "exec"):
        raise Decline("the new entry is not stored through __setitem__")
    if not same(s_ret, "return index", "exec"):
        raise Decline("return of add")
    return ("  Definition fa_add (st : fromargs T) (a : T) (ov : option Z) : res (Z * fromargs T) :=\n"
            "    match ov with\n"
            "    | Some i => match fa_setitem st i a with OK st' => OK (i, st') | Err e => Err e end\n"
            "    | None =>\n"
            "        match key_lookup keq (fa_index st) a with\n"
            "        | Some i => OK (i, st)\n"
            "        | None => let i := %s in match fa_setitem st i a with OK st' => OK (i, st') | Err e => Err e end\n"
            "        end\n    end.\n" % idx)


def translate_to_tuple(cls):
    f = next((n for n in cls.body if isinstance(n, ast.FunctionDef) and n.name == "to_tuple"), None)
    if f is None or f.decorator_list or [a.arg for a in f.args.args] != ["self"]:
        raise Decline("to_tuple")
    body = [s for s in f.body if not (isinstance(s, ast.Expr) and isinstance(s.value, ast.Constant))]
    if len(body) != 2 or not isinstance(body[0], ast.If) or body[0].orelse or not isinstance(body[1], ast.Return):
        raise Decline("body of to_tuple")
    g = body[0]
    if not (len(g.body) == 1 and isinstance(g.body[0], ast.Raise)):
        raise Decline("guard of to_tuple")
    exc = g.body[0].exc
    exc = exc.func if isinstance(exc, ast.Call) else exc
    if not (isinstance(exc, ast.Name) and exc.id == "ValueError"):
        raise Decline("exception of to_tuple")
    t = g.test
    def is_items(e):
        return same(e, "self._i_to_arg") or same(e, "self._i_to_arg.keys()")
    def is_len(e):
        return same(e, "len(self._i_to_arg)") or same(e, "len(self)")
    if not (isinstance(t, ast.Compare) and len(t.ops) == 1 and isinstance(t.ops[0], ast.NotEq)):
        raise Decline("test of to_tuple")
    l, r = t.left, t.comparators[0]
    def is_keyset(e):
        return isinstance(e, ast.Call) and isinstance(e.func, ast.Name) and e.func.id == "set" and len(e.args) == 1 and is_items(e.args[0])
    def is_rangeset(e):
        return (isinstance(e, ast.Call) and isinstance(e.func, ast.Name) and e.func.id == "set" and len(e.args) == 1
                and isinstance(e.args[0], ast.Call) and isinstance(e.args[0].func, ast.Name) and e.args[0].func.id == "range"
                and len(e.args[0].args) == 1 and is_len(e.args[0].args[0]))
    if not ((is_keyset(l) and is_rangeset(r)) or (is_keyset(r) and is_rangeset(l))):
        raise Decline("sets compared in to_tuple")
    v = body[1].value
    if not (isinstance(v, ast.Call) and isinstance(v.func, ast.Name) and v.func.id == "tuple" and len(v.args) == 1
            and isinstance(v.args[0], (ast.GeneratorExp, ast.ListComp)) and len(v.args[0].generators) == 1):
        raise Decline("returned value of to_tuple")
    gen = v.args[0].generators[0]
    if not (not gen.ifs and isinstance(gen.target, ast.Tuple) and len(gen.target.elts) == 2 and all(isinstance(x, ast.Name) for x in gen.target.elts)
            and (same(gen.iter, "sorted(self._i_to_arg.items())") or same(gen.iter, "self._i_to_arg.items()"))
            and isinstance(v.args[0].elt, ast.Name)):
        raise Decline("generator of to_tuple")
    order = "isort_by_key (fa_items st)" if same(gen.iter, "sorted(self._i_to_arg.items())") else "fa_items st"   # insertion order otherwise
    kn, vn = gen.target.elts[0].id, gen.target.elts[1].id
    if v.args[0].elt.id == vn and vn != kn:
        proj = "snd"
    else:
        raise Decline("element of the tuple")
    order_text = order
    return ("  Definition fa_to_tuple (st : fromargs T) : res (list T) :=\n"
            "    if negb (keys_are_range (fa_items st)) then Err ValueError else OK (map %s (%s)).\n" % (proj, order_text))


def translate(tree):
    classes = {n.name: n for n in tree.body if isinstance(n, ast.ClassDef)}
    if "ToArgs" not in classes or "FromArgs" not in classes:
        raise Decline("ToArgs / FromArgs")
    # the fields and their defaults: the representation above is only right for these
    def fields(cls):
        out = {}
        for n in cls.body:
            if isinstance(n, ast.AnnAssign) and isinstance(n.target, ast.Name):
                out[n.target.id] = ast.dump(n.value) if n.value is not None else None
        return out
    ft = fields(classes["ToArgs"])
    if set(ft) != {"_args", "_index_to_order", "_hash_fn", "_key_to_index", "_duplicate_keys"}:
        raise Decline("fields of ToArgs: %s" % sorted(ft))
    ff = fields(classes["FromArgs"])
    if set(ff) != {"_i_to_arg", "_arg_to_i", "_hash_fn"}:
        raise Decline("fields of FromArgs: %s" % sorted(ff))
    want_factory = {"_index_to_order": "field(default_factory=dict)", "_key_to_index": "field(default_factory=dict)",
                    "_duplicate_keys": "field(default_factory=set)"}
    for k, w in want_factory.items():
        if ft[k] != ast.dump(ast.parse(w, mode="eval").body):
            raise Decline("default of ToArgs.%s (a shared default would be state across tables)" % k)
    for k in ("_i_to_arg", "_arg_to_i"):
        if ff[k] != ast.dump(ast.parse("field(default_factory=dict)", mode="eval").body):
            raise Decline("default of FromArgs.%s" % k)
    return ("Section Tables.\n  Context {T : Type} (keq : T -> T -> bool).\n"
            + translate_found_index(classes["ToArgs"]) + translate_additional_args(classes["ToArgs"])
            + translate_setitem(classes["FromArgs"]) + translate_add(classes["FromArgs"]) + translate_to_tuple(classes["FromArgs"])
            + "End Tables.\n")


HEADER = ("(* generated by harness/translate_tables.py from /repo/code_data/_blocks.py on every run; do not edit *)\n"
          "From PCD Require Import Base.PyBase Base.PyImp Base.Cfg Model.Flags Model.Args Model.Data Model.LineTable Model.Blocks Model.TableOps.\n\n")


def generate(repo, outpath, fallback_dir, write_fallback=False):
    import os
    from common import write_if_changed
    notes = {}
    fb = os.path.join(fallback_dir, "SrcTables.v")
    try:
        with open(os.path.join(repo, "code_data", "_blocks.py")) as f:
            tree = ast.parse(f.read())
        text = translate(tree)
        notes["tables"] = "translated"
        flag = "true"
        if write_fallback:
            with open(fb, "w") as f:
                f.write(text)
    except (Decline, OSError, SyntaxError, IndexError, KeyError, AttributeError) as e:
        notes["tables"] = "declined: %s" % e
        with open(fb) as f:
            text = ("(* declined (%s): reference translation of the pinned source; tied by correspondence only *)\n"
                    % str(e).replace("*)", "* )")[:100]) + f.read()
        flag = "false"
    notes["changed"] = write_if_changed(outpath, HEADER + text + "Definition tables_translated := %s.\n" % flag)
    return notes


if __name__ == "__main__":
    import sys
    import os
    here = os.path.dirname(os.path.abspath(__file__))
    sys.path.insert(0, here)
    repo = sys.argv[2] if len(sys.argv) > 2 else "/repo"
    print(generate(repo, os.path.join(here, "..", "coq", "Gen", "SrcTables.v"), os.path.join(here, "fallback"),
                   write_fallback="--write-fallback" in sys.argv))
