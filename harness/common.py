# Host-side driver shared by all properties: interpreters, Coq build, proof obligations,
# workers, correspondence (model evaluated inside Coq by vm_compute), verdict, evidence.
import concurrent.futures as cf
import hashlib
import json
import os
import sys as _sys
if hasattr(_sys, "set_int_max_str_digits"):
    _sys.set_int_max_str_digits(0)   # the driver reads / writes ints of any size (it never runs the library)
import re
import shutil
import subprocess
import sys
import time

VERIF = os.path.dirname(os.path.dirname(os.path.abspath(__file__)))
COQ = os.path.join(VERIF, "coq")
HARNESS = os.path.join(VERIF, "harness")
REPO = os.environ.get("VERIF_REPO", "/repo")
GUARD = "CODE_DATA_VERIF"
PYENV = "/root/.pyenv/versions"
WANTED = [("3.7", "37"), ("3.8", "38"), ("3.9", "39"), ("3.10", "310")]
CONSUMERS = ["3.11", "3.12", "3.13"]
CASES_PER_FILE = 250
MAX_FILE_BYTES = 1500000


def log(*a):
    print(*a, flush=True)


def find_python(mm):
    if not os.path.isdir(PYENV):
        return None
    for d in sorted(os.listdir(PYENV)):
        if d.startswith(mm + ".") and os.path.exists(os.path.join(PYENV, d, "bin", "python")):
            return os.path.join(PYENV, d, "bin", "python")
    return None


def interpreters():
    out = []
    for mm, tag in WANTED:
        p = find_python(mm)
        if p:
            out.append((mm, tag, p))
    return out


def worker_env():
    env = dict(os.environ)
    env["PYTHONPATH"] = REPO + ":" + os.path.join(HARNESS, "pyshim")
    env["PYTHONDONTWRITEBYTECODE"] = "1"
    env["PYTHONHASHSEED"] = "0"
    env[GUARD] = "1"
    env.pop("PYTHONHOME", None)
    return env


def run(cmd, timeout, cwd=None, env=None, stdin=None):
    t0 = time.time()
    try:
        p = subprocess.run(cmd, cwd=cwd, env=env, input=stdin, stdout=subprocess.PIPE,
                           stderr=subprocess.STDOUT, timeout=timeout, universal_newlines=True)
        return p.returncode, p.stdout, time.time() - t0
    except subprocess.TimeoutExpired as e:
        out = e.stdout if isinstance(e.stdout, str) else (e.stdout or b"").decode("utf8", "replace")
        return 124, (out or "") + "\n[timeout after %ss]" % timeout, time.time() - t0


# ---------------------------------------------------------------------------------------------
# Coq build and proof obligations

def write_if_changed(path, text):
    old = None
    if os.path.exists(path):
        with open(path) as f:
            old = f.read()
    if old != text:
        with open(path, "w") as f:
            f.write(text)
        return True
    return False


def regenerate():
    """Regenerate Gen/ from the interpreters and from /repo's sources (translator)."""
    sys.path.insert(0, HARNESS)
    import gen_cfg
    import translate_src
    notes = {}
    notes["cfg"] = gen_cfg.generate(os.path.join(COQ, "Gen"), interpreters(), worker_env())
    notes["src"] = translate_src.generate(REPO, os.path.join(COQ, "Gen", "Src.v"))
    notes["heap"] = translate_src.generate_heap(REPO, os.path.join(COQ, "Gen", "SrcHeap.v"))
    notes["schema"] = translate_src.generate_schema(REPO, os.path.join(COQ, "Gen", "SrcSchema.v"))
    notes["fields"] = translate_src.generate_fields(REPO, os.path.join(COQ, "Gen", "SrcFields.v"))
    notes["fresh"] = translate_src.generate_fresh(REPO, os.path.join(COQ, "Gen", "SrcFresh.v"))
    import translate_lines
    notes["lines"] = translate_lines.generate(REPO, os.path.join(COQ, "Gen", "SrcLines.v"), os.path.join(HARNESS, "fallback"))
    import translate_args
    notes["args"] = translate_args.generate(REPO, os.path.join(COQ, "Gen", "SrcArgs.v"), os.path.join(HARNESS, "fallback"))
    import translate_key
    notes["key"] = translate_key.generate(REPO, os.path.join(COQ, "Gen", "SrcKey.v"), os.path.join(HARNESS, "fallback"))
    import translate_norm
    notes["normalize"] = translate_norm.generate(REPO, os.path.join(COQ, "Gen", "SrcNorm.v"), os.path.join(HARNESS, "fallback"))
    import translate_header
    notes["header"] = translate_header.generate(REPO, os.path.join(COQ, "Gen", "SrcHeader.v"), os.path.join(HARNESS, "fallback"))
    import translate_toarg
    notes["to_arg"] = translate_toarg.generate(REPO, os.path.join(COQ, "Gen", "SrcToArg.v"), os.path.join(HARNESS, "fallback"))
    import translate_fromarg
    notes["from_arg"] = translate_fromarg.generate(REPO, os.path.join(COQ, "Gen", "SrcFromArg.v"), os.path.join(HARNESS, "fallback"))
    import translate_tables
    notes["tables"] = translate_tables.generate(REPO, os.path.join(COQ, "Gen", "SrcTables.v"), os.path.join(HARNESS, "fallback"))
    import translate_tojson
    notes["to_json"] = translate_tojson.generate(REPO, os.path.join(COQ, "Gen", "SrcToJson.v"), os.path.join(HARNESS, "fallback"))
    import translate_flags
    notes["flags"] = translate_flags.generate(REPO, os.path.join(COQ, "Gen", "SrcFlags.v"), os.path.join(HARNESS, "fallback"))
    import translate_stage1
    notes["stage1"] = translate_stage1.generate(REPO, os.path.join(COQ, "Gen", "SrcStage1.v"), os.path.join(HARNESS, "fallback"))
    import translate_linemap
    notes["linemap"] = translate_linemap.generate(REPO, os.path.join(COQ, "Gen", "SrcLineMap.v"), os.path.join(HARNESS, "fallback"))
    import translate_iter
    notes["iter"] = translate_iter.generate(REPO, os.path.join(COQ, "Gen", "SrcIter.v"), os.path.join(HARNESS, "fallback"))
    import translate_tail
    notes["tail"] = translate_tail.generate(REPO, os.path.join(COQ, "Gen", "SrcTail.v"), os.path.join(HARNESS, "fallback"))
    import translate_cli
    notes["cli"] = translate_cli.generate(REPO, os.path.join(COQ, "Gen", "SrcCli.v"), os.path.join(HARNESS, "fallback"))
    import translate_deps
    notes["deps"] = translate_deps.generate(REPO, os.path.join(COQ, "Gen", "SrcDeps.v"), os.path.join(HARNESS, "fallback"))
    return notes


def coq_build(jobs=16, timeout=1500, pid=None, imports=""):
    """builds what the check of [pid] needs: Props/<pid>.vo and the modules its case files import (and whatever
    those depend on).  A file that only another property needs and that no longer compiles (a proof obligation
    of that property broken by a change of /repo) does not make this property's check fail."""
    if not os.path.exists(os.path.join(COQ, "Makefile")):
        run(["coq_makefile", "-f", "_CoqProject", "-o", "Makefile"], 60, cwd=COQ)
    if pid is None:
        rc, out, dt = run(["make", "-k", "-j%d" % jobs], timeout, cwd=COQ)
        return rc == 0, out, dt
    targets = ["Props/%s.vo" % pid, "Base/Ser.vo"]
    for m in imports.replace("{TAG}", "39").split():
        path = m.replace(".", "/") + ".vo"
        if os.path.exists(os.path.join(COQ, path[:-1])):
            targets.append(path)
    for tag in ("37", "38", "39", "310"):
        targets.append("Gen/Cfg%s.vo" % tag)
    rc, out, dt = run(["make", "-k", "-j%d" % jobs] + sorted(set(targets)), timeout, cwd=COQ)
    return rc == 0, out, dt


THEOREM_RE = re.compile(r"^\s*(Theorem|Lemma|Example|Corollary)\s+([A-Za-z0-9_']+)", re.M)


def coqchk(pid, timeout=1800):
    """independent re-check of Props/<pid>.vo and everything it depends on; lists the axioms"""
    rc, out, dt = run(["coqchk", "-silent", "-o", "-Q", ".", "PCD", "PCD.Props.%s" % pid], timeout, cwd=COQ)
    m = re.search(r"\* Axioms:(.*?)\n\s*\n", out, re.S)
    return {"ok": rc == 0, "axioms": (m.group(1).strip() if m else "?"), "wall_s": round(dt, 1), "tail": out[-1200:]}


def props_check(pid, timeout=600):
    """Compile Props/<pid>.v from scratch; returns obligations, discharged, assumptions, log."""
    path = os.path.join(COQ, "Props", pid + ".v")
    if not os.path.exists(path):
        return {"exists": False, "obligations": [], "discharged": [], "ok": False,
                "log": "no Props/%s.v" % pid, "assumptions": {}}
    with open(path) as f:
        src = f.read()
    names = [m.group(2) for m in THEOREM_RE.finditer(src)]
    line_of = {m.group(2): src[:m.start()].count("\n") + 1 for m in THEOREM_RE.finditer(src)}
    rc, out, dt = run(["coqc", "-Q", ".", "PCD", os.path.join("Props", pid + ".v")], timeout, cwd=COQ)
    assumptions = {}
    # output of Print Assumptions follows in order of the commands
    chunks = re.split(r"(?m)^(?=Closed under the global context|Axioms:)", out)
    pa_names = re.findall(r"Print Assumptions\s+([A-Za-z0-9_']+)", src)
    pa_chunks = [c.strip() for c in chunks if c.startswith("Closed under") or c.startswith("Axioms:")]
    for n, c in zip(pa_names, pa_chunks):
        assumptions[n] = c
    discharged = list(names)
    failed_at = None
    if rc != 0:
        m = re.search(r'line (\d+), characters', out)
        errline = int(m.group(1)) if m else 0
        # theorems starting at or before the error line whose proof contains it are not discharged
        discharged = []
        ordered = sorted(names, key=lambda n: line_of[n])
        for i, n in enumerate(ordered):
            nxt = line_of[ordered[i + 1]] if i + 1 < len(ordered) else 10 ** 9
            if nxt <= errline:
                discharged.append(n)
            elif failed_at is None:
                failed_at = n
    return {"exists": True, "obligations": names, "discharged": discharged, "ok": rc == 0,
            "failed_at": failed_at, "log": out[-4000:], "assumptions": assumptions, "wall_s": dt}


def forbidden_scan():
    """No Admitted/admit/Axiom/... anywhere in the development."""
    bad = []
    pat = re.compile(r"\b(Admitted|admit|Axiom|Axioms|Parameter|Parameters|Conjecture|Admit Obligations|"
                     r"Unset Guard Checking|Unset Positivity Checking|Unset Universe Checking|"
                     r"bypass_check|type-in-type|impredicative-set)\b")
    for root, _, files in os.walk(COQ):
        if os.path.basename(root) == "Run":
            continue
        for fn in files:
            if fn.endswith(".v") or fn == "_CoqProject":
                with open(os.path.join(root, fn)) as f:
                    for i, line in enumerate(f, 1):
                        code = re.sub(r"\(\*.*?\*\)", "", line)
                        if pat.search(code):
                            bad.append("%s:%d: %s" % (os.path.relpath(os.path.join(root, fn), COQ), i, line.strip()))
    return bad


# ---------------------------------------------------------------------------------------------
# workers

def consumer_interpreters():
    out = []
    for mm in CONSUMERS:
        p = find_python(mm)
        if p:
            out.append((mm, mm.replace(".", ""), p))
    return out


def run_workers(pid, tier, seed, workdir, timeout, phase=None, with_consumers=False):
    os.makedirs(workdir, exist_ok=True)
    interps = interpreters() + (consumer_interpreters() if with_consumers else [])
    results = {}

    def one(item):
        mm, tag, py = item
        outfile = os.path.join(workdir, "worker_%s_%s%s.json" % (pid, tag, "_" + phase if phase else ""))
        if os.path.exists(outfile):
            os.remove(outfile)
        env = worker_env()
        env["VERIF_WORKDIR"] = workdir
        if phase:
            env["VERIF_PHASE"] = phase
        rc, out, dt = run([py, os.path.join(HARNESS, "worker.py"), pid, tier, str(seed), outfile],
                          timeout, env=env, cwd=HARNESS)
        if not os.path.exists(outfile):
            return tag, {"status": "crash", "error": out[-3000:], "python": mm, "cases": [],
                         "violations": [], "counters": {}, "samples": [], "evaluations": 0,
                         "distinct_nontrivial": 0, "notes": [], "wall_s": dt}
        with open(outfile) as f:
            r = json.load(f)
        r["stdout"] = out[-2000:]
        return tag, r

    with cf.ThreadPoolExecutor(max_workers=max(1, len(interps))) as ex:
        for tag, r in ex.map(one, interps):
            results[tag] = r
    return results


# ---------------------------------------------------------------------------------------------
# correspondence: evaluate the model on the same inputs inside Coq

INT_RE = re.compile(r"-?\d+")


def cfg_tag(tag):
    """the Gen.Cfg module a worker's cases are evaluated with (consumer interpreters have none: any will do,
    their cases use only version-free model functions)"""
    t = tag.split(":")[0]
    return t if t in ("37", "38", "39", "310") else "310"


def case_files(pid, tag, cases, imports, prelude):
    files = []
    cur, size = [], 0
    for idx, c in enumerate(cases):
        line = "Definition c%d : list Z * list Z := (%s, %s).\n" % (
            idx, c["expr"], "[" + "; ".join(str(t) if t >= 0 else "(%d)" % t for t in c["exp"]) + "]"
            if c["exp"] else "(@nil Z)")
        if cur and (len(cur) >= CASES_PER_FILE or size + len(line) > MAX_FILE_BYTES):
            files.append(cur)
            cur, size = [], 0
        cur.append((idx, line))
        size += len(line)
    if cur:
        files.append(cur)
    out = []
    for k, chunk in enumerate(files):
        name = "Cases_%s_%s_%d" % (pid, tag.replace(":", "_"), k)
        text = ["From PCD Require Import Base.PyBase Base.Ser %s.\n" % imports.replace("{TAG}", cfg_tag(tag)),
                "Open Scope Z_scope.\n", prelude.replace("{TAG}", cfg_tag(tag)) + "\n"]
        text += [l for _, l in chunk]
        text.append("Definition all_cases := [%s].\n" % "; ".join("c%d" % i for i, _ in chunk))
        text.append("Set Printing Depth 10000000.\nSet Printing Width 200.\n")
        text.append("Eval vm_compute in (mismatches all_cases).\n")
        out.append((name, "".join(text), [i for i, _ in chunk]))
    return out


def run_correspondence(pid, worker_results, imports, prelude, timeout=900):
    rundir = os.path.join(COQ, "Run")
    os.makedirs(rundir, exist_ok=True)
    for fn in os.listdir(rundir):
        if fn.startswith("Cases_%s_" % pid):
            os.remove(os.path.join(rundir, fn))
    jobs = []
    for tag, r in worker_results.items():
        for name, text, idxs in case_files(pid, tag, r["cases"], imports, prelude):
            with open(os.path.join(rundir, name + ".v"), "w") as f:
                f.write(text)
            jobs.append((tag, name, idxs))

    def one(job):
        tag, name, idxs = job
        rc, out, dt = run(["bash", "-c", "ulimit -s unlimited 2>/dev/null; exec coqc -Q . PCD Run/%s.v" % name],
                          timeout, cwd=COQ)
        return tag, name, idxs, rc, out, dt

    summary = {"cases": 0, "agree": 0, "mismatches": [], "errors": [], "by_python": {}, "groups": {}}
    with cf.ThreadPoolExecutor(max_workers=16) as ex:
        for tag, name, idxs, rc, out, dt in ex.map(one, jobs):
            cases = worker_results[tag]["cases"]
            bp = summary["by_python"].setdefault(tag, {"cases": 0, "mismatches": 0})
            if rc != 0:
                summary["errors"].append({"file": name, "log": out[-1500:]})
                continue
            m = re.search(r"=\s*(\[.*?\])\s*:\s*list Z", out, re.S)
            toks = [int(x) for x in INT_RE.findall(m.group(1))] if m else None
            if toks is None:
                summary["errors"].append({"file": name, "log": "unparsed: " + out[-800:]})
                continue
            summary["cases"] += len(idxs)
            bp["cases"] += len(idxs)
            bad = {}
            i = 0
            while i < len(toks):
                if toks[i] == -7777 and i + 2 < len(toks):
                    local, n = toks[i + 1], toks[i + 2]
                    k = min(n, 400)
                    bad[local] = toks[i + 3:i + 3 + k]
                    i += 3 + k
                else:
                    i += 1
            for local, got in bad.items():
                ci = idxs[local]
                c = cases[ci]
                bp["mismatches"] += 1
                summary["mismatches"].append({"python": tag, "group": c.get("group"), "desc": c.get("desc"),
                                              "expr": c["expr"][:3000], "impl": c["exp"][:400], "model": got})
            for ci in idxs:
                g = cases[ci].get("group", "default")
                summary["groups"][g] = summary["groups"].get(g, 0) + 1
    summary["agree"] = summary["cases"] - len(summary["mismatches"])
    for fn in os.listdir(rundir):
        if fn.startswith("Cases_%s_" % pid) and not fn.endswith(".v"):
            os.remove(os.path.join(rundir, fn))
    return summary


# ---------------------------------------------------------------------------------------------
# known findings, verdict, evidence

def load_known():
    p = os.path.join(VERIF, "known_findings.json")
    if not os.path.exists(p):
        return {"findings": [], "fixed": []}
    with open(p) as f:
        return json.load(f)


def match_known(pid, v, known):
    for k in known.get("findings", []):
        if k.get("property") != pid:
            continue
        if k.get("kind") and k["kind"] != v.get("kind"):
            continue
        if k.get("what_regex") and not re.search(k["what_regex"], v.get("what", "")):
            continue
        if k.get("python") and v.get("python") not in k["python"]:
            continue
        return k
    return None


def write_replay(pid, obj):
    d = os.path.join(VERIF, "replays", pid)
    os.makedirs(d, exist_ok=True)
    text = json.dumps(obj, indent=1, sort_keys=True, default=str)
    h = hashlib.sha1(text.encode()).hexdigest()[:12]
    path = os.path.join(d, h + ".json")
    with open(path, "w") as f:
        f.write(text)
    return path


def finish(pid, tier, seed, t0, spec, proof, workers, corr, extra_cov=None, build_ok=True, build_log=""):
    """verdict + evidence. spec: registry entry of the property."""
    known = load_known()
    new_violations = []
    known_hits = {}
    for tag, r in workers.items():
        for v in r.get("violations", []):
            k = match_known(pid, v, known)
            if k:
                known_hits[k["id"]] = k
            else:
                new_violations.append(v)
    crashed = [(tag, r) for tag, r in workers.items() if r.get("status") != "ok" or r.get("tie_breaks")]
    for tag, r in workers.items():
        if r.get("tie_breaks") and not r.get("error"):
            r["error"] = "reference validation failed: " + "; ".join(r["tie_breaks"][:5])
    lines = []
    exit_code = 0
    for k in known_hits.values():
        lines.append("KNOWN-FINDING: property=%s %s" % (pid, k["what"]))
    proof_ok = proof["ok"] and build_ok and not forbidden_scan()
    tie_ok = not corr["mismatches"] and not corr["errors"] and not crashed
    replay = None
    if new_violations:
        replay = write_replay(pid, {"property": pid, "kind": "failing-input", "tier": tier, "seed": seed, "violations": new_violations[:20],
                                    "how_to_replay": spec.get("replay_hint", "")})
        lines.append("VIOLATION property=%s replay=%s" % (pid, replay))
        exit_code = 1
    elif not proof_ok or not tie_ok:
        what = {}
        if not proof_ok:
            what["broken_proof_obligation"] = {"file": "coq/Props/%s.v" % pid, "failed_at": proof.get("failed_at"),
                                               "log": proof.get("log", "")[-2000:], "build_log": build_log[-2000:],
                                               "forbidden": forbidden_scan()}
        if corr["mismatches"]:
            what["broken_correspondence"] = corr["mismatches"][:10]
        if corr["errors"]:
            what["correspondence_errors"] = corr["errors"][:5]
        if crashed:
            what["worker_crash"] = [{"python": r.get("python"), "error": (r.get("error") or "")[-2000:]} for _, r in crashed]
        replay = write_replay(pid, {"property": pid, "kind": "tie-broken", "tier": tier, "seed": seed, "detail": what,
                                    "note": "the direct oracle found no failing input on the implementation"})
        lines.append("VIOLATION property=%s replay=%s no-failing-input-found" % (pid, replay))
        exit_code = 1

    os.makedirs(os.path.join(VERIF, "work"), exist_ok=True)
    with open(os.path.join(VERIF, "work", "corr_%s.json" % pid), "w") as f:
        json.dump({"mismatches": corr["mismatches"][:200], "errors": corr["errors"][:20],
                   "proof_log": proof.get("log", "")[-3000:], "build_log": build_log[-3000:],
                   "crashed": [(t, r.get("error")) for t, r in crashed]}, f, indent=1)
    evaluations = sum(r.get("evaluations", 0) for r in workers.values()) + corr["cases"]
    distinct = sum(r.get("distinct_nontrivial", 0) for r in workers.values())
    samples = []
    for tag, r in workers.items():
        for s in r.get("samples", [])[:3]:
            samples.append({"python": r.get("python"), "case": s})
    counters = {}
    for tag, r in workers.items():
        for k, v in r.get("counters", {}).items():
            counters.setdefault(k, {})[tag] = v
    cov = {
        "obligations": len(proof["obligations"]),
        "discharged": len(proof["discharged"]) if proof_ok or proof["exists"] else 0,
        "theorems": proof["obligations"],
        "print_assumptions": proof["assumptions"],
        "checker_cmd": "cd /verif/coq && make -k -j16 Props/%s.vo <modules the case files import> && coqc -Q . PCD Props/%s.v" % (pid, pid),
        "trusted_base": spec["trusted_base"],
        "evaluations": evaluations,
        "distinct_nontrivial": distinct,
        "rule": spec["rule"],
        "samples": samples or [{"note": "no samples"}],
        "correspondence": {"cases": corr["cases"], "agree": corr["agree"],
                           "mismatches": len(corr["mismatches"]), "errors": len(corr["errors"]),
                           "by_python": corr["by_python"], "groups": corr["groups"]},
        "input_distribution": counters,
        "interpreters_used": [r.get("python") for r in workers.values()],
        "worker_notes": {tag: r.get("notes") for tag, r in workers.items() if r.get("notes")},
        "known_findings_reproduced": sorted(known_hits),
        "exhaustive": False,
    }
    if extra_cov:
        cov.update(extra_cov)
    ev = {
        "property_id": pid, "tier": tier, "seed": seed,
        "level": "proof" if proof["obligations"] else "exploration", "coverage": cov,
        "assumptions": spec["assumptions"], "wall_s": round(time.time() - t0, 1),
        "violations": len(new_violations) + (1 if exit_code and not new_violations else 0),
    }
    if not os.environ.get("VERIF_NO_EVIDENCE"):    # a --replay run reports, it does not rewrite the evidence
        os.makedirs(os.path.join(VERIF, "evidence"), exist_ok=True)
        with open(os.path.join(VERIF, "evidence", pid + ".json"), "w") as f:
            json.dump(ev, f, indent=1, sort_keys=True, default=str)
    for l in lines:
        log(l)
    log("%s tier=%s proof_ok=%s tie_ok=%s cases=%d violations=%d wall=%.0fs" % (
        pid, tier, proof_ok, tie_ok, corr["cases"], len(new_violations), time.time() - t0))
    return exit_code
