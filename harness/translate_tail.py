# Translator for what code_data/_code_data.py:from_code_data does around the header (C01 / C03): the call of blocks_to_bytes
# and the unpacking of its result, consts, the additional line put back into the mapping, and - after the flags are assembled
# (that part is translate_header.py's) - from_flags_data, the shift of the lines by -first_line_number, from_line_mapping,
# nlocals, and the construction of the code object under either constructor signature (3.8+: with posonlyargcount; 3.7: without,
# raising NotImplementedError when there are positional-only arguments).  Re-translated on every run into coq/Gen/SrcTail.v and
# proved equal to the corresponding part of Model/CodeData.encode_code (Proofs/SrcTailTie.v).
# Declared meanings: the positional parameters of types.CodeType for 3.8-3.10 and for 3.7 (below); `sys.version_info >= (3, 8)`
# is cfg_v38; truthiness of an int is `<> 0`; truthiness of an Optional[AdditionalLine] is `is not None`; from_constant of a
# constant paired with its CPython value is that value (map snd); line_mapping is a mutable object threaded through the calls.
import ast

from translate_src import Decline

SIG38 = ["argcount", "posonlyargcount", "kwonlyargcount", "nlocals", "stacksize", "flags", "codestring", "constants", "names",
         "varnames", "filename", "name", "firstlineno", "lnotab", "freevars", "cellvars"]
SIG37 = [p for p in SIG38 if p != "posonlyargcount"]
PYCODE_NEW_ORDER = SIG38      # Model pycode_new takes its arguments in this order (after c)

HEADER_NAMES = {"flags_data", "args_input", "argcount", "posonlyargcount", "kwonlyargcount"}
FIELD = {"stacksize": "(cd_stacksize d)", "filename": "(cd_filename d)", "name": "(cd_name d)", "first_line_number": "(cd_firstline d)",
         "freevars": "(cd_freevars d)"}


def same(node, text, mode="eval"):
    want = ast.parse(text, mode=mode)
    want = want.body if mode == "eval" else want.body[0]
    return ast.dump(node) == ast.dump(want)


def strip(body):
    return [s for s in body if not (isinstance(s, ast.Expr) and isinstance(s.value, ast.Constant))]


def assigned(st):
    out = set()
    for n in ast.walk(st):
        if isinstance(n, ast.Name) and isinstance(n.ctx, ast.Store):
            out.add(n.id)
    return out


def translate(tree):
    f = next((n for n in tree.body if isinstance(n, ast.FunctionDef) and n.name == "from_code_data"), None)
    if f is None or f.decorator_list or [a.arg for a in f.args.args] != ["code_data"]:
        raise Decline("from_code_data")
    body = strip(f.body)
    env = {"argcount": ("argcount", "Z"), "posonlyargcount": ("posonly", "Z"), "kwonlyargcount": ("kwonly", "Z")}
    lm = None                 # Gallina term of the line mapping object
    lines = []                # let / bind lines
    closers = 0

    def value(e):
        if isinstance(e, ast.Name) and e.id in env:
            return env[e.id][0]
        if isinstance(e, ast.Attribute) and isinstance(e.value, ast.Name) and e.value.id == "code_data" and e.attr in FIELD:
            return FIELD[e.attr]
        if isinstance(e, ast.UnaryOp) and isinstance(e.op, ast.USub):
            return "(- %s)" % value(e.operand)
        if isinstance(e, ast.Call) and isinstance(e.func, ast.Name) and e.func.id == "len" and len(e.args) == 1 and isinstance(e.args[0], ast.Name) \
                and e.args[0].id in env and env[e.args[0].id][1] in ("list", "bytes"):
            return "(zlen %s)" % env[e.args[0].id][0]
        raise Decline("value " + ast.dump(e)[:60])

    def codetype(call, sig):
        if not (isinstance(call, ast.Call) and isinstance(call.func, ast.Name) and call.func.id == "CodeType" and not call.keywords
                and len(call.args) == len(sig)):
            raise Decline("CodeType call")
        got = {p: value(a) for p, a in zip(sig, call.args)}
        got.setdefault("posonlyargcount", "0")
        return "pycode_new c " + " ".join(got[p] for p in PYCODE_NEW_ORDER)

    i = 0
    n = len(body)
    seen_flags = False
    result = None
    while i < n:
        st = body[i]
        i += 1
        names = assigned(st)
        if isinstance(st, ast.Assign) and isinstance(st.value, ast.Call) and isinstance(st.value.func, ast.Name) and st.value.func.id == "blocks_to_bytes":
            if not same(st, "(code, line_mapping, names, varnames, cellvars, constants) = blocks_to_bytes(code_data.blocks, "
                            "code_data._additional_args, code_data.freevars, code_data.type)", "exec"):
                raise Decline("call of blocks_to_bytes")
            env.update({"code": ("code", "bytes"), "names": ("names", "list"), "varnames": ("varnames", "list"), "cellvars": ("cellvars", "list"),
                        "constants": ("constants", "plist")})
            lm = "lm0"
        elif same(st, "consts = tuple(map(from_constant, constants))", "exec"):
            env["consts"] = ("(map snd constants)", "list")
        elif isinstance(st, ast.If) and same(st.test, "code_data._additional_line") and not st.orelse and len(strip(st.body)) == 1:
            c = strip(st.body)[0]
            if not (isinstance(c, ast.Expr) and isinstance(c.value, ast.Call) and same(c.value.func, "line_mapping.add_additional_line")
                    and len(c.value.args) == 2 and same(c.value.args[0], "code_data._additional_line") and lm):
                raise Decline("additional line")
            lines.append("let lm := match cd_addline d with Some al => PCD.Gen.SrcLineMap.add_additional_line %s (al_line al) (al_offs al) %s | None => %s end in"
                         % (lm, value(c.value.args[1]), lm))
            lm = "lm"
        elif names and names <= HEADER_NAMES and not seen_flags:
            continue                                   # the flag / argument-count header: translate_header.py
        elif isinstance(st, ast.Assert):
            continue
        elif same(st, "flags = from_flags_data(flags_data)", "exec"):
            lines.append("match from_flags_data c fl with Err e => Err e | OK flags =>")
            closers += 1
            env["flags"] = ("flags", "Z")
            seen_flags = True
        elif isinstance(st, ast.Expr) and isinstance(st.value, ast.Call) and same(st.value.func, "line_mapping.modify_line_offsets") \
                and len(st.value.args) == 1 and not st.value.keywords and lm:
            lines.append("let lm := PCD.Gen.SrcLineMap.modify_line_offsets %s %s in" % (lm, value(st.value.args[0])))
            lm = "lm"
        elif same(st, "line_table = from_line_mapping(line_mapping)", "exec") and lm:
            lines.append("match from_line_mapping (cfg_v310 c) %s with Err e => Err e | OK line_table =>" % lm)
            closers += 1
            env["line_table"] = ("line_table", "bytes")
        elif isinstance(st, ast.Assign) and len(st.targets) == 1 and isinstance(st.targets[0], ast.Name) and st.targets[0].id not in HEADER_NAMES \
                and st.targets[0].id not in ("line_mapping",):
            t = st.targets[0].id
            v = value(st.value)
            ty = "Z"
            if isinstance(st.value, ast.Attribute) and st.value.attr == "freevars":
                ty = "list"
            env[t] = (v, ty)
        elif isinstance(st, ast.If) and same(st.test, "sys.version_info >= (3, 8)") and i == n:
            then = strip(st.body)
            els = strip(st.orelse)
            if not (len(then) == 1 and isinstance(then[0], ast.Return)):
                raise Decline("3.8+ branch")
            t38 = codetype(then[0].value, SIG38)
            guard = None
            if len(els) == 2 and isinstance(els[0], ast.If) and not els[0].orelse and len(strip(els[0].body)) == 1 and isinstance(strip(els[0].body)[0], ast.Raise) \
                    and isinstance(els[0].test, ast.Name) and els[0].test.id == "posonlyargcount":
                r = strip(els[0].body)[0].exc
                r = r.func if isinstance(r, ast.Call) else r
                if not (isinstance(r, ast.Name) and r.id == "NotImplementedError"):
                    raise Decline("exception of the 3.7 branch")
                guard = "negb (posonly =? 0)"
                els = els[1:]
            if not (len(els) == 1 and isinstance(els[0], ast.Return)):
                raise Decline("3.7 branch")
            t37 = codetype(els[0].value, SIG37)
            if guard:
                t37 = "if %s then Err NotImplementedError else %s" % (guard, t37)
            result = "if cfg_v38 c then %s else %s" % (t38, t37)
        else:
            raise Decline("statement of from_code_data: %s" % ast.dump(st)[:70])
    if result is None or lm is None or not seen_flags:
        raise Decline("shape of from_code_data")
    text = "\n  ".join(lines + [result]) + " end" * closers
    return ("Definition tail (c : cfg) (d : code_data_ pconst) (code : list Z) (lm0 : linemap) (names varnames cellvars : list str)\n"
            "    (constants : list pconst) (argcount posonly kwonly : Z) (fl : list flag) : res pycode :=\n  %s.\n" % text)


# ---------------------------------------------------------------------------------------------------------
# to_code_data around its header: the version split of posonlyargcount, to_line_mapping and the shift by co_firstlineno,
# to_flags_data, the keywords of ArgsInput, [the header: translate_header.py], the nine arguments of bytes_to_blocks,
# pop_additional_line(len(code.co_code)) and the keywords of the returned CodeData.

CODE_ATTR = {"co_argcount": ("(co_argcount code)", "Z"), "co_kwonlyargcount": ("(co_kwonlyargcount code)", "Z"),
             "co_posonlyargcount": ("(co_posonlyargcount code)", "Z"), "co_varnames": ("(co_varnames code)", "strs"),
             "co_names": ("(co_names code)", "strs"), "co_freevars": ("(co_freevars code)", "strs"), "co_cellvars": ("(co_cellvars code)", "strs"),
             "co_code": ("(co_code code)", "bytes"), "co_flags": ("(co_flags code)", "Z"), "co_firstlineno": ("(co_firstlineno code)", "Z"),
             "co_stacksize": ("(co_stacksize code)", "Z"), "co_filename": ("(co_filename code)", "str"), "co_name": ("(co_name code)", "str")}
# positions of Model.Data.mkCD
MKCD = ["blocks", "filename", "first_line_number", "name", "stacksize", "type", "freevars", "future_annotations", "_nested", "_additional_line",
        "_additional_args"]
MKCD_TY = {"blocks": "blocks", "filename": "str", "first_line_number": "Z", "name": "str", "stacksize": "Z", "type": "ofunction", "freevars": "strs",
           "future_annotations": "bool", "_nested": "bool", "_additional_line": "oaddline", "_additional_args": "args"}
B2B_TY = ["bytes", "linemap", "strs", "strs", "strs", "strs", "consts", "ofunction", "argsrec"]


def translate_decode(tree):
    f = next((n for n in tree.body if isinstance(n, ast.FunctionDef) and n.name == "to_code_data"), None)
    if f is None or f.decorator_list or [a.arg for a in f.args.args] != ["code"]:
        raise Decline("to_code_data")
    body = strip(f.body)
    env = {}
    lines = []
    closers = 0
    lm = None

    def value(e, want=None):
        if isinstance(e, ast.Name) and e.id in env:
            t, ty = env[e.id]
        elif isinstance(e, ast.Attribute) and isinstance(e.value, ast.Name) and e.value.id == "code" and e.attr in CODE_ATTR:
            t, ty = CODE_ATTR[e.attr]
        elif isinstance(e, ast.Constant) and type(e.value) is int:
            t, ty = "(%d)" % e.value, "Z"
        elif isinstance(e, ast.Call) and isinstance(e.func, ast.Name) and e.func.id == "len" and len(e.args) == 1 and not e.keywords:
            t0, ty0 = value(e.args[0])
            if ty0 not in ("bytes", "strs"):
                raise Decline("len of " + ty0)
            t, ty = "(zlen %s)" % t0, "Z"
        elif isinstance(e, ast.UnaryOp) and isinstance(e.op, ast.USub):
            t0, ty0 = value(e.operand, "Z")
            t, ty = "(- %s)" % t0, "Z"
        else:
            raise Decline("value " + ast.dump(e)[:60])
        if want and ty != want:
            raise Decline("a %s where a %s is expected" % (ty, want))
        return t, ty

    i, n = 0, len(body)
    in_header = False
    result = None
    while i < n:
        st = body[i]
        i += 1
        if isinstance(st, ast.If) and same(st.test, "sys.version_info >= (3, 8)") and len(strip(st.body)) == 1 and len(strip(st.orelse)) == 1:
            a, b = strip(st.body)[0], strip(st.orelse)[0]
            if not (isinstance(a, ast.Assign) and isinstance(b, ast.Assign) and ast.dump(a.targets[0]) == ast.dump(b.targets[0])
                    and isinstance(a.targets[0], ast.Name)):
                raise Decline("version split")
            lines.append("let v_%s := if cfg_v38 c then %s else %s in" % (a.targets[0].id, value(a.value, "Z")[0], value(b.value, "Z")[0]))
            env[a.targets[0].id] = ("v_" + a.targets[0].id, "Z")
        elif same(st, "line_mapping = to_line_mapping(code)", "exec"):
            lines.append("match to_line_mapping (cfg_v310 c) (co_linetable code) (zlen (co_code code)) with Err e => Err e | OK lm0 =>")
            closers += 1
            lm = "lm0"
        elif isinstance(st, ast.Expr) and isinstance(st.value, ast.Call) and same(st.value.func, "line_mapping.modify_line_offsets") \
                and len(st.value.args) == 1 and not st.value.keywords and lm:
            lines.append("let lm := PCD.Gen.SrcLineMap.modify_line_offsets %s %s in" % (lm, value(st.value.args[0], "Z")[0]))
            lm = "lm"
        elif same(st, "constants = tuple(map(to_constant, code.co_consts))", "exec"):
            env["constants"] = ("constants", "consts")         # converted by the caller in the model (structural recursion)
        elif same(st, "flags_data = to_flags_data(code.co_flags)", "exec"):
            lines.append("match to_flags_data c (co_flags code) with Err e => Err e | OK fl0 =>")
            closers += 1
            env["flags_data"] = ("fl0", "flags")
        elif isinstance(st, ast.Assign) and isinstance(st.value, ast.Call) and isinstance(st.value.func, ast.Name) and st.value.func.id == "args_from_input":
            c = st.value
            if not (isinstance(st.targets[0], ast.Name) and st.targets[0].id == "args" and len(c.args) == 1 and not c.keywords and isinstance(c.args[0], ast.Call)
                    and isinstance(c.args[0].func, ast.Name) and c.args[0].func.id == "ArgsInput" and not c.args[0].args):
                raise Decline("args_from_input(ArgsInput(...))")
            kw = {k.arg: k.value for k in c.args[0].keywords}
            if set(kw) != {"argcount", "posonlyargcount", "kwonlyargcount", "varnames", "flags_data"} or len(kw) != len(c.args[0].keywords):
                raise Decline("keywords of ArgsInput")
            lines.append("match args_from_input %s %s %s %s %s with Err e => Err e | OK (a, fl1) =>"
                         % (value(kw["argcount"], "Z")[0], value(kw["posonlyargcount"], "Z")[0], value(kw["kwonlyargcount"], "Z")[0],
                            value(kw["varnames"], "strs")[0], value(kw["flags_data"], "flags")[0]))
            closers += 1
            env["args"] = ("a", "argsrec")
            in_header = True
            lines.append("match PCD.Gen.SrcHeader.Header.header a (match constants with KInner (IStr s) :: _ => Some s | _ => None end)\n"
                         "          (match co_freevars code, co_cellvars code with [], [] => true | _, _ => false end) fl1 with Err e => Err e\n"
                         "  | OK (block_type, annotations, nested) =>")
            closers += 1
        elif isinstance(st, ast.Assign) and isinstance(st.value, ast.Call) and isinstance(st.value.func, ast.Name) and st.value.func.id == "bytes_to_blocks":
            in_header = False
            env.update({"block_type": ("block_type", "ofunction"), "annotations": ("annotations", "bool"), "nested": ("nested", "bool")})
            if not (isinstance(st.targets[0], ast.Tuple) and [getattr(x, "id", None) for x in st.targets[0].elts] == ["blocks", "additional_args"] and len(st.value.args) == 9 and not st.value.keywords and lm):
                raise Decline("call of bytes_to_blocks")
            env["line_mapping"] = (lm, "linemap")
            args = [value(a, ty)[0] for a, ty in zip(st.value.args, B2B_TY)]
            lines.append("match bytes_to_blocks key_eqb c %s with Err e => Err e | OK (blocks, additional, lm') =>" % " ".join(args))
            closers += 1
            del env["line_mapping"]
            lm = "lm'"
            env["blocks"] = ("blocks", "blocks")
            env["additional_args"] = ("additional", "args")
        elif in_header:
            continue                                             # the header: translate_header.py
        elif isinstance(st, ast.Assign) and isinstance(st.value, ast.Call) and same(st.value.func, "line_mapping.pop_additional_line") \
                and isinstance(st.targets[0], ast.Name) and len(st.value.args) == 1 and not st.value.keywords and lm:
            lines.append("match PCD.Gen.SrcLineMap.pop_additional_line %s %s with Err e => Err e | OK (next_line, _) =>" % (lm, value(st.value.args[0], "Z")[0]))
            closers += 1
            env[st.targets[0].id] = ("(match next_line with Some (l, offs) => Some (mkAddline l offs) | None => None end)", "oaddline")
        elif isinstance(st, ast.Return) and i == n and isinstance(st.value, ast.Call) and isinstance(st.value.func, ast.Name) and st.value.func.id == "CodeData" \
                and not st.value.args:
            kw = {k.arg: k.value for k in st.value.keywords}
            if set(kw) != set(MKCD) or len(kw) != len(st.value.keywords):
                raise Decline("keywords of CodeData")
            result = "OK (mkCD %s)" % " ".join(value(kw[k], MKCD_TY[k])[0] for k in MKCD)
        else:
            raise Decline("statement of to_code_data: " + ast.dump(st)[:70])
    if result is None:
        raise Decline("return of to_code_data")
    text = "\n  ".join(lines + [result]) + " end" * closers
    return ("Definition decode_code (c : cfg) (code : pycode) (constants : list const) : res code_data :=\n  %s.\n" % text)


HEADER = ("(* generated by harness/translate_tail.py from /repo/code_data/_code_data.py on every run; do not edit *)\n"
          "From PCD Require Import Base.PyBase Base.Cfg Model.Flags Model.Args Model.Data Model.Consts Model.LineTable Model.Blocks Model.CodeData.\n"
          "From PCD Require Gen.SrcLineMap Gen.SrcHeader.\nOpen Scope Z_scope.\n\n")


def generate(repo, outpath, fallback_dir, write_fallback=False):
    import os
    from common import write_if_changed
    notes = {}
    fb = os.path.join(fallback_dir, "SrcTail.v")
    try:
        with open(os.path.join(repo, "code_data", "_code_data.py")) as f:
            tree = ast.parse(f.read())
        text = translate(tree) + translate_decode(tree)
        notes["tail"] = "translated"
        flag = "true"
        if write_fallback:
            with open(fb, "w") as f:
                f.write(text)
    except (Decline, OSError, SyntaxError, IndexError, KeyError, AttributeError, ValueError) as e:
        notes["tail"] = "declined: %s" % e
        with open(fb) as f:
            text = ("(* declined (%s): reference translation of the pinned source; tied by correspondence only *)\n"
                    % str(e).replace("*)", "* )")[:100]) + f.read()
        flag = "false"
    notes["changed"] = write_if_changed(outpath, HEADER + text + "Definition tail_translated := %s.\n" % flag)
    return notes


if __name__ == "__main__":
    import sys
    import os
    here = os.path.dirname(os.path.abspath(__file__))
    sys.path.insert(0, here)
    print(generate("/repo", os.path.join(here, "..", "coq", "Gen", "SrcTail.v"), os.path.join(here, "fallback"),
                   write_fallback="--write-fallback" in sys.argv))
