# Translator for code_data/_blocks.py:from_arg (C03): the isinstance chain that turns an operand of the data into its
# integer operand, registering names / variables / constants in the encoder tables (with the rule that keeps a leading
# string constant from being taken for a docstring), is re-translated on every run (coq/Gen/SrcFromArg.v) and proved
# equal to Model/Blocks.from_arg for all operands and table states.
import ast

from translate_src import Decline

TABLES = {"names": ("e_names", "str_eqb", 0), "varnames": ("e_varnames", "str_eqb", 1), "cellvars": ("e_cellvars", "str_eqb", 2),
          "constants": ("e_consts", "keq", 3)}
FIELDS = ["e_names", "e_varnames", "e_cellvars", "e_consts"]
# class -> (pattern, {python attribute: binder})
CLASSES = {"NoArg": ("ANoArg z", {"_arg": "z"}), "Jump": ("AJump t r", {"target": "t", "relative": "r"}),
           "Name": ("AName s ov", {"name": "s", "_index_override": "ov"}), "Varname": ("AVarname s ov", {"varname": "s", "_index_override": "ov"}),
           "Freevar": ("AFreevar s", {"freevar": "s"}), "Cellvar": ("ACellvar s ov", {"cellvar": "s", "_index_override": "ov"}),
           "Constant": ("AConst k ov", {"constant": "k", "_index_override": "ov"})}
ORDER = ["ANoArg", "AJump", "AName", "AVarname", "AFreevar", "ACellvar", "AConst"]


def same(node, text, mode="eval"):
    want = ast.parse(text, mode=mode)
    want = want.body if mode == "eval" else want.body[0]
    return ast.dump(node) == ast.dump(want)


def attr(e, fields):
    if isinstance(e, ast.Attribute) and isinstance(e.value, ast.Name) and e.value.id == "arg" and e.attr in fields:
        return fields[e.attr]
    raise Decline("attribute of the operand " + ast.dump(e)[:50])


def add_call(e, fields, cons_text=None):
    """<table>.add(arg.x, arg._index_override) -> match fa_add ... (the constants table may have been updated: cons_text)"""
    if not (isinstance(e, ast.Call) and isinstance(e.func, ast.Attribute) and e.func.attr == "add" and isinstance(e.func.value, ast.Name)
            and e.func.value.id in TABLES and len(e.args) == 2):
        raise Decline("returned expression")
    tab = e.func.value.id
    fld, eq, pos = TABLES[tab]
    src = cons_text if (cons_text and tab == "constants") else "(%s st)" % fld
    new = " ".join("t" if i == pos else "(%s st)" % FIELDS[i] for i in range(4))
    return ("match fa_add %s %s %s %s with OK (i, t) => OK (i, mkEnc %s) | Err e => Err e end"
            % (eq, src, attr(e.args[0], fields), attr(e.args[1], fields), new))


def branch(cls, body):
    pat, fields = CLASSES[cls]
    body = [s for s in body if not (isinstance(s, ast.Expr) and isinstance(s.value, ast.Constant))]
    if cls != "Constant":
        if not (len(body) == 1 and isinstance(body[0], ast.Return)):
            raise Decline("branch of " + cls)
        v = body[0].value
        if isinstance(v, ast.Constant) and isinstance(v.value, int):
            return pat, "OK (%d, st)" % v.value
        if isinstance(v, ast.Attribute):
            return pat, "OK (%s, st)" % attr(v, fields)
        if same(v, "freevars.index(arg.freevar)") and cls == "Freevar":
            return pat, "match index_of str_eqb s freevars with Some i => OK (i, st) | None => Err ValueError end"
        return pat, add_call(v, fields)
    # the Constant branch: four conditions, a conditional constants[0] = None, the add
    want = [("docstring_is_none", "isinstance(block_type, Function) and block_type.docstring is None", "docstring_is_none block_type"),
            ("first_const", "not constants", "(match fa_items (e_consts st) with [] => true | _ => false end)"),
            ("arg_is_string", "isinstance(arg.constant, str)", "is_str k"),
            ("no_override", "arg._index_override is None", "negb (opt_is_some ov)")]
    env = {}
    i = 0
    while i < len(body) and isinstance(body[i], ast.Assign) and isinstance(body[i].targets[0], ast.Name):
        name = body[i].targets[0].id
        hit = next((w for w in want if w[0] == name and same(body[i].value, w[1])), None)
        if hit is None:
            raise Decline("condition " + name)
        env[name] = hit[2]
        i += 1
    rest = body[i:]
    if not (len(rest) == 2 and isinstance(rest[0], ast.If) and not rest[0].orelse and len(rest[0].body) == 1
            and same(rest[0].body[0], "constants[0] = None", "exec") and isinstance(rest[1], ast.Return)):
        raise Decline("shape of the Constant branch")
    t = rest[0].test
    if not (isinstance(t, ast.BoolOp) and isinstance(t.op, ast.And) and all(isinstance(x, ast.Name) and x.id in env for x in t.values)):
        raise Decline("condition of the docstring rule")
    cond = " && ".join(env[x.id] for x in t.values)
    inner = add_call(rest[1].value, fields, cons_text="cs")
    return pat, ("match (if %s then fa_setitem keq (e_consts st) 0 none_c else OK (e_consts st)) with\n      | Err e => Err e\n      | OK cs => %s\n      end"
                 % (cond, inner))


def translate(tree):
    f = next((n for n in tree.body if isinstance(n, ast.FunctionDef) and n.name == "from_arg"), None)
    if f is None or f.decorator_list:
        raise Decline("from_arg")
    if [a.arg for a in f.args.args] != ["arg", "block_type", "freevars", "names", "varnames", "cellvars", "constants"]:
        raise Decline("signature of from_arg")
    body = [s for s in f.body if not (isinstance(s, ast.Expr) and isinstance(s.value, ast.Constant))]
    arms = {}
    for s in body[:-1]:
        if not (isinstance(s, ast.If) and not s.orelse and isinstance(s.test, ast.Call) and isinstance(s.test.func, ast.Name)
                and s.test.func.id == "isinstance" and len(s.test.args) == 2 and isinstance(s.test.args[0], ast.Name)
                and s.test.args[0].id == "arg" and isinstance(s.test.args[1], ast.Name) and s.test.args[1].id in CLASSES):
            raise Decline("statement of from_arg")
        cls = s.test.args[1].id
        pat, text = branch(cls, s.body)
        ctor = pat.split()[0]
        if ctor not in arms:        # the data classes are disjoint: the first branch for a class decides
            arms[ctor] = (pat, text)
    if not (isinstance(body[-1], ast.Return) and isinstance(body[-1].value, ast.Name) and body[-1].value.id == "arg"):
        raise Decline("final return of from_arg")
    lines = []
    for ctor in ORDER:
        if ctor not in arms:
            raise Decline("no branch for " + ctor)
        lines.append("    | %s => %s" % arms[ctor])
    lines.append("    | AInt z => OK (z, st)")
    return ("Section FromArg.\n  Context {C : Type} (keq : C -> C -> bool) (is_str : C -> bool) (none_c : C).\n"
            "  Definition from_arg (a : arg_ C) (block_type : option function) (freevars : list str) (st : encstate C)\n"
            "    : res (Z * encstate C) :=\n    match a with\n%s\n    end.\nEnd FromArg.\n" % "\n".join(lines))


HEADER = ("(* generated by harness/translate_fromarg.py from /repo/code_data/_blocks.py on every run; do not edit *)\n"
          "From PCD Require Import Base.PyBase Base.Cfg Model.Flags Model.Args Model.Data Model.LineTable Model.Blocks.\n\n")


def generate(repo, outpath, fallback_dir, write_fallback=False):
    import os
    from common import write_if_changed
    notes = {}
    fb = os.path.join(fallback_dir, "SrcFromArg.v")
    try:
        with open(os.path.join(repo, "code_data", "_blocks.py")) as f:
            tree = ast.parse(f.read())
        text = translate(tree)
        notes["from_arg"] = "translated"
        flag = "true"
        if write_fallback:
            with open(fb, "w") as f:
                f.write(text)
    except (Decline, OSError, SyntaxError, IndexError, KeyError, AttributeError) as e:
        notes["from_arg"] = "declined: %s" % e
        with open(fb) as f:
            text = ("(* declined (%s): reference translation of the pinned source; tied by correspondence only *)\n"
                    % str(e).replace("*)", "* )")[:100]) + f.read()
        flag = "false"
    notes["changed"] = write_if_changed(outpath, HEADER + text + "Definition from_arg_translated := %s.\n" % flag)
    return notes


if __name__ == "__main__":
    import sys
    import os
    here = os.path.dirname(os.path.abspath(__file__))
    sys.path.insert(0, here)
    print(generate("/repo", os.path.join(here, "..", "coq", "Gen", "SrcFromArg.v"), os.path.join(here, "fallback"),
                   write_fallback="--write-fallback" in sys.argv))
