# Translator for the iteration API (C14): code_data/_blocks.py:blocks_to_constants (the table of constants rebuilt from the
# instructions and the additional args), CodeData.__iter__ and CodeData.all_code_data (code_data/__init__.py).
# Re-translated on every run into coq/Gen/SrcIter.v and proved equal to Model/Blocks.blocks_to_constants,
# Model/CodeData.iter_code_data / all_code_data for ALL data (Proofs/SrcIterTie.v).
# Declared meanings: `for x in xs` as foldM over the list; isinstance(a, Constant) as the AConst test; from_arg is the translated
# from_arg of Gen/SrcFromArg.v, whose four table arguments are matched by position (a `unused` table in the three name positions
# stands for an empty table that Constant operands never touch); a generator that yields is the list of what it yields, and
# `yield from` a recursive call is recursion on explicit fuel (the nesting depth).
import ast

from translate_src import Decline


def same(node, text, mode="eval"):
    want = ast.parse(text, mode=mode)
    want = want.body if mode == "eval" else want.body[0]
    return ast.dump(node) == ast.dump(want)


def strip(body):
    return [s for s in body if not (isinstance(s, ast.Expr) and isinstance(s.value, ast.Constant))
            and not isinstance(s, (ast.Import, ast.ImportFrom))]


def from_arg_call(st, argexpr):
    """the statement `from_arg(<argexpr>, block_type, (), unused, unused, unused, constants)`"""
    if not (isinstance(st, ast.Expr) and isinstance(st.value, ast.Call) and isinstance(st.value.func, ast.Name) and st.value.func.id == "from_arg"
            and not st.value.keywords and len(st.value.args) == 7):
        raise Decline("call of from_arg")
    a = st.value.args
    if ast.dump(a[0]) != ast.dump(argexpr):
        raise Decline("operand passed to from_arg")
    if not (isinstance(a[1], ast.Name) and a[1].id == "block_type" and isinstance(a[2], ast.Tuple) and not a[2].elts
            and all(isinstance(x, ast.Name) and x.id == "unused" for x in a[3:6]) and isinstance(a[6], ast.Name) and a[6].id == "constants"):
        raise Decline("tables passed to from_arg")


def guarded_from_arg(body, argexpr):
    body = strip(body)
    if not (len(body) == 1 and isinstance(body[0], ast.If) and not body[0].orelse and len(strip(body[0].body)) == 1):
        raise Decline("guard of from_arg")
    t = body[0].test
    if not (isinstance(t, ast.Call) and isinstance(t.func, ast.Name) and t.func.id == "isinstance" and len(t.args) == 2
            and ast.dump(t.args[0]) == ast.dump(argexpr) and isinstance(t.args[1], ast.Name) and t.args[1].id == "Constant"):
        raise Decline("test before from_arg")
    from_arg_call(strip(body[0].body)[0], argexpr)


def doc_slot(s):
    """`if isinstance(block_type, Function) and <docstring test>: constants[0] = block_type.docstring` -> Gallina res (fromargs C), or None"""
    if not (isinstance(s, ast.If) and not s.orelse and isinstance(s.test, ast.BoolOp) and isinstance(s.test.op, ast.And) and len(s.test.values) == 2
            and same(s.test.values[0], "isinstance(block_type, Function)") and len(strip(s.body)) == 1
            and same(strip(s.body)[0], "constants[0] = block_type.docstring", "exec")):
        return None
    t = s.test.values[1]
    if same(t, "block_type.docstring is not None"):
        pat = "Some d"
    elif same(t, "block_type.docstring"):
        pat = "Some ((_ :: _) as d)"          # truthiness: neither None nor the empty string
    else:
        return None
    return ("(match block_type with Some f => match fn_doc f with %s => fa_setitem keq fromargs_empty 0 (str_c d) | _ => OK fromargs_empty end "
            "| None => OK fromargs_empty end)" % pat)


def translate_enc_init(tree):
    """the prologue of blocks_to_bytes: the four empty tables, varnames seeded with the parameter names, the docstring slot"""
    f = next((n for n in tree.body if isinstance(n, ast.FunctionDef) and n.name == "blocks_to_bytes"), None)
    if f is None or f.decorator_list or [a.arg for a in f.args.args] != ["blocks", "additional_args", "freevars", "block_type"]:
        raise Decline("blocks_to_bytes")
    body = strip(f.body)
    tables = {}
    seed = None
    doc = None
    for s in body:
        if isinstance(s, ast.For) and isinstance(s.iter, ast.Call) and same(s.iter.func, "enumerate") and same(s.iter.args[0], "blocks"):
            break                                       # the first loop over the instructions: end of the prologue
        if isinstance(s, ast.Assign) and len(s.targets) == 1 and isinstance(s.targets[0], ast.Name) and s.targets[0].id in ("names", "varnames", "cellvars", "constants"):
            want = "FromArgs[ConstantValue](_hash_fn=constant_key)" if s.targets[0].id == "constants" else "FromArgs[str]()"
            if not same(s.value, want) or seed or doc:
                raise Decline("table " + s.targets[0].id)
            tables[s.targets[0].id] = True
        elif isinstance(s, ast.If) and same(s.test, "isinstance(block_type, Function)") and not s.orelse and len(strip(s.body)) == 1:
            lp = strip(s.body)[0]
            if not (isinstance(lp, ast.For) and not lp.orelse and same(lp.iter, "enumerate(args_to_varnames(block_type.args))")
                    and isinstance(lp.target, ast.Tuple) and len(lp.target.elts) == 2 and all(isinstance(x, ast.Name) for x in lp.target.elts)
                    and len(strip(lp.body)) == 1
                    and same(strip(lp.body)[0], "varnames[%s] = %s" % (lp.target.elts[0].id, lp.target.elts[1].id), "exec")):
                raise Decline("seeding of varnames")
            seed = True
        elif doc_slot(s):
            doc = doc_slot(s)
        elif isinstance(s, (ast.Assign, ast.AnnAssign)) and isinstance(s.targets[0] if isinstance(s, ast.Assign) else s.target, ast.Name) \
                and (s.targets[0] if isinstance(s, ast.Assign) else s.target).id in ("changed_instruction_lengths", "block_index_to_instruction_offset", "args"):
            continue                                    # locals of the later loops
        else:
            raise Decline("statement of the prologue of blocks_to_bytes: " + ast.dump(s)[:60])
    if set(tables) != {"names", "varnames", "cellvars", "constants"}:
        raise Decline("tables of blocks_to_bytes")
    seed_t = ("(match block_type with Some f => foldM (fun t ik => fa_setitem str_eqb t (fst ik) (snd ik)) "
              "(combine (map Z.of_nat (seq 0 (length (args_to_varnames (fn_args f))))) (args_to_varnames (fn_args f))) fromargs_empty | None => OK fromargs_empty end)"
              if seed else "OK fromargs_empty")
    doc_t = doc or "OK fromargs_empty"
    return ("  Definition enc_init (block_type : option function) : res (encstate C) :=\n"
            "    do varnames <- %s;\n    do constants <- %s;\n    OK (mkEnc fromargs_empty varnames fromargs_empty constants).\n" % (seed_t, doc_t))


def translate_dec_init(tree):
    """the prologue of bytes_to_blocks: the four ToArgs tables (varnames with the parameters preset as found) and the docstring
    marked as found at index 0"""
    f = next((n for n in tree.body if isinstance(n, ast.FunctionDef) and n.name == "bytes_to_blocks"), None)
    if f is None or f.decorator_list or [a.arg for a in f.args.args] != ["b", "line_mapping", "names", "varnames", "freevars", "cellvars", "constants",
                                                                         "block_type", "args"]:
        raise Decline("bytes_to_blocks")
    body = strip(f.body)
    preset = {}
    doc = None
    for s in body:
        if isinstance(s, ast.For):
            if not same(s.iter, "_parse_bytes(b)"):
                raise Decline("first loop of bytes_to_blocks")
            break
        if isinstance(s, ast.AnnAssign) and isinstance(s.target, ast.Name) and s.target.id == "offsets_and_instruction" and isinstance(s.value, ast.List) and not s.value.elts:
            continue
        if same(s, "targets_set = {0}", "exec"):
            continue
        if isinstance(s, ast.Assign) and len(s.targets) == 1 and isinstance(s.targets[0], ast.Name) and s.targets[0].id.startswith("found_") \
                and isinstance(s.value, ast.Call) and isinstance(s.value.func, ast.Name) and s.value.func.id == "ToArgs":
            tbl = s.targets[0].id[len("found_"):]
            c = s.value
            if tbl not in ("names", "varnames", "cellvars", "constants") or tbl in preset or doc or not c.args \
                    or not (isinstance(c.args[0], ast.Name) and c.args[0].id == tbl):
                raise Decline("table " + tbl)
            kws = {k.arg: k.value for k in c.keywords}
            if tbl == "constants":
                if not (set(kws) == {"_hash_fn"} and same(kws["_hash_fn"], "constant_key")):
                    raise Decline("key function of the constants")
            elif kws:
                raise Decline("keywords of ToArgs")
            if len(c.args) == 1:
                preset[tbl] = "0"
            elif len(c.args) == 2 and same(c.args[1], "{i: i for i in range(len(args.parameters))}"):
                preset[tbl] = "(args_len a)"
            else:
                raise Decline("preset of " + tbl)
        elif isinstance(s, ast.If) and not s.orelse and isinstance(s.test, ast.BoolOp) and isinstance(s.test.op, ast.And) and len(s.test.values) == 2 \
                and same(s.test.values[0], "isinstance(block_type, Function)") and len(strip(s.body)) == 1 \
                and same(strip(s.body)[0], "found_constants.found_index(0)", "exec") and len(preset) == 4:
            t = s.test.values[1]
            if same(t, "block_type.docstring is not None"):
                doc = "Some _ => true | None => false"
            elif same(t, "block_type.docstring"):
                doc = "Some (_ :: _) => true | _ => false"
            else:
                raise Decline("docstring test of bytes_to_blocks")
        else:
            raise Decline("statement of the prologue of bytes_to_blocks: " + ast.dump(s)[:60])
    if len(preset) != 4:
        raise Decline("tables of bytes_to_blocks")
    cond = "(match block_type with Some f => match fn_doc f with %s end | None => false end)" % doc if doc else "false"
    return ("  Definition dec_init (names varnames cellvars : list str) (constants : list C) (block_type : option function) (a : args) : res (decstate C) :=\n"
            "    let st0 := mkDec (toargs_init names %s) (toargs_init varnames %s) (toargs_init cellvars %s) (toargs_init constants %s) in\n"
            "    if %s then match PCD.Gen.SrcTables.found_index keq (d_consts st0) 0 with\n"
            "      | OK (_, _, t) => OK (mkDec (d_names st0) (d_varnames st0) (d_cellvars st0) t) | Err e => Err e end\n    else OK st0.\n"
            % (preset["names"], preset["varnames"], preset["cellvars"], preset["constants"], cond))


def translate_dec_epilogue(tree):
    """the end of bytes_to_blocks: the unreferenced entries of the four tables, each under its constructor, in the order written"""
    f = next((n for n in tree.body if isinstance(n, ast.FunctionDef) and n.name == "bytes_to_blocks"), None)
    if f is None:
        raise Decline("bytes_to_blocks")
    body = strip(f.body)
    ret = body[-1]
    if not (isinstance(ret, ast.Return) and isinstance(ret.value, ast.Tuple) and len(ret.value.elts) == 2 and isinstance(ret.value.elts[1], ast.Name)
            and same(ret.value.elts[0], "tuple(tuple(instruction for instruction in block) for block in blocks)")):
        raise Decline("return of bytes_to_blocks")
    var = ret.value.elts[1].id
    st = body[-2]
    if not (isinstance(st, ast.Assign) and len(st.targets) == 1 and isinstance(st.targets[0], ast.Name) and st.targets[0].id == var):
        raise Decline("additional args of bytes_to_blocks")
    parts = []
    def flat(e):
        if isinstance(e, ast.BinOp) and isinstance(e.op, ast.Add):
            flat(e.left)
            flat(e.right)
        else:
            parts.append(e)
    flat(st.value)
    CT = {"Name": ("AName", "names", "str_eqb"), "Varname": ("AVarname", "varnames", "str_eqb"), "Cellvar": ("ACellvar", "cellvars", "str_eqb"),
          "Constant": ("AConst", "consts", "keq")}
    binds, lists = [], []
    for k, e in enumerate(parts):
        if not (isinstance(e, ast.Call) and isinstance(e.func, ast.Name) and e.func.id == "tuple" and len(e.args) == 1
                and isinstance(e.args[0], ast.GeneratorExp) and len(e.args[0].generators) == 1 and not e.args[0].generators[0].ifs):
            raise Decline("part of the additional args")
        g = e.args[0]
        v = g.generators[0].target
        it = g.generators[0].iter
        if not (isinstance(v, ast.Name) and isinstance(g.elt, ast.Call) and isinstance(g.elt.func, ast.Name) and g.elt.func.id in CT
                and len(g.elt.args) == 1 and isinstance(g.elt.args[0], ast.Starred) and isinstance(g.elt.args[0].value, ast.Name)
                and g.elt.args[0].value.id == v.id and not g.elt.keywords
                and isinstance(it, ast.Call) and isinstance(it.func, ast.Attribute) and it.func.attr == "additional_args" and not it.args
                and isinstance(it.func.value, ast.Name) and it.func.value.id.startswith("found_")):
            raise Decline("generator of the additional args")
        ctor, tbl, eq = CT[g.elt.func.id]
        src_tbl = it.func.value.id[len("found_"):]
        src_tbl = {"constants": "consts"}.get(src_tbl, src_tbl)
        if src_tbl != tbl:
            raise Decline("constructor %s over the table %s" % (g.elt.func.id, src_tbl))
        binds.append("do a%d <- PCD.Gen.SrcTables.additional_args %s (d_%s st2);" % (k, eq, tbl))
        lists.append("map (fun p => %s (fst p) (snd p)) a%d" % (ctor, k))
    return ("  Definition additional_of (st2 : decstate C) : res (list (arg_ C)) :=\n    %s\n    OK (%s).\n"
            % (" ".join(binds), " ++ ".join(lists) if lists else "[]"))


def translate_first_pass(tree):
    """blocks_to_bytes between its prologue and the relaxation loop: every operand sent through from_arg in order (the values kept
    in the `args` dict, read here as the list of values in iteration order), the additional args sent through from_arg for their
    effect on the tables, and the free-variable operands shifted by the number of cell variables"""
    f = next((n for n in tree.body if isinstance(n, ast.FunctionDef) and n.name == "blocks_to_bytes"), None)
    if f is None:
        raise Decline("blocks_to_bytes")
    body = strip(f.body)
    loops = []
    for s in body:
        if isinstance(s, ast.While):
            break
        if isinstance(s, ast.For):
            loops.append(s)
    if len(loops) != 3:
        raise Decline("loops before the relaxation: %d" % len(loops))
    l1, l2, l3 = loops
    FROM_ARG = "from_arg(%s, block_type, freevars, names, varnames, cellvars, constants)"
    def nested(lp):
        if not (same(lp.iter, "enumerate(blocks)") and isinstance(lp.target, ast.Tuple) and len(lp.target.elts) == 2 and not lp.orelse
                and all(isinstance(x, ast.Name) for x in lp.target.elts)):
            raise Decline("loop over the blocks")
        bi, bv = lp.target.elts[0].id, lp.target.elts[1].id
        inner = strip(lp.body)
        if not (len(inner) == 1 and isinstance(inner[0], ast.For) and not inner[0].orelse and same(inner[0].iter, "enumerate(%s)" % bv)
                and isinstance(inner[0].target, ast.Tuple) and len(inner[0].target.elts) == 2 and all(isinstance(x, ast.Name) for x in inner[0].target.elts)):
            raise Decline("loop over the instructions")
        return bi, inner[0].target.elts[0].id, inner[0].target.elts[1].id, strip(inner[0].body)
    bi, ii, iv, b1 = nested(l1)
    if not (len(b1) == 1 and same(b1[0], ("args[%s, %s] = " % (bi, ii)) + FROM_ARG % (iv + ".arg"), "exec")):
        raise Decline("first loop of blocks_to_bytes")
    if not (isinstance(l2.target, ast.Name) and same(l2.iter, "additional_args") and not l2.orelse and len(strip(l2.body)) == 1
            and same(strip(l2.body)[0], FROM_ARG % l2.target.id, "exec")):
        raise Decline("loop over the additional args")
    bi, ii, iv, b3 = nested(l3)
    if len(b3) == 2 and same(b3[0], "arg = %s.arg" % iv, "exec"):
        tested = "arg"
        b3 = b3[1:]
    else:
        tested = iv + ".arg"
    if not (len(b3) == 1 and isinstance(b3[0], ast.If) and not b3[0].orelse and same(b3[0].test, "isinstance(%s, Freevar)" % tested)
            and len(strip(b3[0].body)) == 1):
        raise Decline("free-variable loop")
    upd = strip(b3[0].body)[0]
    if same(upd, "args[%s, %s] += len(cellvars)" % (bi, ii), "exec"):
        shift = "snd iv + zlen (fa_items (e_cellvars st2))"
    else:
        raise Decline("shift of the free variables")
    return ("  Definition first_pass (blocks : list (list (instr_ C))) (additional_args : list (arg_ C)) (freevars : list str) (block_type : option function)\n"
            "      (st0 : encstate C) : res (list Z * encstate C) :=\n"
            "    do r <- foldM (fun acc block => foldM (fun (acc : list Z * encstate C) instruction =>\n"
            "              do v <- PCD.Gen.SrcFromArg.from_arg keq is_str none_c (i_arg instruction) block_type freevars (snd acc); OK (fst acc ++ [fst v], snd v)) block acc)\n"
            "            blocks ([], st0);\n"
            "    do st2 <- foldM (fun st arg => do v <- PCD.Gen.SrcFromArg.from_arg keq is_str none_c arg block_type freevars st; OK (snd v)) additional_args (snd r);\n"
            "    OK (map (fun iv : instr_ C * Z => match i_arg (fst iv) with AFreevar _ => %s | _ => snd iv end) (combine (concat blocks) (fst r)), st2).\n" % shift)


def translate_b2c(tree):
    f = next((n for n in tree.body if isinstance(n, ast.FunctionDef) and n.name == "blocks_to_constants"), None)
    if f is None or f.decorator_list or [a.arg for a in f.args.args] != ["blocks", "additional_args", "block_type"]:
        raise Decline("blocks_to_constants")
    body = strip(f.body)
    steps = []
    seen_init = seen_unused = False
    doc = "OK fromargs_empty"
    for s in body[:-1]:
        if same(s, "constants = FromArgs[ConstantValue](_hash_fn=constant_key)", "exec"):
            seen_init = True
        elif same(s, "unused = FromArgs[str]()", "exec"):
            seen_unused = True
        elif doc_slot(s) and seen_init and not steps:
            doc = doc_slot(s)
        elif isinstance(s, ast.For) and not s.orelse and isinstance(s.target, ast.Name) and isinstance(s.iter, ast.Name) and s.iter.id == "blocks":
            inner = strip(s.body)
            if not (len(inner) == 1 and isinstance(inner[0], ast.For) and not inner[0].orelse and isinstance(inner[0].target, ast.Name)
                    and isinstance(inner[0].iter, ast.Name) and inner[0].iter.id == s.target.id):
                raise Decline("loop over the blocks")
            iv = inner[0].target.id
            guarded_from_arg(inner[0].body, ast.parse("%s.arg" % iv, mode="eval").body)
            steps.append("foldM (fun st block => foldM (fun st instruction => step (i_arg instruction) st) block st) blocks")
        elif isinstance(s, ast.For) and not s.orelse and isinstance(s.target, ast.Name) and isinstance(s.iter, ast.Name) and s.iter.id == "additional_args":
            guarded_from_arg(s.body, ast.Name(id=s.target.id, ctx=ast.Load()))
            steps.append("foldM (fun st arg => step arg st) additional_args")
        else:
            raise Decline("statement of blocks_to_constants: " + type(s).__name__)
    if not (seen_init and seen_unused and isinstance(body[-1], ast.Return) and same(body[-1].value, "constants.to_tuple()")):
        raise Decline("shape of blocks_to_constants")
    text = "fa_to_tuple (e_consts st)"
    for k, stp in reversed(list(enumerate(steps))):
        text = "do st <- %s st; %s" % (stp, text)
    return ("  Definition blocks_to_constants (blocks : list (list (instr_ C))) (additional_args : list (arg_ C)) (block_type : option function) : res (list C) :=\n"
            "    let step := fun (a : arg_ C) (st : encstate C) => match a with AConst _ _ => do r <- PCD.Gen.SrcFromArg.from_arg keq is_str none_c a block_type [] st; OK (snd r) | _ => OK st end in\n"
            "    do constants <- %s;\n    let st := mkEnc (@fromargs_empty str) (@fromargs_empty str) (@fromargs_empty str) constants in\n    %s.\n" % (doc, text)
            )


def translate_iter(tree):
    cls = next((n for n in tree.body if isinstance(n, ast.ClassDef) and n.name == "CodeData"), None)
    if cls is None:
        raise Decline("class CodeData")
    it = next((n for n in cls.body if isinstance(n, ast.FunctionDef) and n.name == "__iter__"), None)
    al = next((n for n in cls.body if isinstance(n, ast.FunctionDef) and n.name == "all_code_data"), None)
    if it is None or al is None or it.decorator_list or al.decorator_list:
        raise Decline("__iter__ / all_code_data")
    b = strip(it.body)
    if not (len(b) == 1 and isinstance(b[0], ast.For) and not b[0].orelse and isinstance(b[0].target, ast.Name)
            and same(b[0].iter, "blocks_to_constants(self.blocks, self._additional_args, self.type)")):
        raise Decline("loop of __iter__")
    v = b[0].target.id
    inner = strip(b[0].body)
    if len(inner) == 1 and isinstance(inner[0], ast.If) and not inner[0].orelse and same(inner[0].test, "isinstance(%s, CodeData)" % v) \
            and len(strip(inner[0].body)) == 1 and same(strip(inner[0].body)[0], "yield %s" % v, "exec"):
        sel = "flat_map (fun k => match k with KCode x => [x] | KInner _ => [] end) ks"
    else:
        raise Decline("body of the loop of __iter__")
    a = strip(al.body)
    if not (len(a) == 2 and same(a[0], "yield self", "exec") and isinstance(a[1], ast.For) and not a[1].orelse and isinstance(a[1].target, ast.Name)
            and same(a[1].iter, "self") and len(strip(a[1].body)) == 1
            and same(strip(a[1].body)[0], "yield from %s.all_code_data()" % a[1].target.id, "exec")):
        raise Decline("all_code_data")
    return ("Definition iter_code_data (d : code_data) : res (list code_data) :=\n"
            "  do ks <- blocks_to_constants key_eqb is_str_const (KInner INone) (fun s => KInner (IStr s)) (cd_blocks d) (cd_addargs d) (cd_type d);\n"
            "  OK (%s).\n"
            "Fixpoint all_code_data (fuel : nat) (d : code_data) : res (list code_data) :=\n"
            "  match fuel with O => Err OutOfFuel | S f =>\n"
            "    do subs <- iter_code_data d;\n"
            "    do ls <- mapM (all_code_data f) subs;\n"
            "    OK ([d] ++ concat ls) end.\n" % sel)


HEADER = ("(* generated by harness/translate_iter.py from /repo/code_data/_blocks.py and __init__.py on every run; do not edit *)\n"
          "From PCD Require Import Base.PyBase Base.PyImp Base.Cfg Model.Flags Model.Args Model.Data Model.Consts Model.LineTable Model.Blocks Model.CodeData.\n"
          "From PCD Require Gen.SrcFromArg Gen.SrcTables.\nOpen Scope Z_scope.\n\n")


SECTION_OPEN = "Section B2C.\n  Context {C : Type} (keq : C -> C -> bool) (is_str : C -> bool) (none_c : C) (str_c : str -> C).\n"
# (name, translator, which tree, inside the section)
ITEMS = [("blocks_to_constants", translate_b2c, 0, True), ("enc_init", translate_enc_init, 0, True), ("dec_init", translate_dec_init, 0, True),
         ("additional_of", translate_dec_epilogue, 0, True), ("first_pass", translate_first_pass, 0, True), ("iteration", translate_iter, 1, False)]


def generate(repo, outpath, fallback_dir, write_fallback=False):
    """each item declines on its own: the others stay tied to the source by proof"""
    import os
    from common import write_if_changed
    notes = {}
    trees = [None, None]
    for k, name in enumerate(("_blocks.py", "__init__.py")):
        try:
            with open(os.path.join(repo, "code_data", name)) as f:
                trees[k] = ast.parse(f.read())
        except (OSError, SyntaxError) as e:
            notes["parse " + name] = "declined: %s" % e
    out = [HEADER, SECTION_OPEN]
    closed = False
    all_ok = True
    for name, fn, which, inside in ITEMS:
        if not inside and not closed:
            out.append("End B2C.\n")
            closed = True
        fb = os.path.join(fallback_dir, "SrcIter_%s.v" % name)
        try:
            if trees[which] is None:
                raise Decline("source unreadable")
            text = fn(trees[which])
            notes[name] = "translated"
            if write_fallback:
                with open(fb, "w") as f:
                    f.write(text)
        except (Decline, IndexError, KeyError, AttributeError, ValueError) as e:
            notes[name] = "declined: %s" % e
            all_ok = False
            with open(fb) as f:
                text = ("(* declined (%s): reference translation of the pinned source; tied by correspondence only *)\n"
                        % str(e).replace("*)", "* )")[:100]) + f.read()
        out.append(text)
    notes["changed"] = write_if_changed(outpath, "".join(out) + "Definition iter_translated := %s.\n" % ("true" if all_ok else "false"))
    return notes


if __name__ == "__main__":
    import sys
    import os
    here = os.path.dirname(os.path.abspath(__file__))
    sys.path.insert(0, here)
    print(generate("/repo", os.path.join(here, "..", "coq", "Gen", "SrcIter.v"), os.path.join(here, "fallback"),
                   write_fallback="--write-fallback" in sys.argv))
