# Translator for code_data/_constants.py (C08): inner_constant_key's isinstance chain becomes a Gallina function from
# inner constants to Python key values (coq/Model/PyVal.v), regenerated on every run as coq/Gen/SrcKey.v; the theorem
# SrcKeyTie.key_eq_tie says that Python's == on those keys is the model's ikey_eqb, for all pairs of constants.
# Fail-closed: any shape outside the one read here makes the translator decline (stored reference translation, tie by
# correspondence / oracle only).
import ast

from translate_src import Decline

# constructor of Model/Data.iconst -> (python type name, pattern, embedding of the raw value as a key value or None)
CTORS = [("INone", "NoneType", "INone", "PNone"), ("IBool", "bool", "IBool b", "(PBool b)"), ("IInt", "int", "IInt z", "(PInt z)"),
         ("IFloat", "float", "IFloat bits", "(PFloat bits)"), ("IComplex", "complex", "IComplex re im", None),
         ("IStr", "str", "IStr s", "(PStr s)"), ("IBytes", "bytes", "IBytes b", "(PBytes b)"), ("IEllipsis", "ellipsis", "IEllipsis", "PEllipsis"),
         ("ITuple", "tuple", "ITuple l", None), ("IFrozenset", "frozenset", "IFrozenset l", None)]
SUBCLASS = {"bool": {"bool", "int"}}
TYPE_TAG = {"bool": "T_BOOL", "int": "T_INT", "float": "T_FLOAT", "complex": "T_COMPLEX"}


def type_names(e):
    """the set of python types an isinstance() second argument names"""
    if isinstance(e, ast.Tuple):
        out = set()
        for x in e.elts:
            out |= type_names(x)
        return out
    if isinstance(e, ast.Name) and e.id in ("str", "bytes", "bool", "int", "float", "complex", "tuple", "frozenset"):
        return {e.id}
    if isinstance(e, ast.Call) and isinstance(e.func, ast.Name) and e.func.id == "type" and len(e.args) == 1:
        a = e.args[0]
        if isinstance(a, ast.Constant) and a.value is None:
            return {"NoneType"}
        if isinstance(a, ast.Constant) and a.value is Ellipsis:
            return {"ellipsis"}
    raise Decline("type expression " + ast.dump(e)[:60])


def same(node, text):
    return ast.dump(node) == ast.dump(ast.parse(text).body[0])


def check_helpers(tree):
    fns = {n.name: n for n in tree.body if isinstance(n, ast.FunctionDef)}
    for n in fns.values():
        if n.decorator_list:
            raise Decline("decorated function " + n.name)   # a decorator (a cache, say) changes what the function is
    def body(n):
        return [s for s in fns[n].body if not (isinstance(s, ast.Expr) and isinstance(s.value, ast.Constant))]
    try:
        b = body("is_neg_zero")
        if not (len(b) == 1 and same(b[0], 'return str(value) == "-0.0"')):
            raise Decline("is_neg_zero")
        b = body("replace_nan")
        if not (len(b) == 2 and same(b[0], 'if isnan(value):\n    return "nan"') and same(b[1], "return value")):
            raise Decline("replace_nan")
        b = body("constant_key")
        if not (len(b) == 2 and same(b[0], "if isinstance(value, CodeData):\n    return value") and same(b[1], "return inner_constant_key(value)")):
            raise Decline("constant_key")
    except KeyError as e:
        raise Decline("missing helper %s" % e)
    for n in tree.body:
        if isinstance(n, ast.ImportFrom) and n.module == "math":
            if not any(a.name == "isnan" and a.asname is None for a in n.names):
                raise Decline("isnan import")
    return fns


def float_part(e, ctor):
    """a float-valued sub-expression of `value`: the bits variable it denotes"""
    if isinstance(e, ast.Name) and e.id == "value" and ctor == "IFloat":
        return "bits"
    if isinstance(e, ast.Attribute) and isinstance(e.value, ast.Name) and e.value.id == "value" and ctor == "IComplex":
        if e.attr == "real":
            return "re"
        if e.attr == "imag":
            return "im"
    raise Decline("float part " + ast.dump(e)[:60])


def key_expr(e, ctor, pyty, raw):
    if isinstance(e, ast.Name) and e.id == "value":
        if raw is None:
            raise Decline("raw %s used as a key" % pyty)
        return raw
    if isinstance(e, ast.Call) and isinstance(e.func, ast.Name):
        f = e.func.id
        if f == "type" and len(e.args) == 1 and isinstance(e.args[0], ast.Name) and e.args[0].id == "value":
            if pyty not in TYPE_TAG:
                raise Decline("type(value) of " + pyty)
            return "(PType %s)" % TYPE_TAG[pyty]
        if f in ("replace_nan", "is_neg_zero") and len(e.args) == 1:
            return "(%s %s)" % (f, float_part(e.args[0], ctor))
        if f in ("tuple", "frozenset") and len(e.args) == 1:
            m = e.args[0]
            if (isinstance(m, ast.Call) and isinstance(m.func, ast.Name) and m.func.id == "map" and len(m.args) == 2
                    and isinstance(m.args[0], ast.Name) and m.args[0].id == "constant_key"
                    and isinstance(m.args[1], ast.Name) and m.args[1].id == "value"):
                if pyty != f:
                    raise Decline("%s(...) of a %s" % (f, pyty))
                return "(%s (map key l))" % ("PTuple" if f == "tuple" else "PFrozenset")
        raise Decline("call of " + f)
    if isinstance(e, ast.Tuple):
        if any(isinstance(x, ast.Starred) for x in e.elts):
            raise Decline("starred key part")
        return "(PTuple [%s])" % "; ".join(key_expr(x, ctor, pyty, raw) for x in e.elts)
    if isinstance(e, ast.Constant) and isinstance(e.value, str):
        return "(PStr [%s])" % "; ".join(str(ord(c)) for c in e.value)
    if isinstance(e, ast.Constant) and isinstance(e.value, bool):
        return "(PBool %s)" % ("true" if e.value else "false")
    if isinstance(e, ast.Constant) and isinstance(e.value, int):
        return "(PInt (%d))" % e.value
    raise Decline("key expression " + type(e).__name__)


def translate(tree):
    fns = check_helpers(tree)
    f = fns.get("inner_constant_key")
    if f is None or [a.arg for a in f.args.args] != ["value"]:
        raise Decline("inner_constant_key")
    body = [s for s in f.body if not (isinstance(s, ast.Expr) and isinstance(s.value, ast.Constant))]
    branches = []
    for s in body:
        if isinstance(s, ast.If) and not s.orelse:
            t = s.test
            if not (isinstance(t, ast.Call) and isinstance(t.func, ast.Name) and t.func.id == "isinstance" and len(t.args) == 2
                    and isinstance(t.args[0], ast.Name) and t.args[0].id == "value"):
                raise Decline("test of a branch")
            if not (len(s.body) == 1 and isinstance(s.body[0], ast.Return) and s.body[0].value is not None):
                raise Decline("body of a branch")
            branches.append((type_names(t.args[1]), s.body[0].value))
        elif isinstance(s, ast.Raise) and s is body[-1]:
            pass
        else:
            raise Decline("statement " + type(s).__name__)
    arms = []
    for ctor, pyty, pat, raw in CTORS:
        mine = SUBCLASS.get(pyty, {pyty})
        hit = next((e for tys, e in branches if tys & mine), None)
        if hit is None:
            raise Decline("no branch for " + pyty)
        arms.append("  | %s => %s" % (pat, key_expr(hit, ctor, pyty, raw)))
    return ("Fixpoint key (value : iconst) : pv :=\n  match value with\n" + "\n".join(arms) + "\n  end.\n")


HEADER = ("(* generated by harness/translate_key.py from /repo/code_data/_constants.py on every run; do not edit *)\n"
          "From PCD Require Import Base.PyBase Base.Cfg Model.Flags Model.Args Model.Data Model.Consts Model.PyVal.\n\n")


def generate(repo, outpath, fallback_dir, write_fallback=False):
    import os
    from common import write_if_changed
    notes = {}
    fb = os.path.join(fallback_dir, "SrcKey.v")
    try:
        with open(os.path.join(repo, "code_data", "_constants.py")) as f:
            tree = ast.parse(f.read())
        text = translate(tree)
        notes["key"] = "translated"
        flag = "true"
        if write_fallback:
            with open(fb, "w") as f:
                f.write(text)
    except (Decline, OSError, SyntaxError, IndexError, KeyError, AttributeError) as e:
        notes["key"] = "declined: %s" % e
        with open(fb) as f:
            text = ("(* declined (%s): reference translation of the pinned source; tied by correspondence only *)\n"
                    % str(e).replace("*)", "* )")[:100]) + f.read()
        flag = "false"
    notes["changed"] = write_if_changed(outpath, HEADER + text + "Definition key_translated := %s.\n" % flag)
    return notes


if __name__ == "__main__":
    import sys
    import os
    here = os.path.dirname(os.path.abspath(__file__))
    sys.path.insert(0, here)
    print(generate("/repo", os.path.join(here, "..", "coq", "Gen", "SrcKey.v"), os.path.join(here, "fallback"),
                   write_fallback="--write-fallback" in sys.argv))
