# Translator for code_data/_normalize.py (C05 / C06): the isinstance chain of normalize() is re-translated on every run
# into one Gallina function per data class (coq/Gen/SrcNorm.v): which fields `replace` resets, to what, which are
# normalized recursively, which classes fall through unchanged.  SrcNormTie proves them equal to the model's
# map_arg_norm / map_instr_norm / map_cd_norm for every recursive normalizer of constants.
# Fail-closed: any shape outside `if isinstance(x, T): return cast(T, replace(x, f=..., ...))` / tuple(map(normalize, x)) /
# NoArg() / final `return x` makes the translator decline.
import ast

from translate_src import Decline

# python class -> (constructor of Model/Data, [(python field, gallina binder)])
ARG_CLASSES = {
    "Constant": ("AConst", [("constant", "k"), ("_index_override", "ov")]),
    "Name": ("AName", [("name", "s"), ("_index_override", "ov")]),
    "Varname": ("AVarname", [("varname", "s"), ("_index_override", "ov")]),
    "Cellvar": ("ACellvar", [("cellvar", "s"), ("_index_override", "ov")]),
    "Freevar": ("AFreevar", [("freevar", "s")]),
    "Jump": ("AJump", [("target", "t"), ("relative", "r")]),
    "NoArg": ("ANoArg", [("_arg", "z")]),
}
INSTR_FIELDS = [("name", "(i_name i)"), ("arg", "(i_arg i)"), ("_n_args_override", "(i_nargs i)"), ("line_number", "(i_line i)"),
                ("_line_offsets_override", "(i_lineoffs i)")]
CD_FIELDS = [("blocks", "(cd_blocks d)"), ("filename", "(cd_filename d)"), ("first_line_number", "(cd_firstline d)"), ("name", "(cd_name d)"),
             ("stacksize", "(cd_stacksize d)"), ("type", "(cd_type d)"), ("freevars", "(cd_freevars d)"),
             ("future_annotations", "(cd_future_annotations d)"), ("_nested", "(cd_nested d)"), ("_additional_line", "(cd_addline d)"),
             ("_additional_args", "(cd_addargs d)")]
DEFAULTS = {"_arg": "0"}
INNER_TYPES = {"str", "bytes", "int", "float", "complex", "bool", "frozenset", "type"}


def class_names(e):
    if isinstance(e, ast.Name):
        return [e.id]
    if isinstance(e, ast.Tuple) and all(isinstance(x, ast.Name) for x in e.elts):
        return [x.id for x in e.elts]
    raise Decline("class expression")


def uncast(e):
    if isinstance(e, ast.Call) and isinstance(e.func, ast.Name) and e.func.id == "cast" and len(e.args) == 2:
        return e.args[1]
    return e


def is_normalize_of(e, attr):
    return (isinstance(e, ast.Call) and isinstance(e.func, ast.Name) and e.func.id == "normalize" and len(e.args) == 1
            and isinstance(e.args[0], ast.Attribute) and isinstance(e.args[0].value, ast.Name) and e.args[0].value.id == "x"
            and e.args[0].attr == attr)


def reset_value(field, e):
    """the constant a field is reset to"""
    if isinstance(e, ast.Constant) and e.value is None:
        return "None"
    if isinstance(e, ast.Constant) and e.value is False:
        return "false"
    if isinstance(e, ast.Constant) and e.value is True:
        return "true"
    if isinstance(e, ast.Tuple) and not e.elts:
        return "[]"
    if isinstance(e, ast.Call) and isinstance(e.func, ast.Name) and e.func.id == "tuple" and not e.args:
        return "[]"
    raise Decline("value of field " + field)


def translate(tree):
    f = next((n for n in tree.body if isinstance(n, ast.FunctionDef) and n.name == "normalize"), None)
    if f is None or [a.arg for a in f.args.args] != ["x"] or f.decorator_list:
        raise Decline("normalize")
    body = [s for s in f.body if not (isinstance(s, ast.Expr) and isinstance(s.value, ast.Constant))]
    branches = {}
    order = []
    tuple_maps = False
    for s in body[:-1]:
        if not (isinstance(s, ast.If) and not s.orelse and len(s.body) == 1 and isinstance(s.body[0], ast.Return)):
            raise Decline("statement shape")
        t = s.test
        if not (isinstance(t, ast.Call) and isinstance(t.func, ast.Name) and t.func.id == "isinstance" and len(t.args) == 2
                and isinstance(t.args[0], ast.Name) and t.args[0].id == "x"):
            raise Decline("test")
        names = class_names(t.args[1])
        val = uncast(s.body[0].value)
        for n in names:
            if n in INNER_TYPES:
                raise Decline("a branch for the builtin type " + n)
            if n not in branches:
                branches[n] = val
                order.append(n)
    last = body[-1]
    if not (isinstance(last, ast.Return) and isinstance(last.value, ast.Name) and last.value.id == "x"):
        raise Decline("final return")
    # tuple branch: tuple(map(normalize, x))
    if "tuple" in branches:
        v = branches["tuple"]
        want = ast.dump(ast.parse("tuple(map(normalize, x))", mode="eval").body)
        if ast.dump(v) != want:
            raise Decline("tuple branch")
        tuple_maps = True
    if not tuple_maps:
        raise Decline("no tuple branch")   # blocks would not be normalized

    def replaced(cls, fields_known):
        """kwargs of replace(x, ...) for class cls, or None when the class falls through"""
        if cls not in branches:
            return None
        v = branches[cls]
        if isinstance(v, ast.Call) and isinstance(v.func, ast.Name) and v.func.id == cls and not v.args and not v.keywords:
            return "fresh"
        if not (isinstance(v, ast.Call) and isinstance(v.func, ast.Name) and v.func.id == "replace" and len(v.args) == 1
                and isinstance(v.args[0], ast.Name) and v.args[0].id == "x"):
            raise Decline("branch of " + cls)
        kw = {}
        for k in v.keywords:
            if k.arg not in fields_known:
                raise Decline("field %s of %s" % (k.arg, cls))
            kw[k.arg] = k.value
        return kw

    out = ["Module Norm."]
    # arguments
    arms = []
    for cls, (ctor, fields) in ARG_CLASSES.items():
        pat = "%s %s" % (ctor, " ".join(b for _, b in fields))
        r = replaced(cls, [f for f, _ in fields])
        if r is None:
            arms.append("  | %s => %s" % (pat, pat))
        elif r == "fresh":
            arms.append("  | %s => %s %s" % (pat, ctor, " ".join(DEFAULTS[f] for f, _ in fields)))
        else:
            vals = []
            for fld, b in fields:
                if fld not in r:
                    vals.append(b)
                elif fld == "constant" and is_normalize_of(r[fld], "constant"):
                    vals.append("(nk k)")
                else:
                    vals.append(reset_value(fld, r[fld]))
            arms.append("  | %s => %s %s" % (pat, ctor, " ".join(vals)))
    arms.append("  | AInt z => AInt z")       # an int operand matches no branch (checked: no branch names a builtin type)
    out.append("Definition norm_arg (nk : const -> const) (a : arg_ const) : arg_ const :=\n  match a with\n%s\n  end." % "\n".join(arms))
    # instruction
    r = replaced("Instruction", [f for f, _ in INSTR_FIELDS])
    if r is None or r == "fresh":
        raise Decline("Instruction branch")
    vals = []
    for fld, proj in INSTR_FIELDS:
        if fld not in r:
            vals.append(proj)
        elif fld == "arg" and is_normalize_of(r[fld], "arg"):
            vals.append("(norm_arg nk (i_arg i))")
        else:
            vals.append(reset_value(fld, r[fld]))
    if "arg" not in r:
        raise Decline("the operand of an instruction is not normalized")
    out.append("Definition norm_instr (nk : const -> const) (i : instr_ const) : instr_ const :=\n  mkInstr %s." % " ".join(vals))
    # code data
    r = replaced("CodeData", [f for f, _ in CD_FIELDS])
    if r is None or r == "fresh":
        raise Decline("CodeData branch")
    vals = []
    for fld, proj in CD_FIELDS:
        if fld not in r:
            vals.append(proj)
        elif fld == "blocks" and is_normalize_of(r[fld], "blocks"):
            vals.append("(map (map (norm_instr nk)) (cd_blocks d))")     # tuple(map(normalize, .)) twice, then the Instruction branch
        else:
            vals.append(reset_value(fld, r[fld]))
    if "blocks" not in r:
        raise Decline("the blocks are not normalized")
    # Model/Data.mkCD order: blocks filename firstline name stacksize type freevars future_annotations nested addline addargs
    out.append("Definition norm_cd (nk : const -> const) (d : code_data_ const) : code_data_ const :=\n  mkCD %s." % " ".join(vals))
    out.append("End Norm.")
    return "\n".join(out) + "\n"


HEADER = ("(* generated by harness/translate_norm.py from /repo/code_data/_normalize.py on every run; do not edit *)\n"
          "From PCD Require Import Base.PyBase Base.Cfg Model.Flags Model.Args Model.Data Model.Consts.\n\n")


def generate(repo, outpath, fallback_dir, write_fallback=False):
    import os
    from common import write_if_changed
    notes = {}
    fb = os.path.join(fallback_dir, "SrcNorm.v")
    try:
        with open(os.path.join(repo, "code_data", "_normalize.py")) as f:
            tree = ast.parse(f.read())
        text = translate(tree)
        notes["normalize"] = "translated"
        flag = "true"
        if write_fallback:
            with open(fb, "w") as f:
                f.write(text)
    except (Decline, OSError, SyntaxError, IndexError, KeyError, AttributeError) as e:
        notes["normalize"] = "declined: %s" % e
        with open(fb) as f:
            text = ("(* declined (%s): reference translation of the pinned source; tied by correspondence only *)\n"
                    % str(e).replace("*)", "* )")[:100]) + f.read()
        flag = "false"
    notes["changed"] = write_if_changed(outpath, HEADER + text + "Definition normalize_translated := %s.\n" % flag)
    return notes


if __name__ == "__main__":
    import sys
    import os
    here = os.path.dirname(os.path.abspath(__file__))
    sys.path.insert(0, here)
    print(generate("/repo", os.path.join(here, "..", "coq", "Gen", "SrcNorm.v"), os.path.join(here, "fallback"),
                   write_fallback="--write-fallback" in sys.argv))
