# Runs under one CPython 3.7-3.10 interpreter with PYTHONPATH=/repo:<pyshim>.
# usage: worker.py <property> <tier> <seed> <outfile>
# Writes one JSON document: correspondence cases (Gallina expression of the model's result,
# expected token stream from the implementation), oracle violations, coverage counters, samples.
# Must stay compatible with Python 3.7.
import importlib
import json
import os
import random
import signal
import sys
import time
import traceback
import warnings

HERE = os.path.dirname(os.path.abspath(__file__))
sys.path.insert(0, HERE)
import enc  # noqa: E402


class Ctx(object):
    def __init__(self, prop, tier, seed):
        self.prop = prop
        self.tier = tier
        self.seed = seed
        self.ver = sys.version_info[:2]
        self.vername = "%d%d" % self.ver
        self.rng = random.Random("%s-%s-%s" % (prop, seed, self.vername))
        self.cases = []
        self.violations = []
        self.counters = {}
        self.samples = []
        self.nontrivial = set()
        self.evaluations = 0
        self.notes = []
        self.tie_breaks = []
        self.quick = tier == "quick"

    # correspondence case: the model expression must evaluate to the expected tokens
    def case(self, expr, expected, desc=None, group="default"):
        self.cases.append({"expr": expr, "exp": list(expected), "desc": desc, "group": group})

    # the direct oracle found the implementation violating the property
    def violation(self, kind, what, data=None):
        if len(self.violations) < 200:
            self.violations.append({"kind": kind, "what": what, "data": data,
                                    "python": "%d.%d" % self.ver})
        self.count("violations:" + kind)

    def count(self, key, n=1):
        self.counters[key] = self.counters.get(key, 0) + n

    def evaluated(self, key=None, nontrivial=True):
        """one input explored by the oracle; key identifies it for distinctness"""
        self.evaluations += 1
        if nontrivial and key is not None:
            self.nontrivial.add(hash(key))

    def sample(self, obj, limit=6):
        if len(self.samples) < limit:
            self.samples.append(obj)

    def tie_break(self, what):
        """a validation of the harness's own reference (spec transcription, generator) failed"""
        if len(self.tie_breaks) < 50:
            self.tie_breaks.append(what)

    def note(self, s):
        self.notes.append(s)


def alarm_handler(signum, frame):
    raise enc.Timeout()


def main():
    prop, tier, seed, outfile = sys.argv[1], sys.argv[2], int(sys.argv[3]), sys.argv[4]
    signal.signal(signal.SIGALRM, alarm_handler)
    warnings.simplefilter("ignore")
    ctx = Ctx(prop, tier, seed)
    t0 = time.time()
    status = "ok"
    err = None
    try:
        mod = importlib.import_module("props." + prop)
        mod.work(ctx)
    except Exception:
        status = "crash"
        err = traceback.format_exc()
    out = {
        "status": status, "error": err, "python": "%d.%d" % ctx.ver,
        "cases": ctx.cases, "violations": ctx.violations, "counters": ctx.counters,
        "samples": ctx.samples, "evaluations": ctx.evaluations,
        "distinct_nontrivial": len(ctx.nontrivial), "notes": ctx.notes, "tie_breaks": ctx.tie_breaks,
        "wall_s": round(time.time() - t0, 2),
    }
    if hasattr(sys, "set_int_max_str_digits"):
        sys.set_int_max_str_digits(0)   # only now, after the library has run: the result file holds ints of any size
    with open(outfile, "w") as f:
        json.dump(out, f)


if __name__ == "__main__":
    main()
