# Host-side metadata per property: Coq imports for the case files, trusted base, assumptions.
KERNEL = "Coq 8.16.1 kernel, vm_compute (no native_compute); coqc full .vo build"
TIE = ("hand-written Gallina model tied to /repo by the correspondence run of this check (model evaluated by "
       "vm_compute inside Coq on the inputs the implementation ran under CPython 3.7-3.10) and by "
       "harness/translate_src.py for the items in coq/Gen/Src.v")
COMMON_TB = [KERNEL, TIE,
             "harness (worker.py, enc.py, common.py): serialisation of inputs/results, canonicalisation, oracles",
             "axioms: none declared; Print Assumptions output of every property theorem is in coverage.print_assumptions"]

DATA_IMPORTS = "Base.Cfg Model.Flags Model.Args Model.FlagsSer Model.Data Model.Consts Model.LineTable Model.LineTableSer Model.Blocks Model.CodeData Model.DataSer Gen.Cfg{TAG}"
VIEW_IMPORTS = DATA_IMPORTS + " Spec.Lnotab Spec.Dis Model.ViewSer Proofs.C02_Statements"
JSON_IMPORTS = DATA_IMPORTS + " Model.Json Model.JsonSer Proofs.C07_Statements"

PROPS = {
    "C10": {
        "level_text": "Theorems (unbounded table length) about the Gallina model of the six codec stages: inverse laws on raw tables inside decidable domains, "
                      "agreement with transcribed CPython readers, assembler images inside the domains; the stage functions are tied to the code by function-level "
                      "correspondence on every run (this property is about those functions), and CPython's real readers are the oracle on 3.7-3.10",
        "level_note": "see coverage.trusted_base; proofs concern the model, the tie is the differential run (generator-bounded)",
        "imports": "Model.LineTable Model.LineTableSer Spec.Lnotab",
        "prelude": "",
        "trusted_base": COMMON_TB + [
            "Spec/Lnotab.v: transcription of CPython's PyCode_Addr2Line, co_lines and the three assemblers; "
            "the Python transcription in harness/props/linetools.py is compared with ctypes PyCode_Addr2Line / co_lines() on every run"],
        "assumptions": ["CPython's assemblers emit only tables in the image of Spec asm37/asm38/asm310 (corpus tables are checked for domain membership)",
                        "co_code length is even"],
        "rule": "line programs (exhaustive over boundary deltas up to length 2, random up to 7) through transcribed assemblers; raw tables over boundary "
                "bytes; malformed stream; a case is non-trivial when its (table, code length, format) triple is new",
        "replay_hint": "PYTHONPATH=/repo:/verif/harness/pyshim <python3.x> -c 'from code_data._line_mapping import *' and run the stages on data.table with is_linetable=data.linetable",
    },
}

PROPS["C11"] = {
    "imports": "Base.Cfg Model.Flags Model.Args Model.FlagsSer Gen.Cfg{TAG}",
    "prelude": "Definition cfg := Cfg{TAG}.cfg.",
    "level_text": "Theorems for every well-formed flag table (any interpreter version): word -> names -> word is the identity, names -> word -> names is the identity, "
                  "a word with a bit outside the table makes to_flags_data raise; the flag functions are tied to the code by function-level correspondence, "
                  "the tables are regenerated from the interpreters on every run; header reproduction is decided by the oracle on altered code objects",
    "level_note": "see coverage.trusted_base; enum._decompose is transcribed (Model/Flags.v decompose) and exercised against the real one by the correspondence",
    "trusted_base": COMMON_TB + ["transcription of enum._decompose (CPython 3.7-3.10) in Model/Flags.v", "harness/gen_cfg.py (flag tables read from the interpreters)"],
    "assumptions": ["co_flags is a non-negative int", "flag names in _CodeFlag are distinct (checked: cfg_wf by vm_compute for each generated table)"],
    "rule": "flag words: all subsets of size <=2 of the known flags plus a seeded sample of the 2^18 subsets (thorough: all of them), every unknown bit below 2^40 alone and mixed; "
            "header alterations of base code objects through code.replace / CodeType; distinct = distinct flag words / distinct altered headers",
    "replay_hint": "from code_data._flags_data import to_flags_data, from_flags_data; to_flags_data(data['flags'])",
}

PROPS["C01"] = {
    "imports": VIEW_IMPORTS + " Proofs.C11_Statements Proofs.C01_Statements",
    "prelude": "Definition cfg := Cfg{TAG}.cfg.",
    "level_text": "TODO",
    "level_note": "TODO",
    "trusted_base": COMMON_TB,
    "assumptions": [],
    "rule": "corpus of real code objects (repository examples, inline programs, a deterministic stdlib subset; thorough: whole stdlib) and generated programs "
            "x compile mode x optimisation level, every nested code object; distinct = distinct (co_code, name, firstlineno, line table)",
    "replay_hint": "compile the named file / program under the named interpreter and compare CodeData.from_code(c).to_code() with c attribute by attribute",
    "claimed": False,
}

PROPS["C04"] = {
    "imports": DATA_IMPORTS,
    "prelude": "Definition cfg := Cfg{TAG}.cfg.",
    "level_text": "Theorems for all argument counts, flag sets and co_varnames tuples: the decoded Args are exactly inspect's binding of co_varnames (kinds and order), len is the "
                  "total, the encoder reproduces counts/names/flags; tied to _args.py by function-level correspondence; docstring/kind/type-None clauses decided by the oracle "
                  "(inspect.signature, __doc__, inspect.is*function on real function objects) over all signature shapes x scope kinds",
    "level_note": "Spec/Sig.v is a transcription of inspect._signature_from_function; the oracle calls the real inspect on 3.7-3.10; docstring and kind are header glue modelled in decode_code (correspondence of C01) but their CPython side (funcobject.c __doc__ rule) is only exercised by the oracle",
    "trusted_base": COMMON_TB + ["Spec/Sig.v transcription of Lib/inspect.py"],
    "assumptions": ["parameter names in co_varnames are distinct and non-empty (true of compiled code)"],
    "rule": "all signature shapes with <=2 parameters of each kind x {def, generator, async def, async generator, closure, method, lambda} x docstring shapes, comprehension/class/module scopes, "
            "and every code object of the corpus; distinct = distinct (code, varnames, flags)",
    "replay_hint": "exec the described def under the named interpreter; compare CodeData.from_code(f.__code__).type with inspect.signature(f), f.__doc__",
}

PROPS["C13"] = {
    "imports": VIEW_IMPORTS,
    "prelude": "Definition cfg := Cfg{TAG}.cfg.",
    "level_text": "Theorem for every byte string and every table contents: whenever bytes_to_blocks succeeds and jump targets are instruction starts, the blocks are exactly the "
                  "partition at {0} + jump targets (concatenation, non-empty, starts = targets, indices in range and pointing at the right block, every later block targeted); "
                  "pi_C13 (block lengths + target indices) of model and implementation compared on real code objects; dis gives the independent jump-target set",
    "level_note": "assumption monitored on every corpus object: jump targets are instruction starts (count in coverage.input_distribution targets_are_starts)",
    "trusted_base": COMMON_TB + ["dis.get_instructions of the running interpreter as the independent reader of jump targets"],
    "assumptions": ["jump targets of compiled code are instruction starts (monitored)"],
    "rule": "every code object of the corpus and of generated programs; distinct = distinct (co_code, name, firstlineno)",
    "replay_hint": "compile the named source under the named interpreter; compare [len(b) for b in CodeData.from_code(c).blocks] with the jump targets dis reports",
}
PROPS["C02"] = {
    "imports": VIEW_IMPORTS,
    "prelude": "Definition cfg := Cfg{TAG}.cfg.",
    "level_text": "Theorem (K1) for every configuration and every code object satisfying the boolean view_wf: the decoded blocks read in order are exactly what dis reports "
                  "(opcodes, resolved operands, jump targets as instruction indices with kind, line of the first code unit). view_wf is evaluated on every corpus object in the run "
                  "(group wf-monitor), the Coq dis_view is compared with the real dis.get_instructions/co_lines/PyCode_Addr2Line (group spec-dis), pi_C02 of model and code compared (decode-view)",
    "level_note": "nested code: the theorem is per code object with its constants already decoded (the same theorem applies to each nested object); constants are compared type- and bit-exactly by the oracle",
    "trusted_base": COMMON_TB + ["Spec/Dis.v transcription of dis._unpack_opargs / get_instructions, compared with the real dis on every run (group spec-dis)",
                                 "Spec/Lnotab.v readers (see C10)"],
    "assumptions": ["compiled code satisfies view_wf: operands below 2^31, EXTENDED_ARG only in front of opcodes with an argument, jump targets at instruction starts, "
                    "line table an assembler image covering the code (monitored: every corpus object is evaluated)"],
    "rule": "every code object of the corpus and of generated programs; distinct = distinct (co_code, name, firstlineno, line table)",
    "replay_hint": "compile the named source; compare CodeData.from_code(c).blocks flattened with dis.get_instructions(c) and co_lines()/PyCode_Addr2Line",
}

PROPS["C07"] = {
    "imports": JSON_IMPORTS,
    "prelude": "Definition cfg := Cfg{TAG}.cfg.",
    "level_text": "TODO", "level_note": "TODO",
    "trusted_base": COMMON_TB + ["text layer of json/orjson, repr/ast.literal_eval and base64 are outside the model (identity stand-ins, canonicalised by the harness; their round trip is exercised by the oracle)"],
    "assumptions": ["repr/literal_eval and base64 round-trip", "json.dumps/json.loads preserve the type and value of ints, finite floats, strings, lists, dicts"],
    "rule": "every constant kind x every position (operand, default, tuple member, frozenset member, dead-code additional arg, docstring, class docstring), lone surrogates in every string position, "
            "corpus and generated programs, decoded and normalized; distinct = distinct (origin, hash of data)",
    "replay_hint": "compile the described source; d = CodeData.from_code(c); CodeData.from_json_data(json.loads(json.dumps(d.to_json_data(), allow_nan=False)))",
    "claimed": False,
}
PROPS["C14"] = {
    "imports": VIEW_IMPORTS, "prelude": "Definition cfg := Cfg{TAG}.cfg.",
    "level_text": "TODO", "level_note": "TODO", "trusted_base": COMMON_TB, "assumptions": [],
    "rule": "programs with nested code left unreferenced by dead-code elimination, duplicated finally bodies, equal sibling lambdas; every corpus code object with nested code; generated programs; "
            "distinct = distinct (co_code, name, number of nested code objects)",
    "replay_hint": "compile the named source; compare list(CodeData.from_code(c).all_code_data()) with a recursive walk of c.co_consts",
    "claimed": False,
}
PROPS["C09"] = {
    "imports": VIEW_IMPORTS, "prelude": "Definition cfg := Cfg{TAG}.cfg.",
    "level_text": "TODO", "level_note": "TODO", "trusted_base": COMMON_TB + ["dis.get_instructions as independent reader of first-use ranks"], "assumptions": [],
    "rule": "every corpus / generated code object and its canonical re-encoding (normalize().to_code()); every override on an in-place entry is tested by stripping it from all uses and re-encoding; "
            "distinct = distinct (co_code, tables, canonical flag)",
    "replay_hint": "compile the named source; inspect _index_override / _additional_args of CodeData.from_code(c)",
    "claimed": False,
}
PROPS["C05"] = {
    "imports": VIEW_IMPORTS, "prelude": "Definition cfg := Cfg{TAG}.cfg.",
    "level_text": "TODO", "level_note": "TODO", "trusted_base": COMMON_TB + ["CPython's evaluation of bytecode (exec, sys.settrace) for the behavioural clause: outside every theorem"], "assumptions": [],
    "rule": "every corpus / generated code object: symbolic equivalence (dis view, header) of c and normalize().to_code(); generated terminating programs executed with stdout, exception and line trace compared; "
            "distinct = distinct (co_code, name, firstlineno, line table)",
    "replay_hint": "compile data.source (or the named file); c2 = CodeData.from_code(c).normalize().to_code(); compare dis views / exec both",
    "claimed": False,
}
PROPS["C08"] = {
    "imports": JSON_IMPORTS, "prelude": "Definition cfg := Cfg{TAG}.cfg.",
    "level_text": "Theorems over all constants and all CodeData values at any nesting: equality (Constant.__eq__ through constant_key, dataclass __eq__) is an equivalence relation, it coincides with the "
                  "partition of CPython's _PyCode_ConstantKey once NaNs are canonicalised, 1/1.0/True, 0.0/-0.0, str/bytes are distinguished also inside tuples, and a hash computed from the compared key respects equality; "
                  "model equality is compared with Python == on generated pairs; frozen-ness is decided by complete enumeration of (class, field) pairs, not by a theorem",
    "level_note": "hash(): the model shows the construction (hash of the key) is sound; that CPython's hash of key objects respects their == is trusted. 'equal data encode identically' is decided by the oracle on pairs built by different routes",
    "trusted_base": COMMON_TB + ["Spec/ConstKey.v transcription of _PyCode_ConstantKey, compared with the real function through ctypes by the oracle", "CPython's hash/eq contract for built-in key objects", "dataclasses runtime (frozen=True)"],
    "assumptions": ["hash() of tuples/frozensets/str/int/float key objects respects =="],
    "rule": "edge-value matrix of constants (53 x 53) against _PyCode_ConstantKey, NaN-bearing constants, every (class, field) pair for frozen-ness, CodeData pairs built by decode / decode again / JSON load / normalize / rebuild; distinct = distinct pair descriptors",
    "replay_hint": "from code_data import Constant; Constant(eval(a)) == Constant(eval(b)); hash(...)",
}

PROPS["C12"] = {
    "imports": JSON_IMPORTS, "prelude": "Definition cfg := Cfg{TAG}.cfg.",
    "level_text": "Theorem: any function accepted by the static check (every mutation targets a container the function itself allocated) leaves every pre-existing object unchanged, for all heaps, argument bindings and "
                  "paths through branches/loops; the loaders' statement structure is re-translated from the source on every run and re-checked (Example C12_loaders_are_accepted), so an assignment through "
                  "an object of the input breaks the proof obligation. Repeatability / independence of history / fresh results are decided by histories of interleaved calls with deep snapshots and by comparing the n-th call with the stateless model",
    "level_note": "no-input-mutation is proved for the translated statement structure; the translation (which expression allocates, which aliases) is trusted and fail-closed; from_code/to_code/normalize take immutable arguments "
                  "(code objects, frozen dataclasses of tuples) - their purity clause is decided by the history oracle",
    "trusted_base": COMMON_TB + ["harness/translate_src.py heap-op translation (Gen/SrcHeap.v): which statements allocate / alias / read / mutate containers; calls to constructors, builtins and the "
                                 "functions translated here are taken not to mutate their arguments"],
    "assumptions": ["stdlib callables used by the loaders (copy, tuple, dict(**), literal_eval, b64decode, dataclass constructors) do not mutate their arguments"],
    "rule": "histories of 9-35 interleaved API calls (from_code, to_code, normalize, to_json_data, from_json_data, poisoning of returned documents) on shared objects, with deep snapshots of every argument after every call; "
            "distinct = distinct (object, step, operation)",
    "replay_hint": "replay data.history on the named program: d = CodeData.from_code(c); doc = json.loads(json.dumps(d.to_json_data())); ...",
}

PROPS["C06"] = {
    "imports": JSON_IMPORTS + " Spec.Lnotab Spec.Dis Model.ViewSer Proofs.C02_Statements Proofs.C06_Statements", "prelude": "Definition cfg := Cfg{TAG}.cfg.",
    "level_text": "TODO", "level_note": "TODO", "trusted_base": COMMON_TB, "assumptions": [],
    "rule": "histories of 1-8 (thorough 1-20) operations over {code round trip, JSON round trip, normalize} on corpus / generated objects; variants built by independent mutators "
            "(table permutation with operand renumbering, padding with unreferenced entries, CO_NESTED toggle, redundant EXTENDED_ARG 0 prefix with jump re-targeting and rebuilt line table); distinct = distinct (object, history or variant)",
    "replay_hint": "compile the named source; apply data.history / data.variant (harness/props/mutators.py) and compare normalize() results",
    "claimed": False,
}

PROPS["C03"] = {
    "imports": VIEW_IMPORTS, "prelude": "Definition cfg := Cfg{TAG}.cfg.",
    "level_text": "TODO", "level_note": "TODO", "trusted_base": COMMON_TB + ["dis / co_lines / PyCode_Addr2Line of the running interpreter as readers of the emitted code"],
    "assumptions": ["line_number is not None on <= 3.9 (the co_lnotab format cannot express 'no line'; to_code raises TypeError there)"],
    "rule": "hand-built block graphs without override fields: 1-7 blocks of 1-260 instructions, absolute jumps in both directions, forward relative jumps, name tables of 3-300 (thorough 70000) entries, "
            "constants with colliding Python values (1/True/1.0, 0.0/-0.0, 'a'/b'a'), lines with deltas around +-127/128/255/300 and None (3.10), all signature shapes; plus gap / collision / negative overrides; "
            "distinct = distinct generated data",
    "replay_hint": "regenerate with harness/props/C03.py gen_data(random.Random('C03-<seed>-<ver>'), quick) at data.index",
    "claimed": False,
}

PROPS["C15"] = {
    "imports": JSON_IMPORTS, "prelude": "Definition cfg := Cfg{TAG}.cfg.",
    "phases": ["produce", "consume"], "consumer_phases": ["consume"],
    "level_text": "TODO", "level_note": "TODO", "trusted_base": COMMON_TB, "assumptions": [],
    "rule": "documents (decoded and normalized) written under each of 3.7-3.10 for corpus / generated code objects, loaded, normalized and re-dumped under every available interpreter 3.7-3.13; "
            "distinct = distinct (document, producer, consumer)",
    "replay_hint": "write CodeData.from_code(c).to_json_data() under data.producer, load it with CodeData.from_json_data under data.consumer, compare to_json_data() / normalize()",
    "claimed": False,
}

PROPS["C16"] = {
    "imports": "Model.Cli", "prelude": "",
    "level_text": "TODO", "level_note": "TODO", "trusted_base": COMMON_TB + ["argparse, dis.dis text output, compile(): outside the model"], "assumptions": [],
    "rule": "all 2^4 subsets of the four source options (with empty-string values) for the usage rule; programs x source kinds {file, -c, -e, -m} x subsets of the five output flags (quick: a seeded sample of 40, thorough: all); "
            "distinct = distinct argument vectors",
    "replay_hint": "python -c 'from code_data._cli import main; main()' <data.args> in a directory holding the program file",
    "claimed": False,
}

NOT_CLAIMED = {}
