# Host-side metadata per property: Coq imports for the case files, trusted base, assumptions.
KERNEL = "Coq 8.16.1 kernel, vm_compute (no native_compute); coqc full .vo build"
TIE = ("hand-written Gallina model tied to /repo by the correspondence run of this check (model evaluated by "
       "vm_compute inside Coq on the inputs the implementation ran under CPython 3.7-3.10) and by "
       "harness/translate_src.py for the items in coq/Gen/Src.v, harness/translate_lines.py for the statement-level translations in "
       "coq/Gen/SrcLines.v (expand_items, collapse_items, _parse_bytes), translate_args.py / translate_key.py / translate_norm.py / translate_header.py for "
       "Gen/SrcArgs.v, SrcKey.v, SrcNorm.v, SrcHeader.v, translate_toarg.py / translate_fromarg.py / translate_tables.py / translate_tojson.py / translate_flags.py for Gen/SrcToArg.v, SrcFromArg.v, SrcTables.v, SrcToJson.v, SrcFlags.v, translate_stage1.py / translate_linemap.py / translate_iter.py / translate_tail.py / translate_cli.py for Gen/SrcStage1.v, SrcLineMap.v, SrcIter.v, SrcTail.v, SrcCli.v (each translator states the meanings it declares for Python constructs in its header comment; a construct outside its fragment makes it decline and the stored reference translation of the pinned source is used, the correspondence run then being the only tie for that item) and harness/translate_deps.py for the reference graph in coq/Gen/SrcDeps.v")
COMMON_TB = [KERNEL, TIE,
             "harness (worker.py, enc.py, common.py): serialisation of inputs/results, canonicalisation, oracles",
             "axioms: none declared; Print Assumptions output of every property theorem is in coverage.print_assumptions"]

DATA_IMPORTS = "Base.Cfg Model.Flags Model.Args Model.FlagsSer Model.Data Model.Consts Model.LineTable Model.LineTableSer Model.Blocks Model.CodeData Model.DataSer Gen.Cfg{TAG}"
VIEW_IMPORTS = DATA_IMPORTS + " Spec.Lnotab Spec.Dis Model.ViewSer Proofs.C02_Statements"
JSON_IMPORTS = DATA_IMPORTS + " Model.Json Model.JsonSer Proofs.C07_Statements Spec.JsonSchema Gen.SrcSchema"

PROPS = {
    "C10": {
        "level_text": "Theorems (unbounded table length) about the Gallina model of the six codec stages: inverse laws on raw tables inside decidable domains, "
                      "agreement with transcribed CPython readers, assembler images inside the domains; the stage functions are tied to the code by function-level "
                      "correspondence on every run (this property is about those functions), and CPython's real readers are the oracle on 3.7-3.10",
        "level_note": "see coverage.trusted_base; proofs concern the model, the tie is the differential run (generator-bounded)",
        "imports": "Model.LineTable Model.LineTableSer Spec.Lnotab",
        "prelude": "",
        "trusted_base": COMMON_TB + [
            "Spec/Lnotab.v: transcription of CPython's PyCode_Addr2Line, co_lines and the three assemblers; "
            "the Python transcription in harness/props/linetools.py is compared with ctypes PyCode_Addr2Line / co_lines() on every run"],
        "assumptions": ["CPython's assemblers emit only tables in the image of Spec asm37/asm38/asm310 (corpus tables are checked for domain membership)",
                        "co_code length is even"],
        "rule": "line programs (exhaustive over boundary deltas up to length 2, random up to 7) through transcribed assemblers; raw tables over boundary "
                "bytes; malformed stream; a case is non-trivial when its (table, code length, format) triple is new",
        "replay_hint": "PYTHONPATH=/repo:/verif/harness/pyshim <python3.x> -c 'from code_data._line_mapping import *' and run the stages on data.table with is_linetable=data.linetable",
    },
}

PROPS["C11"] = {
    "imports": "Base.Cfg Model.Flags Model.Args Model.FlagsSer Gen.Cfg{TAG}",
    "prelude": "Definition cfg := Cfg{TAG}.cfg.",
    "level_text": "Theorems for every well-formed flag table (any interpreter version): word -> names -> word is the identity, names -> word -> names is the identity, "
                  "a word with a bit outside the table makes to_flags_data raise; the flag functions are tied to the code by function-level correspondence, "
                  "the tables are regenerated from the interpreters on every run; header reproduction is decided by the oracle on altered code objects",
    "level_note": "see coverage.trusted_base; enum._decompose is transcribed (Model/Flags.v decompose) and exercised against the real one by the correspondence",
    "trusted_base": COMMON_TB + ["transcription of enum._decompose (CPython 3.7-3.10) in Model/Flags.v", "harness/gen_cfg.py (flag tables read from the interpreters)"],
    "assumptions": ["co_flags is a non-negative int", "flag names in _CodeFlag are distinct (checked: cfg_wf by vm_compute for each generated table)"],
    "rule": "flag words: all subsets of size <=2 of the known flags plus a seeded sample of the 2^18 subsets (thorough: all of them), every unknown bit below 2^40 alone and mixed; "
            "header alterations of base code objects through code.replace / CodeType; distinct = distinct flag words / distinct altered headers",
    "replay_hint": "from code_data._flags_data import to_flags_data, from_flags_data; to_flags_data(data['flags'])",
}

PROPS["C01"] = {
    "imports": VIEW_IMPORTS + " Proofs.C11_Statements Proofs.C01_Statements Proofs.RoundTrip Proofs.DecodeTotal1 Proofs.DecodeTotal",
    "prelude": "Definition cfg := Cfg{TAG}.cfg.",
    "level_text": "Theorem (C01_from_code_succeeds_and_to_code_is_identity) for every configuration and every code object satisfying the boolean total_wf_deep (a predicate on the code object alone, every nesting level: round-trip domain + decodable header): from_code SUCCEEDS and encoding its result gives back the identical code object record; one level: decoding succeeds iff the header is decodable (both directions). Theorem (K3) for every code object satisfying rt_wf_deep/rt_extra_deep, at any nesting depth: decoding then encoding gives back the identical code object record (counts, flags, code bytes, constants recursively, names, variable tables, filename, name, first line, raw line table). Composed from: EXTENDED_ARG folding inverse, replay of the four operand tables (duplicates allowed), one-round jump relaxation on decoded sizes, lossless split/join of the line mapping, line-table codec inverse laws (C10), flags and args round trips. The premises are evaluated on every corpus object in the run (wf-monitor); full to_code_data / from_code_data outputs of model and code are compared (decode, encode groups); the oracle compares attribute by attribute on real interpreters",
    "level_note": "types.CodeType's own normalisation (CO_NOFREE re-derivation, argument checks) is modelled by pycode_new and exercised by the correspondence; 'CPython-compiled code satisfies total_wf_deep' is a monitored assumption (evaluated on every corpus object; the one known exception, from __future__ import barry_as_FLUFL, is a recorded finding), not a theorem (non-minimal operand widths on non-jumps, line entries inside an instruction, jump targets off instruction starts are outside it)",
    "trusted_base": COMMON_TB,
    "assumptions": [],
    "rule": "corpus of real code objects (repository examples, inline programs, a deterministic stdlib subset; thorough: whole stdlib) and generated programs "
            "x compile mode x optimisation level, every nested code object; distinct = distinct (co_code, name, firstlineno, line table)",
    "replay_hint": "compile the named file / program under the named interpreter and compare CodeData.from_code(c).to_code() with c attribute by attribute",
}

PROPS["C04"] = {
    "imports": DATA_IMPORTS + " Spec.FuncKind",
    "prelude": "Definition cfg := Cfg{TAG}.cfg.",
    "level_text": "Theorem C04_docstring_kind_and_type_none: whenever decoding succeeds the data has a function type exactly for function-like code (module / class body: type None), its docstring is CPython's __doc__ (co_consts[0] when a str), its type is inspect's classification (one flag bit each), its args are read from exactly the header fields and bits of the signature theorem; Spec/FuncKind.v is compared with real function objects and inspect on every run. Theorems for all argument counts, flag sets and co_varnames tuples: the decoded Args are exactly inspect's binding of co_varnames (kinds and order), len is the "
                  "total, the encoder reproduces counts/names/flags; tied to _args.py by function-level correspondence; docstring/kind/type-None clauses decided by the oracle "
                  "(inspect.signature, __doc__, inspect.is*function on real function objects) over all signature shapes x scope kinds",
    "level_note": "Spec/Sig.v is a transcription of inspect._signature_from_function; the oracle calls the real inspect on 3.7-3.10; docstring and kind are header glue modelled in decode_code (correspondence of C01) but their CPython side (funcobject.c __doc__ rule) is only exercised by the oracle",
    "trusted_base": COMMON_TB + ["Spec/Sig.v transcription of Lib/inspect.py"],
    "assumptions": ["parameter names in co_varnames are distinct and non-empty (true of compiled code)"],
    "rule": "all signature shapes with <=2 parameters of each kind x {def, generator, async def, async generator, closure, method, lambda} x docstring shapes, comprehension/class/module scopes, "
            "and every code object of the corpus; distinct = distinct (code, varnames, flags)",
    "replay_hint": "exec the described def under the named interpreter; compare CodeData.from_code(f.__code__).type with inspect.signature(f), f.__doc__",
}

PROPS["C13"] = {
    "imports": VIEW_IMPORTS,
    "prelude": "Definition cfg := Cfg{TAG}.cfg.",
    "level_text": "Theorem for every byte string and every table contents: whenever bytes_to_blocks succeeds and jump targets are instruction starts, the blocks are exactly the "
                  "partition at {0} + jump targets (concatenation, non-empty, starts = targets, indices in range and pointing at the right block, every later block targeted); "
                  "pi_C13 (block lengths + target indices) of model and implementation compared on real code objects; dis gives the independent jump-target set",
    "level_note": "assumption monitored on every corpus object: jump targets are instruction starts (count in coverage.input_distribution targets_are_starts)",
    "trusted_base": COMMON_TB + ["dis.get_instructions of the running interpreter as the independent reader of jump targets"],
    "assumptions": ["jump targets of compiled code are instruction starts (monitored)"],
    "rule": "every code object of the corpus and of generated programs; distinct = distinct (co_code, name, firstlineno)",
    "replay_hint": "compile the named source under the named interpreter; compare [len(b) for b in CodeData.from_code(c).blocks] with the jump targets dis reports",
}
PROPS["C02"] = {
    "imports": VIEW_IMPORTS,
    "prelude": "Definition cfg := Cfg{TAG}.cfg.",
    "level_text": "Theorem (K1) for every configuration and every code object satisfying the boolean view_wf: the decoded blocks read in order are exactly what dis reports "
                  "(opcodes, resolved operands, jump targets as instruction indices with kind, line of the first code unit). view_wf is evaluated on every corpus object in the run "
                  "(group wf-monitor), the Coq dis_view is compared with the real dis.get_instructions/co_lines/PyCode_Addr2Line (group spec-dis), pi_C02 of model and code compared (decode-view)",
    "level_note": "nested code: the theorem is per code object with its constants already decoded (the same theorem applies to each nested object); constants are compared type- and bit-exactly by the oracle",
    "trusted_base": COMMON_TB + ["Spec/Dis.v transcription of dis._unpack_opargs / get_instructions, compared with the real dis on every run (group spec-dis)",
                                 "Spec/Lnotab.v readers (see C10)"],
    "assumptions": ["compiled code satisfies view_wf: operands below 2^31, EXTENDED_ARG only in front of opcodes with an argument, jump targets at instruction starts, "
                    "line table an assembler image covering the code (monitored: every corpus object is evaluated)"],
    "rule": "every code object of the corpus and of generated programs; distinct = distinct (co_code, name, firstlineno, line table)",
    "replay_hint": "compile the named source; compare CodeData.from_code(c).blocks flattened with dis.get_instructions(c) and co_lines()/PyCode_Addr2Line",
}

PROPS["C07"] = {
    "imports": JSON_IMPORTS,
    "prelude": "Definition cfg := Cfg{TAG}.cfg.",
    "level_text": "Theorems over all values at any nesting of code constants and every constant kind: loading the JSON form gives equal data (identical when NaN-free), integers beyond 2^53 travel as decimal strings and come back exactly, the form contains no NaN/Infinity number and no integer beyond 2^53; the model's to_json / from_json are compared with the code on every corpus value (with the text codecs canonicalised); schema validity is a theorem too (C07_json_validates_against_the_published_schema): for every datum with integers in the interchange range the document validates, under the JSON-Schema validator of Spec/JsonSchema.v, against JSON_SCHEMA as re-translated from code_data/__init__.py on every run (Gen/SrcSchema.v) - a change of the schema or of the document shape breaks the proof; the real dumps/loads cycle (json, orjson when present) and identical to_code() are decided by the oracle, which also validates every document with an independent Python validator and compares the two validators on corrupted documents", "level_note": "the Coq validator covers the keywords the schema uses (type, properties, required, items, anyOf, enum, $ref); description/default/title are annotations; repr/literal_eval, base64 and the JSON text layer are identity stand-ins in the model",
    "trusted_base": COMMON_TB + ["text layer of json/orjson, repr/ast.literal_eval and base64 are outside the model (identity stand-ins, canonicalised by the harness; their round trip is exercised by the oracle)"],
    "assumptions": ["repr/literal_eval and base64 round-trip", "json.dumps/json.loads preserve the type and value of ints, finite floats, strings, lists, dicts"],
    "rule": "every constant kind x every position (operand, default, tuple member, frozenset member, dead-code additional arg, docstring, class docstring), lone surrogates in every string position, "
            "corpus and generated programs, decoded and normalized; distinct = distinct (origin, hash of data)",
    "replay_hint": "compile the described source; d = CodeData.from_code(c); CodeData.from_json_data(json.loads(json.dumps(d.to_json_data(), allow_nan=False)))",
}
PROPS["C14"] = {
    "imports": VIEW_IMPORTS, "prelude": "Definition cfg := Cfg{TAG}.cfg.",
    "level_text": "Theorems: iterating decoded data yields exactly the code entries of the original constants table (each once, in table order, referenced or not); all_code_data yields the object followed by one object per code object reachable through the constants at any depth, each equal to decoding that code object on its own (nested induction, fuel = nesting depth suffices). Model and code compared on the yielded (name, firstlineno, size) sequences; oracle: multiset comparison with a recursive walk of co_consts", "level_note": "premise rt_wf_deep as in C01 (monitored); module_codes.py is not modelled", "trusted_base": COMMON_TB, "assumptions": [],
    "rule": "programs with nested code left unreferenced by dead-code elimination, duplicated finally bodies, equal sibling lambdas; every corpus code object with nested code; generated programs; "
            "distinct = distinct (co_code, name, number of nested code objects)",
    "replay_hint": "compile the named source; compare list(CodeData.from_code(c).all_code_data()) with a recursive walk of c.co_consts",
}
PROPS["C09"] = {
    "imports": VIEW_IMPORTS, "prelude": "Definition cfg := Cfg{TAG}.cfg.",
    "level_text": "Theorems for any table, any key equivalence, duplicates allowed: decoding a code object runs exactly the table decoder on the operand indices (C09_decoded_tables); in a duplicate-free table an entry carries an override iff its position differs from its first-use rank; additional args are exactly the unreferenced entries in order; tables in first-use order without unreferenced entries decode with no override; every override is needed (stripping it from all uses makes re-encoding fail or return other indices). The override / additional-arg projection of model and code is compared; the oracle recomputes first-use ranks from dis and re-encodes with each suspicious override stripped", "level_note": "the theorems about overrides quantify over the table-level decoder/encoder; their link to decoded code objects is C09_decoded_tables (parameters preset, docstring first)", "trusted_base": COMMON_TB + ["dis.get_instructions as independent reader of first-use ranks"], "assumptions": [],
    "rule": "every corpus / generated code object and its canonical re-encoding (normalize().to_code()); every override on an in-place entry is tested by stripping it from all uses and re-encoding; "
            "distinct = distinct (co_code, tables, canonical flag)",
    "replay_hint": "compile the named source; inspect _index_override / _additional_args of CodeData.from_code(c)",
}
PROPS["C05"] = {
    "imports": VIEW_IMPORTS + " Proofs.C11_Statements Proofs.C01_Statements Proofs.C03_Statements Proofs.C03b_Statements Proofs.C03c_Statements Proofs.NormalFormWf Spec.Exec", "prelude": "Definition cfg := Cfg{TAG}.cfg.",
    "level_text": "Theorem: for every configuration and every code object satisfying view_wf (opcodes known), the normal form of the decoded data reads as the original's instruction stream (opcodes, resolved operands with nested code normalized in turn, jump structure, lines), it is well-formed data, and CPython's disassembler / line reader read the code re-encoded from it as that same stream, with name, filename, first line, stack size and free variables unchanged (composition of C02's decoder theorem, the normal-form well-formedness and C03's encoder theorem). Premises are evaluated on every corpus object (wf-monitor); normalize-then-encode of model and code are compared as full code objects. The behavioural clause (same results, output, exceptions, traced lines) is proved parametrically (Spec/Exec.v, Proofs/ExecLayout.v): for EVERY interpreter whose per-instruction semantics observes opcode, resolved operand and line only (not distinguishing key-equal constants nor a nested code constant from its normal form), CPython's byte-offset execution of a code object is the index execution of its symbolic view (no premise), and the original and the re-encoded normal form end in the same state with the same outcome after the same (opcode, line) event sequence for every fuel and initial state. That ceval is such an interpreter is an assumption, exercised by executing generated terminating programs before/after (stdout, exception, line trace); the machine of Spec/Exec.v itself is validated on every run against the real eval loop: driven by the branch decisions CPython took (sys.settrace opcode events), it must visit the same instructions with the same lines (group spec-exec)", "level_note": "execution equivalence is proved for the class of operand-level interpreters only; CPython's ceval itself is not modelled (no object model, no stack): that it belongs to the class is assumed and tested by execution; the header is covered by C05_normalization_keeps_the_header_up_to_nested_and_nofree (argument counts and every flag bit kept, CO_NESTED cleared, CO_NOFREE re-derived)", "trusted_base": COMMON_TB + ["CPython's evaluation of bytecode (exec, sys.settrace) for the behavioural clause: outside every theorem"], "assumptions": [],
    "rule": "every corpus / generated code object: symbolic equivalence (dis view, header) of c and normalize().to_code(); generated terminating programs executed with stdout, exception and line trace compared; "
            "distinct = distinct (co_code, name, firstlineno, line table)",
    "replay_hint": "compile data.source (or the named file); c2 = CodeData.from_code(c).normalize().to_code(); compare dis views / exec both",
}
PROPS["C08"] = {
    "imports": JSON_IMPORTS, "prelude": "Definition cfg := Cfg{TAG}.cfg.",
    "level_text": "Theorems over all constants and all CodeData values at any nesting: equality (Constant.__eq__ through constant_key, dataclass __eq__) is an equivalence relation, it coincides with the "
                  "partition of CPython's _PyCode_ConstantKey once NaNs are canonicalised, 1/1.0/True, 0.0/-0.0, str/bytes are distinguished also inside tuples, and a hash computed from the compared key respects equality; "
                  "model equality is compared with Python == on generated pairs; frozen-ness is decided by complete enumeration of (class, field) pairs, not by a theorem",
    "level_note": "hash(): the model shows the construction (hash of the key) is sound; that CPython's hash of key objects respects their == is trusted. 'equal data encode identically' is decided by the oracle on pairs built by different routes",
    "trusted_base": COMMON_TB + ["Spec/ConstKey.v transcription of _PyCode_ConstantKey, compared with the real function through ctypes by the oracle", "CPython's hash/eq contract for built-in key objects", "dataclasses runtime (frozen=True)"],
    "assumptions": ["hash() of tuples/frozensets/str/int/float key objects respects =="],
    "rule": "edge-value matrix of constants (53 x 53) against _PyCode_ConstantKey, NaN-bearing constants, every (class, field) pair for frozen-ness, CodeData pairs built by decode / decode again / JSON load / normalize / rebuild; distinct = distinct pair descriptors",
    "replay_hint": "from code_data import Constant; Constant(eval(a)) == Constant(eval(b)); hash(...)",
}

PROPS["C12"] = {
    "imports": JSON_IMPORTS, "prelude": "Definition cfg := Cfg{TAG}.cfg.",
    "level_text": "Theorem: any function accepted by the static check (every mutation targets a container the function itself allocated) leaves every pre-existing object unchanged, for all heaps, argument bindings and "
                  "paths through branches/loops; the loaders' statement structure is re-translated from the source on every run and re-checked (Example C12_loaders_are_accepted), so an assignment through "
                  "an object of the input breaks the proof obligation. Repeatability / independence of history / fresh results are decided by histories of interleaved calls with deep snapshots and by comparing the n-th call with the stateless model",
    "level_note": "no-input-mutation is proved for the translated statement structure; the translation (which expression allocates, which aliases) is trusted and fail-closed; from_code/to_code/normalize take immutable arguments "
                  "(code objects, frozen dataclasses of tuples) - their purity clause is decided by the history oracle",
    "trusted_base": COMMON_TB + ["harness/translate_src.py heap-op translation (Gen/SrcHeap.v): which statements allocate / alias / read / mutate containers; calls to constructors, builtins and the "
                                 "functions translated here are taken not to mutate their arguments"],
    "assumptions": ["stdlib callables used by the loaders (copy, tuple, dict(**), literal_eval, b64decode, dataclass constructors) do not mutate their arguments"],
    "rule": "histories of 9-35 interleaved API calls (from_code, to_code, normalize, to_json_data, from_json_data, poisoning of returned documents) on shared objects, with deep snapshots of every argument after every call; "
            "distinct = distinct (object, step, operation)",
    "replay_hint": "replay data.history on the named program: d = CodeData.from_code(c); doc = json.loads(json.dumps(d.to_json_data())); ...",
}

PROPS["C06"] = {
    "imports": JSON_IMPORTS + " Spec.Lnotab Spec.Dis Model.ViewSer Proofs.C02_Statements Proofs.C06_Statements Proofs.CodeRoundTrip", "prelude": "Definition cfg := Cfg{TAG}.cfg.",
    "level_text": "Theorems: normalize is idempotent and respects equality; every history over {JSON round trip, normalize} of any length leaves the normal form unchanged (induction over the history); canonicity: the normalized blocks of decoded data are a function of CPython's reading (dis view) of the code alone, so code objects with equal views and equal kept header fields normalize to EQUAL data whatever their table order, unreferenced entries, redundant EXTENDED_ARG prefixes or CO_NESTED. Stability under the code round trip is a theorem as well (C06_normal_form_stable_under_the_code_roundtrip: decode, normalize, to_code, from_code, normalize gives data == the first normal form, for every configuration with a well-formed flag table naming CO_NOFREE - true of the four generated ones; the unrestricted statement is refuted in Coq). The concrete mutators (permutation, padding, prefixes) and mixed histories are run by the history / variant oracle and by comparing the model's normal forms of both variants", "level_note": "mixed histories interleaving code and JSON round trips follow by alternating the two stability theorems but are not stated as one theorem; that the mutators preserve the dis view is checked per variant by the model (variants group), not proved", "trusted_base": COMMON_TB, "assumptions": [],
    "rule": "histories of 1-8 (thorough 1-20) operations over {code round trip, JSON round trip, normalize} on corpus / generated objects; variants built by independent mutators "
            "(table permutation with operand renumbering, padding with unreferenced entries, CO_NESTED toggle, redundant EXTENDED_ARG 0 prefix with jump re-targeting and rebuilt line table); distinct = distinct (object, history or variant)",
    "replay_hint": "compile the named source; apply data.history / data.variant (harness/props/mutators.py) and compare normalize() results",
}

PROPS["C03"] = {
    "imports": VIEW_IMPORTS + " Proofs.C11_Statements Proofs.C01_Statements Proofs.C03_Statements Proofs.C03b_Statements Proofs.C03c_Statements Proofs.EncodeTotal1 Proofs.EncodeTotal Proofs.RedecodeNormalForm", "prelude": "Definition cfg := Cfg{TAG}.cfg.",
    "level_text": "Theorem (K2) for every configuration and every datum satisfying the boolean data_wf (no private override fields, operand kinds fit the opcodes, jumps designate existing blocks, relative jumps forward): the emitted code object is read back by CPython's disassembler and line reader (Spec/Dis.v, Spec/Lnotab.v) as the data's instruction stream - opcodes, resolved operands (constants up to key equality), jump targets as instruction indices with kind, lines - and the header fields say what the data says; to_code terminates for all data without negative size overrides (real termination proof of the jump-width fix-point) and RETURNS a code object for well-formed data exactly when enc_ok holds (stack size >= 0, free-variable operands declared, no positional-only parameters before 3.8, flags expressible: C03_to_code_returns_iff_enc_ok, both directions); at exit every jump operand is the one the layout requires; gap and collision overrides raise. data_wf and the conclusion are evaluated on every generated datum (wf-monitor); full from_code_data outputs of model and code are compared on hand-built graphs incl. inconsistent overrides", "level_note": "the clause 're-decoding gives the data up to normalization' is proved on the flattened instruction stream (C03_emitted_code_is_in_the_decoder_domain, C03_redecode_gives_the_stream: the emitted code satisfies view_wf and its decoding reads as the input's stream, constants up to key equality); and, for data whose blocks are cut at the jump-target partition (blocks_canonical), C03_redecode_gives_the_data_up_to_normalization proves that the re-decoded data is == to the input up to normalization (blocks, header, signature, docstring, nested constants); without that premise the statement is refuted in Coq; data with line_number=None is outside data_wf before 3.10 (the format cannot express it; to_code raises TypeError); a negative _n_args_override makes to_code loop forever (RelaxProofs.relax_diverges) - not well-formed data", "trusted_base": COMMON_TB + ["dis / co_lines / PyCode_Addr2Line of the running interpreter as readers of the emitted code"],
    "assumptions": ["line_number is not None on <= 3.9 (the co_lnotab format cannot express 'no line'; to_code raises TypeError there)"],
    "rule": "hand-built block graphs without override fields: 1-7 blocks of 1-260 instructions, absolute jumps in both directions, forward relative jumps, name tables of 3-300 (thorough 70000) entries, "
            "constants with colliding Python values (1/True/1.0, 0.0/-0.0, 'a'/b'a'), lines with deltas around +-127/128/255/300 and None (3.10), all signature shapes; plus gap / collision / negative overrides; "
            "distinct = distinct generated data",
    "replay_hint": "regenerate with harness/props/C03.py gen_data(random.Random('C03-<seed>-<ver>'), quick) at data.index",
}

PROPS["C15"] = {
    "imports": JSON_IMPORTS + " Proofs.C15_Statements", "prelude": "Definition cfg := Cfg{TAG}.cfg.",
    "phases": ["produce", "consume"], "consumer_phases": ["consume"],
    "level_text": "Theorems: a document written by to_json_data loads into data that re-serializes to the identical document, and normalize commutes with the cycle; the model's JSON functions and normalize take no interpreter configuration at all. The substance is the run: the single version-free model is compared with from_json_data / normalize / to_json_data on every available interpreter 3.7-3.13 for documents written under each of 3.7-3.10, and the oracle compares canonical dumps of producer and consumer", "level_note": "that the library's JSON code paths do not depend on sys.version_info is not proved from the source; it is what the cross-interpreter correspondence with one model checks (generator-bounded)", "trusted_base": COMMON_TB, "assumptions": [],
    "rule": "documents (decoded and normalized) written under each of 3.7-3.10 for corpus / generated code objects, loaded, normalized and re-dumped under every available interpreter 3.7-3.13; "
            "distinct = distinct (document, producer, consumer)",
    "replay_hint": "write CodeData.from_code(c).to_json_data() under data.producer, load it with CodeData.from_json_data under data.consumer, compare to_json_data() / normalize()",
}

PROPS["C16"] = {
    "imports": "Model.Cli", "prelude": "",
    "level_text": "Theorems: the command accepts exactly one program source, counted by presence (all four-tuples of given/not given); the printed value is normalize(decode) or decode; the --json section loads back to the printed value (C07 composed with C06); --dis-after without normalization disassembles the identical code object (C01) and by default a code object CPython reads as the same instruction stream (C05). The option/IO layer itself is thin in the model: most of the assurance for C16 comes from the differential run - subprocess output of every source option x output flag combination parsed (repr evaluated, JSON section loaded, --dis vs --dis-after instruction lists compared) against the in-process API on each interpreter; the accept/reject decision of model and code is compared", "level_note": "argparse, dis.dis text output, Rich rendering (absent here: plain print fallback) are outside the model", "trusted_base": COMMON_TB + ["argparse, dis.dis text output, compile(): outside the model"], "assumptions": [],
    "rule": "all 2^4 subsets of the four source options (with empty-string values) for the usage rule; programs x source kinds {file, -c, -e, -m} x subsets of the five output flags (quick: a seeded sample of 40, thorough: all); "
            "distinct = distinct argument vectors",
    "replay_hint": "python -c 'from code_data._cli import main; main()' <data.args> in a directory holding the program file",
}

PROPS["C10"]["level_text"] += (
    "; the entry-splitting arithmetic is additionally tied to the source by proof for ALL inputs: expand_items (its while loops, with termination "
    "inside a stated fuel) and the comprehension, split conditions and merge of collapse_items are re-translated statement by statement from "
    "code_data/_line_mapping.py on every run (Gen/SrcLines.v) and proved equal to the model (C10_expand_items_is_the_source, C10_collapse_conditions_are_the_source)")
PROPS["C15"]["level_text"] += (
    "; 'depends only on the data classes, not on the interpreter' is a theorem too (C15_json_and_normalize_never_consult_the_interpreter): in the "
    "reference graph of the current source (Gen/SrcDeps.v, re-translated on every run, over-approximating method calls), no path of references from "
    "to_json_data / from_json_data / normalize reaches sys, dis, opcode, platform, types, a host-dependent builtin (repr, hash, compile) or eval/exec")
PROPS["C02"]["level_text"] += (
    "; the EXTENDED_ARG folding is tied to the source by proof for ALL byte strings (C02_parse_bytes_is_the_source: the statement-level "
    "translation of _parse_bytes regenerated in Gen/SrcLines.v equals the model's parse_bytes)")
PROPS["C07"]["level_text"] += (
    "; ints beyond 2048 bits travel as hexadecimal text (C07_big_int_text covers both forms; C07_decimal_text_only_for_short_ints: the decimal "
    "conversion, which CPython limits by sys.set_int_max_str_digits, is only used below 617 digits)")
PROPS["C11"]["level_text"] += "; the raise-or-exact rule is also run with assert statements compiled away (python -O sub-run of the header alterations)"
PROPS["C16"]["level_text"] += (
    "; program files with a byte order mark, a coding cookie or CRLF line ends, and programs whose text a command-line layer could be tempted to "
    "tidy (blank-only lines inside string literals, tabs, trailing blanks) are part of the pool")
PROPS["C16"]["level_text"] += (
    "; main() itself is tied to the source by proof: the test that accepts or rejects the sources given and the sequence of sections main prints, "
    "with the value each shows, are re-translated from _cli.py on every run (Gen/SrcCli.v) - C16_usage_rule_is_the_source (presence, not "
    "truthiness, is counted), C16_every_section_shows_the_printed_value (the printed data, the --json section and the --dis-after code object "
    "all show the same value under every flag combination), C16_sections_are_the_source; the four ways a source becomes a code object are compared "
    "verbatim with the pinned text (any other text: the translator declines and the differential run alone decides)")
PROPS["C10"]["level_text"] += (
    "; stage 1 (the bytes themselves) is tied by proof too: C10_stage1_is_the_source - the comprehension of bytes_to_items and the expression "
    "of items_to_bytes, re-translated into Gen/SrcStage1.v, equal the model for all byte strings and item lists, IndexError / ValueError included")
PROPS["C13"]["level_text"] += (
    "; the base against which the decoding loop resolves relative jumps (third argument of to_arg) is translated too: "
    "C13_relative_jump_base_is_the_source (it is next_offset - the offset after the instruction and its prefixes - for all inputs)")
PROPS["C10"]["level_text"] += (
    "; the LineMapping methods used around the codec (pop_additional_line as its caller sees it, add_additional_line, modify_line_offsets) are "
    "re-translated (Gen/SrcLineMap.v) and tied for all mappings: C10_line_mapping_methods_are_the_source")
PROPS["C14"]["level_text"] += (
    "; the iteration API is tied to the source by proof as well: C14_iteration_is_the_source - blocks_to_constants (docstring slot, the loops over "
    "instructions and additional args through the translated from_arg, to_tuple), __iter__ and all_code_data, re-translated into Gen/SrcIter.v on "
    "every run, are the model's functions for all data")
PROPS["C01"]["level_text"] += (
    "; both top-level functions are tied to the source by proof around their headers (Gen/SrcTail.v): C01_to_code_data_is_the_source (the translated "
    "body of to_code_data - version split, line mapping, ArgsInput keywords, header, bytes_to_blocks arguments, pop_additional_line, CodeData keywords - "
    "is the model's decode_code) and C01_from_code_data_is_the_source (encode_code is blocks_to_bytes, the translated header and the translated tail "
    "with either CodeType signature)")
PROPS["C03"]["level_text"] += (
    "; C03_encoder_is_blocks_to_bytes_then_the_source_header_and_tail: the rest of from_code_data (consts, additional line, from_flags_data, line shift, "
    "from_line_mapping, nlocals, CodeType under both signatures) is translated and tied as well")
PROPS["C03"]["level_text"] += (
    "; FromArgs.to_tuple too (C03_to_tuple_is_the_source: the key-set test against range(len) and the values of the items sorted by key equal the "
    "model's walk over 0..len-1 for every table with distinct keys; C03_encoder_tables_keep_distinct_keys: every table the encoder builds has them)")
PROPS["C03"]["level_text"] += (
    "; the prologue of blocks_to_bytes as well (C03_encoder_prologue_is_the_source: tables, varnames seeded with the parameter names, docstring pinned "
    "at slot 0 whenever it is not None)")
PROPS["C09"]["level_text"] += (
    "; the state the decoder starts from (tables, parameters preset as found, the docstring - the empty one included - marked as found at index 0) "
    "is re-translated and tied: C09_decoder_prologue_is_the_source")
PROPS["C03"]["level_text"] += (
    "; C03_blocks_to_bytes_is_the_source_in_outline: blocks_to_bytes is the translated prologue, the translated first pass (operands through from_arg in "
    "order, additional args, free-variable shift), relax, assemble and four to_tuple")
PROPS["C09"]["level_text"] += (
    "; C09_unreferenced_entries_are_collected_as_the_source_does: the end of bytes_to_blocks (per-table additional_args under their constructors, in order)")
PROPS["C04"]["level_text"] += (
    "; the four functions of _args.py are tied to the source by proof for ALL inputs (C04_args_functions_are_the_source: Gen/SrcArgs.v, "
    "re-translated on every run, equals Model/Args.v)")
PROPS["C08"]["level_text"] += (
    "; the equality is tied to the source by proof for ALL pairs of constants (C08_equality_is_python_eq_on_the_keys_the_source_builds: the key "
    "function of _constants.py, re-translated on every run into a small universe of Python values with Python's ==, compares exactly as the model's ikey_eqb)")
PROPS["C06"]["level_text"] += (
    "; normalize is tied to the source by proof (C06_normalize_is_the_source: which fields each data class resets, re-translated from "
    "_normalize.py on every run into Gen/SrcNorm.v, is the model's normalize)")
PROPS["C11"]["level_text"] += (
    "; the header case analysis of to_code_data (NOFREE check, function / non-function split, kind flag, unknown-flags test) is tied to the source "
    "by proof for ALL inputs (C11_header_case_analysis_is_the_source, Gen/SrcHeader.v)")
PROPS["C02"]["level_text"] += (
    "; the operand resolution is tied to the source as well (C02_to_arg_is_the_source: the elif chain of to_arg, re-translated in Gen/SrcToArg.v, "
    "is the model's to_arg for all inputs and table states)")
PROPS["C03"]["level_text"] += (
    "; the operand encoding is tied to the source by proof (C03_from_arg_is_the_source: the isinstance chain of from_arg with its docstring rule, "
    "re-translated in Gen/SrcFromArg.v, is the model's from_arg)")
PROPS["C10"]["level_text"] += (
    "; stage 3 is tied to the source the same way in both directions: mapping_to_items (both formats, with its NameError / TypeError cases: "
    "C10_mapping_to_items_is_the_source) and items_to_mapping (the range filling of co_linetable; the index-driven while with its nested while of "
    "co_lnotab, on the model's own fuel: C10_items_to_mapping_is_the_source, C10_items_to_mapping_lnotab_is_the_source)")
PROPS["C03"]["level_text"] += (
    "; the jump relaxation is tied to the source too (C03_relaxation_step_is_the_source: the per-instruction body of the second pass of the "
    "`while changed_instruction_lengths` loop, re-translated on every run, computes the model's step - size, running offset, new operand, a flag that "
    "is only ever raised - and C03_update_jumps_is_the_iteration_of_that_step)")
PROPS["C03"]["level_text"] += "; the header the encoder writes is tied as well (C03_encoder_header_is_the_source, Gen/SrcHeader.v EncodeHeader)"
PROPS["C13"]["level_text"] += (
    "; the targets recorded for the partition and the size override of jumps are tied to the source "
    "(C13_recorded_targets_and_size_overrides_are_the_source: the decoding loop's fixed statements are compared verbatim, its computing part is translated); "
    "the block-building loop itself, re-translated on every run, run on the recorded targets IS the model's split_blocks, the object of the partition "
    "theorem (C13_block_building_loop_is_the_source)")
PROPS["C09"]["level_text"] += (
    "; the rule itself is tied to the source by proof (C09_found_index_is_the_source: ToArgs.found_index, re-translated on every run into "
    "Gen/SrcTables.v over the model's table records, is the model's found_index for all tables, indices and key equalities)")
PROPS["C03"]["level_text"] += "; FromArgs.__setitem__ / add likewise (C03_encoder_tables_are_the_source)"
PROPS["C07"]["level_text"] += (
    "; the writer of constants is tied to the source by proof (C07_constant_writer_is_the_source: the constant branches of value_to_json, "
    "re-translated in Gen/SrcToJson.v, are the model's iconst_to_json for all constants)")
PROPS["C11"]["level_text"] += "; to_flags_data / from_flags_data themselves are tied the same way (C11_flag_conversions_are_the_source, Gen/SrcFlags.v)"
PROPS["C03"]["level_text"] += (
    "; and the final loop's body - the line entries of an instruction and of its EXTENDED_ARG prefixes, the code units written - is the step of "
    "the model's assemble (C03_assembly_step_is_the_source)")

NOT_CLAIMED = {
}
