# Translator for the imperative core of code_data/_line_mapping.py (and other loop-shaped functions):
# Python statements -> Gallina state transformers in the target language of coq/Base/PyImp.v.
#
# Fail-closed: anything outside the fragment raises Decline; the caller then emits the stored reference
# translation of the pinned source (harness/fallback/*.v) with `<item>_translated := false`, so that the
# proofs about the generated file still compile and the item is tied by the correspondence run only.
#
# Fragment.  Values are ints (Z), ints-or-None (optZ) and bools; objects are records whose fields have one of
# these types (declared per function below).  Statements: assignment / augmented assignment to a declared
# mutable local or to a field of a declared mutable object, `<list>.append(<Record>(field=..., ...))`,
# `if`, `while`, calls of closures defined in the same function (`nonlocal` locals are the shared state),
# `for x in <param list>` at the top level.  Expressions: integer arithmetic (+ - * // % &), comparisons,
# `is None` / `is not None`, `==` / `!=` with None-able operands (never raise), and/or/not with short
# circuit, conditional expressions, attribute reads.  Arithmetic or ordering on a None-able operand is
# rendered as `un_o` (raises TypeError on None), so a guard removed from the source changes the result.
import ast

from translate_src import Decline


class T:
    """translated expression: Gallina text, type in {'Z','optZ','bool'}, pure (total) or in res"""

    def __init__(self, text, ty, pure=True):
        self.text, self.ty, self.pure = text, ty, pure


class Ctx:
    def __init__(self, state, params, objects, records, out_lists):
        self.state = state  # name -> type            (mutable locals: record fields v_<name>)
        self.params = params  # name -> type | ('obj', recname)  (immutable names: Gallina variables)
        self.objects = objects  # name -> recname      (mutable objects: fields live in the state as v_<name>_<field>)
        self.records = records  # recname -> [(field, type)]  (constructor / projection order)
        self.out_lists = out_lists  # name -> recname   (append-only lists of records in the state)
        self.closures = {}
        self.fresh = 0
        self.yield_arity = 0
        self.loopvars = {}   # name -> T  (variables of the enclosing for loops: plain Gallina binders inside the body)
        self.reads = {}      # ast.dump(expression) -> T   (declared meaning of an expression the fragment does not read itself)
        self.calls = {}      # function name -> Gallina function on ints
        self.stores = {}     # ast.dump(assignment target) -> (state field, type)
        self.dicts = {}      # ast.dump(expression denoting a dict) -> (state variable, type)

    def gensym(self):
        self.fresh += 1
        return "x%d" % self.fresh


def proj(ctx, rec, field, base):
    fields = ctx.records[rec]
    names = [f for f, _ in fields]
    if field not in names:
        raise Decline("field %s of %s" % (field, rec))
    i = names.index(field)
    ty = fields[i][1]
    if len(fields) == 2:
        return T("(%s %s)" % ("fst" if i == 0 else "snd", base), ty)
    raise Decline("records with %d fields" % len(fields))


def bind_all(ctx, args, build):
    """apply build (list of pure texts -> T) under binds of the impure arguments"""
    names, binds = [], []
    for a in args:
        if a.pure:
            names.append(a.text)
        else:
            x = ctx.gensym()
            names.append(x)
            binds.append((x, a.text))
    r = build(names)
    if not binds:
        return r
    inner = r.text if not r.pure else "(OK %s)" % r.text
    for x, t in reversed(binds):
        inner = "(bind %s (fun %s => %s))" % (t, x, inner)
    return T(inner, r.ty, False)


def to_z(ctx, t):
    if t.ty == "Z":
        return t
    if t.ty == "optZ":
        if t.pure:
            return T("(un_o %s)" % t.text, "Z", False)
        return T("(bind %s un_o)" % t.text, "Z", False)
    raise Decline("integer expected, got " + t.ty)


def to_optz(ctx, t):
    if t.ty == "optZ":
        return t
    if t.ty == "Z":
        return bind_all(ctx, [t], lambda n: T("(Some %s)" % n[0], "optZ"))
    raise Decline("int or None expected, got " + t.ty)


def to_bool(ctx, t):
    if t.ty == "bool":
        return t
    if t.ty == "zlist":
        return bind_all(ctx, [t], lambda n: T("(match %s with [] => false | _ => true end)" % n[0], "bool"))
    if t.ty == "optZ":
        return bind_all(ctx, [t], lambda n: T("(truthy_o %s)" % n[0], "bool"))
    if t.ty == "Z":
        return bind_all(ctx, [t], lambda n: T("(truthy_z %s)" % n[0], "bool"))
    raise Decline("truth value of " + t.ty)


def coerce(ctx, t, ty):
    if ty == "zlist":
        if t.ty != "zlist":
            raise Decline("list of ints expected, got " + t.ty)
        return t
    return {"Z": to_z, "optZ": to_optz, "bool": to_bool}[ty](ctx, t)


def lifted(t):
    return t.text if not t.pure else "(OK %s)" % t.text


def obj_expr(ctx, e):
    """an expression denoting a record-typed value: returns (recname, function field -> T)"""
    if isinstance(e, ast.Name):
        if e.id in ctx.objects:
            rec = ctx.objects[e.id]
            return rec, lambda f: T("(v_%s_%s s)" % (e.id, f), dict(ctx.records[rec])[f])
        p = ctx.params.get(e.id)
        if isinstance(p, tuple) and p[0] == "obj":
            return p[1], lambda f: proj(ctx, p[1], f, e.id)
        raise Decline("object name " + e.id)
    if isinstance(e, ast.Subscript) and isinstance(e.value, ast.Name) and isinstance(ctx.params.get(e.value.id), tuple) \
            and ctx.params[e.value.id][0] == "objlist":
        rec = ctx.params[e.value.id][1]
        ix = e.slice.value if isinstance(e.slice, ast.Index) else e.slice
        i = to_z(ctx, expr(ctx, ix))

        def get(f, lst=e.value.id, rec=rec, i=i):
            pr = proj(ctx, rec, f, "o__")
            return bind_all(ctx, [i], lambda n: T("(bind (name_at %s %s) (fun o__ => OK %s))" % (lst, n[0], pr.text), pr.ty, False))
        return rec, get
    if isinstance(e, ast.IfExp):
        c = to_bool(ctx, expr(ctx, e.test))
        ra, fa = obj_expr(ctx, e.body)
        rb, fb = obj_expr(ctx, e.orelse)
        if ra != rb:
            raise Decline("conditional between different records")

        def get(f):
            a, b = fa(f), fb(f)
            if a.ty != b.ty:
                raise Decline("field types")
            if c.pure and a.pure and b.pure:
                return T("(if %s then %s else %s)" % (c.text, a.text, b.text), a.ty)
            return T("(ite_r %s %s %s)" % (lifted(c), lifted(a), lifted(b)), a.ty, False)
        return ra, get
    raise Decline("object expression " + type(e).__name__)


def dict_field(ctx, e):
    """mapping.offset_to_line / mapping.offset_to_additional_line_offsets of a parameter declared as a line mapping"""
    if isinstance(e, ast.Attribute) and isinstance(e.value, ast.Name) and ctx.params.get(e.value.id) == "linemap":
        if e.attr == "offset_to_line":
            return ("(lm_lines %s)" % e.value.id, "odictOptZ")
        if e.attr == "offset_to_additional_line_offsets":
            return ("(lm_adds %s)" % e.value.id, "odictZlist")
    return None


ARITH = {ast.Add: "Z.add", ast.Sub: "Z.sub", ast.Mult: "Z.mul", ast.FloorDiv: "Z.div", ast.Mod: "Z.modulo",
         ast.BitAnd: "Z.land", ast.BitOr: "Z.lor", ast.LShift: "Z.shiftl", ast.RShift: "Z.shiftr"}
ORDER = {ast.Lt: "Z.ltb", ast.LtE: "Z.leb", ast.Gt: "Z.gtb", ast.GtE: "Z.geb"}


def expr(ctx, e):
    if ctx.reads and ast.dump(e) in ctx.reads:
        return ctx.reads[ast.dump(e)]
    if (isinstance(e, ast.Call) and isinstance(e.func, ast.Name) and e.func.id in ctx.calls and len(e.args) == 1 and not e.keywords):
        a = to_z(ctx, expr(ctx, e.args[0]))
        return bind_all(ctx, [a], lambda n: T("(%s %s)" % (ctx.calls[e.func.id], n[0]), "Z"))
    if isinstance(e, ast.BoolOp) and isinstance(e.op, ast.Or) and len(e.values) == 2:
        a, b = expr(ctx, e.values[0]), expr(ctx, e.values[1])
        if a.ty in ("optZ", "Z") and b.ty == "Z":
            # x or y in value position: x when it is truthy (not None, not 0), else y
            if a.ty == "optZ":
                return bind_all(ctx, [a, b], lambda n: T("(match %s with Some n__ => if n__ =? 0 then %s else n__ | None => %s end)" % (n[0], n[1], n[1]), "Z"))
            return bind_all(ctx, [a, b], lambda n: T("(if %s =? 0 then %s else %s)" % (n[0], n[1], n[0]), "Z"))
    if isinstance(e, ast.Constant):
        v = e.value
        if v is None:
            return T("None", "optZ")
        if isinstance(v, bool):
            return T("true" if v else "false", "bool")
        if isinstance(v, int):
            return T("(%d)" % v, "Z")
        raise Decline("constant %r" % (v,))
    if isinstance(e, ast.Name) and e.id in ctx.loopvars:
        return ctx.loopvars[e.id]
    if isinstance(e, ast.Name) and ctx.state.get(e.id) == "uZ":
        # a loop variable read after its loop: unbound (NameError) when the loop body never ran
        return T("(bound_z (v_%s s))" % e.id, "Z", False)
    if isinstance(e, ast.Name):
        if e.id in ctx.state:
            return T("(v_%s s)" % e.id, ctx.state[e.id])
        if e.id in ctx.params and isinstance(ctx.params[e.id], tuple) and ctx.params[e.id][0] in ("Z", "optZ", "bool"):
            return T(ctx.params[e.id][1], ctx.params[e.id][0])
        if e.id in ctx.params and not isinstance(ctx.params[e.id], tuple):
            return T(e.id, ctx.params[e.id])
        raise Decline("name " + e.id)
    if isinstance(e, ast.Attribute):
        if isinstance(e.value, ast.Name) and (e.value.id + "." + e.attr) in ctx.params:
            return T(ctx.params[e.value.id + "." + e.attr][1], ctx.params[e.value.id + "." + e.attr][0])
        rec, get = obj_expr(ctx, e.value)
        return get(e.attr)
    if isinstance(e, ast.Subscript) and isinstance(e.value, ast.Name) and ctx.params.get(e.value.id) == "bytes":
        ix = e.slice.value if isinstance(e.slice, ast.Index) else e.slice   # ast.Index before Python 3.9
        i = to_z(ctx, expr(ctx, ix))
        return bind_all(ctx, [i], lambda n: T("(byte_at %s %s)" % (e.value.id, n[0]), "Z", False))
    if isinstance(e, ast.UnaryOp):
        if isinstance(e.op, ast.USub):
            a = to_z(ctx, expr(ctx, e.operand))
            return bind_all(ctx, [a], lambda n: T("(- %s)" % n[0], "Z"))
        if isinstance(e.op, ast.Not):
            a = to_bool(ctx, expr(ctx, e.operand))
            return bind_all(ctx, [a], lambda n: T("(negb %s)" % n[0], "bool"))
        raise Decline("unary operator")
    if isinstance(e, ast.BinOp):
        if type(e.op) not in ARITH:
            raise Decline("operator " + type(e.op).__name__)
        a, b = to_z(ctx, expr(ctx, e.left)), to_z(ctx, expr(ctx, e.right))
        return bind_all(ctx, [a, b], lambda n: T("(%s %s %s)" % (ARITH[type(e.op)], n[0], n[1]), "Z"))
    if isinstance(e, ast.Compare):
        if len(e.ops) != 1:
            raise Decline("chained comparison")
        op = e.ops[0]
        a, b = expr(ctx, e.left), expr(ctx, e.comparators[0])
        if isinstance(op, (ast.Is, ast.IsNot)):
            if not (isinstance(e.comparators[0], ast.Constant) and e.comparators[0].value is None):
                raise Decline("is / is not with something other than None")
            if a.ty == "Z":
                r = bind_all(ctx, [a], lambda n: T("false", "bool"))
            elif a.ty == "optZ":
                r = bind_all(ctx, [a], lambda n: T("(is_none %s)" % n[0], "bool"))
            else:
                raise Decline("is None on " + a.ty)
            if isinstance(op, ast.IsNot):
                return bind_all(ctx, [r], lambda n: T("(negb %s)" % n[0], "bool"))
            return r
        if isinstance(op, (ast.Eq, ast.NotEq)):
            if a.ty == "bool" or b.ty == "bool":
                raise Decline("equality on booleans")
            if a.ty == "Z" and b.ty == "Z":
                r = bind_all(ctx, [a, b], lambda n: T("(Z.eqb %s %s)" % (n[0], n[1]), "bool"))
            elif a.ty == "optZ" and b.ty == "Z":
                r = bind_all(ctx, [a, b], lambda n: T("(opt_eqz %s %s)" % (n[0], n[1]), "bool"))
            elif a.ty == "Z" and b.ty == "optZ":
                r = bind_all(ctx, [a, b], lambda n: T("(opt_eqz %s %s)" % (n[1], n[0]), "bool"))
            else:
                r = bind_all(ctx, [a, b], lambda n: T("(opt_eqo %s %s)" % (n[0], n[1]), "bool"))
            if isinstance(op, ast.NotEq):
                return bind_all(ctx, [r], lambda n: T("(negb %s)" % n[0], "bool"))
            return r
        if type(op) in ORDER:
            a, b = to_z(ctx, a), to_z(ctx, b)
            return bind_all(ctx, [a, b], lambda n: T("(%s %s %s)" % (ORDER[type(op)], n[0], n[1]), "bool"))
        raise Decline("comparison " + type(op).__name__)
    if isinstance(e, ast.BoolOp):
        vals = [to_bool(ctx, expr(ctx, v)) for v in e.values]
        if all(v.pure for v in vals):
            op = " && " if isinstance(e.op, ast.And) else " || "
            return T("(" + op.join(v.text for v in vals) + ")", "bool")
        fn = "and_r" if isinstance(e.op, ast.And) else "or_r"
        acc = lifted(vals[-1])
        for v in reversed(vals[:-1]):
            acc = "(%s %s %s)" % (fn, lifted(v), acc)
        return T(acc, "bool", False)
    if isinstance(e, ast.IfExp):
        c = to_bool(ctx, expr(ctx, e.test))
        a, b = expr(ctx, e.body), expr(ctx, e.orelse)
        if a.ty != b.ty:
            if {a.ty, b.ty} == {"Z", "optZ"}:
                a, b = to_optz(ctx, a), to_optz(ctx, b)
            else:
                raise Decline("conditional expression of mixed types")
        if c.pure and a.pure and b.pure:
            return T("(if %s then %s else %s)" % (c.text, a.text, b.text), a.ty)
        return T("(ite_r %s %s %s)" % (lifted(c), lifted(a), lifted(b)), a.ty, False)
    if isinstance(e, ast.Call) and isinstance(e.func, ast.Name) and e.func.id == "cast" and len(e.args) == 2:
        return expr(ctx, e.args[1])  # typing.cast is the identity
    if isinstance(e, ast.Call) and isinstance(e.func, ast.Name) and e.func.id in ("sum", "list") and len(e.args) == 1 and not e.keywords:
        x = expr(ctx, e.args[0])
        if x.ty != "zlist":
            raise Decline("%s of %s" % (e.func.id, x.ty))
        if e.func.id == "list":
            return x
        return bind_all(ctx, [x], lambda n: T("(sumZ %s)" % n[0], "Z"))
    if (isinstance(e, ast.Call) and isinstance(e.func, ast.Name) and e.func.id == "len" and len(e.args) == 1
            and isinstance(e.args[0], ast.Name) and isinstance(ctx.params.get(e.args[0].id), tuple)
            and ctx.params[e.args[0].id][0] == "objlist"):
        return T("(zlen %s)" % e.args[0].id, "Z")
    if (isinstance(e, ast.Call) and isinstance(e.func, ast.Name) and e.func.id == "len" and len(e.args) == 1
            and isinstance(e.args[0], ast.Name) and ctx.state.get(e.args[0].id) == "zlist"):
        return T("(zlen (v_%s s))" % e.args[0].id, "Z")
    if isinstance(e, ast.List) and not e.elts:
        return T("[]", "zlist")
    # mapping.<dict field>.get(key, [])
    if (isinstance(e, ast.Call) and isinstance(e.func, ast.Attribute) and e.func.attr == "get" and len(e.args) == 2
            and isinstance(e.args[1], ast.List) and not e.args[1].elts and isinstance(e.func.value, ast.Attribute)
            and isinstance(e.func.value.value, ast.Name)):
        d = dict_field(ctx, e.func.value)
        if d is None or d[1] != "odictZlist":
            raise Decline("dict .get")
        k = to_z(ctx, expr(ctx, e.args[0]))
        return bind_all(ctx, [k], lambda n: T("(match oget %s %s with Some l => l | None => [] end)" % (d[0], n[0]), "zlist"))
    raise Decline("expression " + type(e).__name__)


def record_value(ctx, call, rec):
    """Rec(field=..., ...) -> pair in the declared field order"""
    if not (isinstance(call, ast.Call) and isinstance(call.func, ast.Name) and not call.args):
        raise Decline("record construction")
    kw = {k.arg: k.value for k in call.keywords}
    fields = ctx.records[rec]
    if set(kw) != {f for f, _ in fields}:
        raise Decline("fields of " + rec)
    vals = [coerce(ctx, expr(ctx, kw[f]), ty) for f, ty in fields]
    return bind_all(ctx, vals, lambda n: T("(" + ", ".join(n) + ")", rec))


def assign(ctx, target, value_t):
    """state update s -> res st for target := value"""
    if isinstance(target, ast.Name) and target.id in ctx.loopvars:
        raise Decline("assignment to a loop variable")
    if ctx.stores and ast.dump(target) in ctx.stores:
        fld, ty = ctx.stores[ast.dump(target)]
        v = coerce(ctx, value_t, ty)
    elif isinstance(target, ast.Name) and target.id in ctx.state:
        v = coerce(ctx, value_t, ctx.state[target.id])
        fld = "v_" + target.id
    elif isinstance(target, ast.Attribute) and isinstance(target.value, ast.Name) and target.value.id in ctx.objects:
        rec = ctx.objects[target.value.id]
        ty = dict(ctx.records[rec]).get(target.attr)
        if ty is None:
            raise Decline("field " + target.attr)
        v = coerce(ctx, value_t, ty)
        fld = "v_%s_%s" % (target.value.id, target.attr)
    else:
        raise Decline("assignment target " + ast.dump(target)[:60])
    r = bind_all(ctx, [v], lambda n: T("(set_%s s %s)" % (fld, n[0]), "st"))
    return lifted(r)


def stmts(ctx, body):
    """statement list -> Gallina term of type res st with the current state bound to s"""
    body = [s for s in body if not isinstance(s, (ast.Nonlocal, ast.Pass))
            and not (isinstance(s, ast.Expr) and isinstance(s.value, ast.Constant))]
    # x = items[i] : an immutable binding of a record of a parameter list for the rest of the block
    for i, s in enumerate(body):
        if (isinstance(s, ast.Assign) and len(s.targets) == 1 and isinstance(s.targets[0], ast.Name)
                and isinstance(s.value, ast.Subscript) and isinstance(s.value.value, ast.Name)
                and isinstance(ctx.params.get(s.value.value.id), tuple) and ctx.params[s.value.value.id][0] == "objlist"):
            name = s.targets[0].id
            if name in ctx.params or name in ctx.state:
                raise Decline("rebinding of " + name)
            for n in ast.walk(ast.Module(body=body[i + 1:], type_ignores=[])):
                if isinstance(n, ast.Name) and isinstance(n.ctx, ast.Store) and n.id == name:
                    raise Decline("the bound record is reassigned")
            ix = s.value.slice.value if isinstance(s.value.slice, ast.Index) else s.value.slice
            idx = to_z(ctx, expr(ctx, ix))
            first = stmts(ctx, body[:i]) if i else None
            ctx.params[name] = ("obj", ctx.params[s.value.value.id][1])
            rest = stmts(ctx, body[i + 1:])
            del ctx.params[name]
            inner = bind_all(ctx, [idx], lambda n: T("(bind (name_at %s %s) (fun %s => %s))" % (s.value.value.id, n[0], name, rest), "st", False))
            if first is None:
                return inner.text
            return "(bind %s (fun s => %s))" % (first, inner.text)
    parts = [stmt(ctx, s) for s in body]
    parts = [p for p in parts if p is not None]
    if not parts:
        return "(OK s)"
    acc = parts[-1]
    for p in reversed(parts[:-1]):
        acc = "(bind %s (fun s => %s))" % (p, acc)
    return acc


def stmt(ctx, s):
    # d[k] = v on a declared dict expression (an attribute of an object the fragment does not model)
    if (isinstance(s, ast.Assign) and len(s.targets) == 1 and isinstance(s.targets[0], ast.Subscript)
            and ast.dump(s.targets[0].value) in ctx.dicts):
        t = s.targets[0]
        nm, dty = ctx.dicts[ast.dump(t.value)]
        ix = t.slice.value if isinstance(t.slice, ast.Index) else t.slice
        k = to_z(ctx, expr(ctx, ix))
        v = to_optz(ctx, expr(ctx, s.value)) if dty == "odictOptZ" else coerce(ctx, expr(ctx, s.value), "zlist")
        r = bind_all(ctx, [k, v], lambda n: T("(set_v_%s s (oset (v_%s s) %s %s))" % (nm, nm, n[0], n[1]), "st"))
        return lifted(r)
    # d[k] = v on an ordered dict local
    if (isinstance(s, ast.Assign) and len(s.targets) == 1 and isinstance(s.targets[0], ast.Subscript)
            and isinstance(s.targets[0].value, ast.Name) and ctx.state.get(s.targets[0].value.id) == "odictOptZ"):
        t = s.targets[0]
        nm = t.value.id
        ix = t.slice.value if isinstance(t.slice, ast.Index) else t.slice
        k = to_z(ctx, expr(ctx, ix))
        v = to_optz(ctx, expr(ctx, s.value))
        r = bind_all(ctx, [k, v], lambda n: T("(set_v_%s s (oset (v_%s s) %s %s))" % (nm, nm, n[0], n[1]), "st"))
        return lifted(r)
    # d[k].append(x) on a defaultdict(list) local
    if (isinstance(s, ast.Expr) and isinstance(s.value, ast.Call) and isinstance(s.value.func, ast.Attribute)
            and s.value.func.attr == "append" and isinstance(s.value.func.value, ast.Subscript)
            and isinstance(s.value.func.value.value, ast.Name) and ctx.state.get(s.value.func.value.value.id) == "odictZlist"
            and len(s.value.args) == 1):
        t = s.value.func.value
        nm = t.value.id
        ix = t.slice.value if isinstance(t.slice, ast.Index) else t.slice
        k = to_z(ctx, expr(ctx, ix))
        v = to_z(ctx, expr(ctx, s.value.args[0]))
        r = bind_all(ctx, [k, v], lambda n: T("(set_v_%s s (adds_append (v_%s s) %s %s))" % (nm, nm, n[0], n[1]), "st"))
        return lifted(r)
    if isinstance(s, ast.Assign):
        if len(s.targets) != 1:
            raise Decline("multiple assignment targets")
        return assign(ctx, s.targets[0], expr(ctx, s.value))
    if isinstance(s, ast.AugAssign):
        load = ast.copy_location(ast.BinOp(left=_as_load(s.target), op=s.op, right=s.value), s)
        return assign(ctx, s.target, expr(ctx, load))
    if isinstance(s, ast.If):
        c = to_bool(ctx, expr(ctx, s.test))
        a = stmts(ctx, s.body)
        b = stmts(ctx, s.orelse) if s.orelse else "(OK s)"
        if c.pure:
            return "(if %s then %s else %s)" % (c.text, a, b)
        return "(bind %s (fun c => if c then %s else %s))" % (c.text, a, b)
    if isinstance(s, ast.While):
        if s.orelse:
            raise Decline("while/else")
        c = to_bool(ctx, expr(ctx, s.test))
        wbody = stmts(ctx, s.body)
        if getattr(ctx, "named_loops", None) is not None and getattr(ctx, "loops_take_fuel", False):
            k = len(ctx.named_loops) + 1
            outer = [(n, t.ty) for n, t in ctx.loopvars.items()]
            fparams = [(n, ty) for n, ty in ctx.params.items() if (isinstance(ty, str) and ty in ("linemap", "bytes", "Z", "bool", "optZ"))
                       or (isinstance(ty, tuple) and ty[0] in ("objlist", "obj"))]
            def coqty(ty):
                if isinstance(ty, tuple):
                    return "list (option Z * Z)" if ty[0] == "objlist" else "(option Z * Z)"
                return {"linemap": "linemap", "bytes": "list Z"}.get(ty, COQ_TY.get(ty, ty))
            sig = " ".join("(%s : %s)" % (n, coqty(ty)) for n, ty in fparams + outer)
            args = " ".join(n for n, _ in fparams + outer)
            ctx.named_loops.append("Definition while%d_cond (fuel : nat) %s (s : st) : res bool :=\n  %s.\n"
                                   "Definition while%d_body (fuel : nat) %s (s : st) : res st :=\n  %s." % (k, sig, lifted(c), k, sig, wbody))
            return "(while_ fuel (while%d_cond fuel %s) (while%d_body fuel %s) s)" % (k, args, k, args)
        return "(while_ fuel (fun s => %s) (fun s => %s) s)" % (lifted(c), wbody)
    if (isinstance(s, ast.Expr) and isinstance(s.value, ast.Call) and isinstance(s.value.func, ast.Attribute)
            and s.value.func.attr == "insert"):
        return insert_front(ctx, s)
    if (isinstance(s, ast.Expr) and isinstance(s.value, ast.Call) and isinstance(s.value.func, ast.Attribute)
            and s.value.func.attr == "append" and isinstance(s.value.func.value, ast.Name)
            and ctx.state.get(s.value.func.value.id) == "zlist" and len(s.value.args) == 1):
        return append_int(ctx, s)
    if isinstance(s, ast.Expr) and isinstance(s.value, ast.Call):
        call = s.value
        if isinstance(call.func, ast.Name) and call.func.id in ctx.closures and not call.args and not call.keywords:
            return "(%s s)" % ctx.closures[call.func.id]
        if (isinstance(call.func, ast.Attribute) and call.func.attr == "append" and isinstance(call.func.value, ast.Name)
                and call.func.value.id in ctx.out_lists and len(call.args) == 1):
            lst = call.func.value.id
            v = record_value(ctx, call.args[0], ctx.out_lists[lst])
            r = bind_all(ctx, [v], lambda n: T("(set_v_%s s (v_%s s ++ [%s]))" % (lst, lst, n[0]), "st"))
            return lifted(r)
        raise Decline("call statement " + ast.dump(call)[:60])
    if isinstance(s, ast.Expr) and isinstance(s.value, ast.Yield) and ctx.yield_arity:
        v = s.value.value
        if not (isinstance(v, ast.Tuple) and len(v.elts) == ctx.yield_arity):
            raise Decline("yield of something other than a %d-tuple" % ctx.yield_arity)
        vals = [to_z(ctx, expr(ctx, x)) for x in v.elts]
        r = bind_all(ctx, vals, lambda n: T("(set_v_out s (v_out s ++ [(%s)]))" % ", ".join(n), "st"))
        return lifted(r)
    if isinstance(s, ast.For):
        return for_loop(ctx, s)
    if (isinstance(s, ast.Expr) and isinstance(s.value, ast.Call) and isinstance(s.value.func, ast.Attribute)
            and s.value.func.attr == "insert" and isinstance(s.value.func.value, ast.Name)
            and ctx.state.get(s.value.func.value.id) == "zlist" and len(s.value.args) == 2
            and isinstance(s.value.args[0], ast.Constant) and s.value.args[0].value == 0):
        nm = s.value.func.value.id
        v = to_z(ctx, expr(ctx, s.value.args[1]))
        r = bind_all(ctx, [v], lambda n: T("(set_v_%s s (%s :: v_%s s))" % (nm, n[0], nm), "st"))
        return lifted(r)
    if isinstance(s, ast.FunctionDef):
        return None  # closures are translated separately
    raise Decline("statement " + type(s).__name__)


def append_int(ctx, s):
    c = s.value
    nm = c.func.value.id
    v = to_z(ctx, expr(ctx, c.args[0]))
    r = bind_all(ctx, [v], lambda n: T("(set_v_%s s (v_%s s ++ [%s]))" % (nm, nm, n[0]), "st"))
    return lifted(r)


def insert_front(ctx, s):
    c = s.value
    if not (isinstance(c.func.value, ast.Name) and ctx.state.get(c.func.value.id) == "zlist" and len(c.args) == 2
            and isinstance(c.args[0], ast.Constant) and c.args[0].value == 0):
        raise Decline("insert")
    nm = c.func.value.id
    v = to_z(ctx, expr(ctx, c.args[1]))
    r = bind_all(ctx, [v], lambda n: T("(set_v_%s s (%s :: v_%s s))" % (nm, n[0], nm), "st"))
    return lifted(r)


def _plain_range(it):
    """range(n) / range(a, b) / reversed(range(...)) -> (reversed?, args) or None"""
    rev = False
    if isinstance(it, ast.Call) and isinstance(it.func, ast.Name) and it.func.id == "reversed" and len(it.args) == 1:
        rev, it = True, it.args[0]
    if isinstance(it, ast.Call) and isinstance(it.func, ast.Name) and it.func.id == "range" and len(it.args) in (1, 2) and not it.keywords:
        return rev, it.args
    return None


def for_loop(ctx, s):
    """for x in <list>: body  ->  foldM over the list; the loop variables are binders inside the body and, when
    declared in the state (type uZ), are recorded there so that they can be read after the loop"""
    if s.orelse:
        raise Decline("for/else")
    it = s.iter
    binder, new, objparam = None, {}, None
    if (isinstance(it, ast.Call) and isinstance(it.func, ast.Attribute) and it.func.attr == "items" and not it.args
            and dict_field(ctx, it.func.value) and dict_field(ctx, it.func.value)[1] == "odictOptZ"):
        lst = dict_field(ctx, it.func.value)[0]
        if not (isinstance(s.target, ast.Tuple) and len(s.target.elts) == 2 and all(isinstance(x, ast.Name) for x in s.target.elts)):
            raise Decline("loop target over dict items")
        k, v = s.target.elts[0].id, s.target.elts[1].id
        binder = "'(%s, %s)" % (k, v)
        new = {k: T(k, "Z"), v: T(v, "optZ")}
    elif (isinstance(it, ast.Name) and isinstance(ctx.params.get(it.id), tuple) and ctx.params[it.id][0] == "objlist"
          and isinstance(s.target, ast.Name)):
        lst = it.id
        binder = s.target.id
        objparam = (s.target.id, ("obj", ctx.params[it.id][1]))
    elif (isinstance(it, ast.Call) and isinstance(it.func, ast.Name) and it.func.id == "range" and len(it.args) == 3
          and isinstance(it.args[2], ast.Constant) and it.args[2].value == 2 and isinstance(s.target, ast.Name)):
        a, b = to_z(ctx, expr(ctx, it.args[0])), to_z(ctx, expr(ctx, it.args[1]))
        if not (a.pure and b.pure):
            raise Decline("range bounds that can raise")
        lst = "(range2 %s %s)" % (a.text, b.text)
        binder = s.target.id
        new = {s.target.id: T(s.target.id, "Z")}
    elif (isinstance(s.target, ast.Name) and _plain_range(it) is not None):
        rev, rargs = _plain_range(it)
        bounds = [to_z(ctx, expr(ctx, x)) for x in rargs]
        if not all(b.pure for b in bounds):
            raise Decline("range bounds that can raise")
        lo, hi = ("0", bounds[0].text) if len(bounds) == 1 else (bounds[0].text, bounds[1].text)
        lst = "(zrange %s %s)" % (lo, hi)
        if rev:
            lst = "(rev %s)" % lst
        binder = s.target.id
        new = {s.target.id: T(s.target.id, "Z")}
    elif isinstance(it, ast.Name) and ctx.state.get(it.id) == "zlist" and isinstance(s.target, ast.Name):
        lst = "(v_%s s)" % it.id
        for n in ast.walk(s):
            if isinstance(n, ast.Name) and isinstance(n.ctx, ast.Store) and n.id == it.id:
                raise Decline("the iterated list is reassigned in the loop")
        binder = s.target.id
        new = {s.target.id: T(s.target.id, "Z")}
    else:
        raise Decline("loop over " + ast.dump(it)[:60])
    for n in new:
        if n in ctx.loopvars or n in ctx.params:
            raise Decline("loop variable shadows a name")
    saved = dict(ctx.loopvars)
    ctx.loopvars.update(new)
    if objparam:
        if objparam[0] in ctx.params:
            raise Decline("loop variable shadows a name")
        ctx.params[objparam[0]] = objparam[1]
    record = [n for n in new if ctx.state.get(n) == "uZ"]
    body = stmts(ctx, s.body)
    for n in reversed(record):
        body = "(bind (OK (set_v_%s s (Some %s))) (fun s => %s))" % (n, n, body)
    ctx.loopvars = saved
    if objparam:
        del ctx.params[objparam[0]]
    if getattr(ctx, "named_loops", None) is not None:
        # the body becomes a definition of its own (so that lemmas can be stated about it): parameters are the
        # function's variable parameters and the variables of the enclosing loops
        k = len(ctx.named_loops) + 1
        name = "loop%d_body" % k
        outer = [(n, t.ty) for n, t in saved.items()]
        fparams = [(n, ty) for n, ty in ctx.params.items() if (isinstance(ty, str) and ty in ("linemap", "bytes", "Z", "bool", "optZ"))
                   or (isinstance(ty, tuple) and ty[0] in ("objlist", "obj"))]
        def coqty(ty):
            if isinstance(ty, tuple):
                return "list (option Z * Z)" if ty[0] == "objlist" else "(option Z * Z)"
            return {"linemap": "linemap", "bytes": "list Z"}.get(ty, COQ_TY.get(ty, ty))
        sig = " ".join("(%s : %s)" % (n, coqty(ty)) for n, ty in fparams + outer)
        args = " ".join(n for n, _ in fparams + outer)
        bty = "(kv : Z * option Z)" if binder.startswith("'") else ("(%s : option Z * Z)" % binder if objparam else "(%s : Z)" % binder)
        pre = "let %s := kv in " % binder if binder.startswith("'") else ""
        if getattr(ctx, "loops_take_fuel", False):
            ctx.named_loops.append("Definition %s (fuel : nat) %s (s : st) %s : res st :=\n  %s%s." % (name, sig, bty, pre, body))
            return "(foldM (%s fuel %s) %s s)" % (name, args, lst)
        ctx.named_loops.append("Definition %s %s (s : st) %s : res st :=\n  %s%s." % (name, sig, bty, pre, body))
        return "(foldM (%s %s) %s s)" % (name, args, lst)
    return "(foldM (fun s %s => %s) %s s)" % (binder, body, lst)


def _as_load(t):
    if isinstance(t, ast.Name):
        return ast.Name(id=t.id, ctx=ast.Load())
    if isinstance(t, ast.Attribute):
        return ast.Attribute(value=t.value, attr=t.attr, ctx=ast.Load())
    raise Decline("augmented assignment target")


COQ_TY = {"Z": "Z", "optZ": "option Z", "bool": "bool", "zlist": "list Z", "uZ": "option Z",
          "odictOptZ": "odict (option Z)", "odictZlist": "odict (list Z)"}
DEFAULT = {"Z": "0", "optZ": "None", "bool": "false", "zlist": "[]", "uZ": "None", "odictOptZ": "[]", "odictZlist": "[]"}


def record_decl(fields):
    """fields: [(name, coq type, default)] -> Record st + setters + init"""
    out = ["Record st := mk_st { %s }." % "; ".join("%s : %s" % (n, t) for n, t, _ in fields)]
    for n, _, _ in fields:
        out.append("Definition set_%s (s : st) (x : _) : st := mk_st %s." % (
            n, " ".join("x" if m == n else "(%s s)" % m for m, _, _ in fields)))
    out.append("Definition init : st := mk_st %s." % " ".join(d for _, _, d in fields))
    return "\n".join(out)


def find_def(body, name):
    for n in body:
        if isinstance(n, ast.FunctionDef) and n.name == name:
            if n.decorator_list:
                raise Decline("decorated function " + name)
            return n
    raise Decline("no function " + name)


# ---------------------------------------------------------------------------------------------------------
# expand_items

RECORDS = {"citem": [("line_offset", "optZ"), ("bytecode_offset", "Z")],
           "eitem": [("line_offset", "Z"), ("bytecode_offset", "Z")]}


def translate_expand_items(tree):
    f = find_def(tree.body, "expand_items")
    argn = [a.arg for a in f.args.args]
    if argn != ["items", "is_linetable"]:
        raise Decline("signature of expand_items")
    body = [s for s in f.body if not (isinstance(s, ast.Expr) and isinstance(s.value, ast.Constant))]
    # expanded_items = cast(ExpandedItems, [])
    s0 = body[0]
    if not (isinstance(s0, ast.Assign) and isinstance(s0.targets[0], ast.Name)):
        raise Decline("first statement of expand_items")
    out_name = s0.targets[0].id
    v = s0.value
    if isinstance(v, ast.Call) and isinstance(v.func, ast.Name) and v.func.id == "cast":
        v = v.args[1]
    if not (isinstance(v, ast.List) and not v.elts):
        raise Decline("initial value of the output list")
    # immutable locals bound before the loop
    lets = []
    i = 1
    params = {"is_linetable": "bool"}
    pctx = Ctx({}, params, {}, RECORDS, {})
    while i < len(body) and isinstance(body[i], ast.Assign):
        t = body[i].targets[0]
        if not isinstance(t, ast.Name):
            raise Decline("binding before the loop")
        e = expr(pctx, body[i].value)
        if not e.pure:
            raise Decline("binding that can raise")
        lets.append((t.id, e))
        params[t.id] = e.ty
        i += 1
    if not (i + 2 == len(body) and isinstance(body[i], ast.For) and isinstance(body[i + 1], ast.Return)):
        raise Decline("shape of expand_items")
    loop, ret = body[i], body[i + 1]
    if not (isinstance(ret.value, ast.Name) and ret.value.id == out_name):
        raise Decline("return value of expand_items")
    if not (isinstance(loop.iter, ast.Name) and loop.iter.id == "items" and isinstance(loop.target, ast.Name)
            and not loop.orelse):
        raise Decline("loop header of expand_items")
    item = loop.target.id
    # the mutable locals of the loop body: everything assigned in it or in its closures
    assigned = {}
    for n in ast.walk(loop):
        tg = None
        if isinstance(n, ast.Assign) and len(n.targets) == 1:
            tg = n.targets[0]
        elif isinstance(n, ast.AugAssign):
            tg = n.target
        if isinstance(tg, ast.Name):
            assigned.setdefault(tg.id, None)
    known = {"line_offset": "optZ", "bytecode_offset": "Z", "emitted_extra": "bool"}
    for a in assigned:
        if a not in known:
            raise Decline("undeclared local " + a)
        if a in params:
            raise Decline("reassigned binding " + a)
    state = {a: known[a] for a in sorted(assigned)}
    params2 = dict(params)
    params2[item] = ("obj", "citem")
    ctx = Ctx(state, params2, {}, RECORDS, {out_name: "eitem"})
    fields = [("v_" + a, COQ_TY[t], DEFAULT[t]) for a, t in state.items()] + [("v_" + out_name, "list (Z * Z)", "[]")]
    pnames = " ".join("(%s : %s)" % (n, COQ_TY[t]) for n, t in params.items())
    pargs = " ".join(params)
    out = ["Module ExpandItems.", record_decl(fields)]
    for s in loop.body:
        if isinstance(s, ast.FunctionDef):
            if s.args.args or s.args.kwonlyargs or s.args.vararg or s.args.kwarg:
                raise Decline("closure with parameters")
            ctx.closures[s.name] = "%s fuel %s %s" % (s.name, pargs, item)
            out.append("Definition %s (fuel : nat) %s (%s : option Z * Z) (s : st) : res st :=\n  %s." % (
                s.name, pnames, item, stmts(ctx, s.body)))
    out.append("Definition item_body (fuel : nat) %s (s : st) (%s : option Z * Z) : res st :=\n  %s." % (
        pnames, item, stmts(ctx, loop.body)))
    lets_txt = "".join("let %s := %s in\n  " % (n, e.text) for n, e in lets)
    out.append("Definition expand_items (fuel : nat) (items : list (option Z * Z)) (is_linetable : bool) : res (list (Z * Z)) :=\n"
               "  %sbind (foldM (item_body fuel %s) items init) (fun s => OK (v_%s s))." % (lets_txt, pargs, out_name))
    out.append("End ExpandItems.")
    return "\n".join(out) + "\n"


# ---------------------------------------------------------------------------------------------------------
# collapse_items: the comprehension, the two split conditions and the merge of the loop body

def translate_collapse_items(tree):
    f = find_def(tree.body, "collapse_items")
    if [a.arg for a in f.args.args] != ["items", "is_linetable"]:
        raise Decline("signature of collapse_items")
    body = [s for s in f.body if not (isinstance(s, ast.Expr) and isinstance(s.value, ast.Constant))]
    if len(body) != 3:
        raise Decline("shape of collapse_items")
    comp, loop, ret = body
    # collapsed_items = [CollapsedLineTableItem(...) for i in items]
    if not (isinstance(comp, ast.Assign) and isinstance(comp.targets[0], ast.Name) and isinstance(comp.value, ast.ListComp)
            and len(comp.value.generators) == 1):
        raise Decline("comprehension of collapse_items")
    lst = comp.targets[0].id
    g = comp.value.generators[0]
    if not (isinstance(g.iter, ast.Name) and g.iter.id == "items" and isinstance(g.target, ast.Name) and not g.ifs):
        raise Decline("generator of the comprehension")
    ctx0 = Ctx({}, {"is_linetable": "bool", g.target.id: ("obj", "eitem")}, {}, RECORDS, {})
    to_c = record_value(ctx0, comp.value.elt, "citem")
    out = ["Module CollapseItems.",
           "Definition to_citem (is_linetable : bool) (%s : Z * Z) : res (option Z * Z) := %s." % (g.target.id, lifted(to_c))]
    # for i in range(len(items) - 1, 0, -1):
    if not (isinstance(loop, ast.For) and isinstance(loop.target, ast.Name) and isinstance(loop.iter, ast.Call)
            and isinstance(loop.iter.func, ast.Name) and loop.iter.func.id == "range" and len(loop.iter.args) == 3):
        raise Decline("loop of collapse_items")
    iv = loop.target.id
    a0, a1, a2 = loop.iter.args
    want0 = ast.dump(ast.parse("len(items) - 1", mode="eval").body)
    if not (ast.dump(a0) == want0 and isinstance(a1, ast.Constant) and a1.value == 0
            and isinstance(a2, ast.UnaryOp) and isinstance(a2.op, ast.USub) and isinstance(a2.operand, ast.Constant)
            and a2.operand.value == 1):
        raise Decline("range of the loop of collapse_items")
    lb = list(loop.body)

    def is_index_assign(s, offset):
        want = "%s[%s]" % (lst, iv) if offset == 0 else "%s[%s - 1]" % (lst, iv)
        return (isinstance(s, ast.Assign) and isinstance(s.targets[0], ast.Name)
                and ast.dump(s.value) == ast.dump(ast.parse(want, mode="eval").body))
    if not (len(lb) == 5 and is_index_assign(lb[0], 0) and is_index_assign(lb[1], 1)):
        raise Decline("item / prev_item bindings")
    item, prev = lb[0].targets[0].id, lb[1].targets[0].id
    ctx1 = Ctx({}, {"is_linetable": "bool", item: ("obj", "citem"), prev: ("obj", "citem")}, {}, RECORDS, {})
    conds = []
    for s in lb[2:4]:
        if not (isinstance(s, ast.Assign) and isinstance(s.targets[0], ast.Name)):
            raise Decline("split conditions")
        c = to_bool(ctx1, expr(ctx1, s.value))
        conds.append(s.targets[0].id)
        out.append("Definition %s (is_linetable : bool) (%s %s : option Z * Z) : res bool :=\n  %s." % (
            s.targets[0].id, prev, item, lifted(c)))
    iff = lb[4]
    want_test = ast.dump(ast.parse("%s or %s" % tuple(conds), mode="eval").body)
    if not (isinstance(iff, ast.If) and ast.dump(iff.test) == want_test and not iff.orelse):
        raise Decline("merge condition")
    mb = list(iff.body)
    want_del = ast.dump(ast.parse("del %s[%s]" % (lst, iv)).body[0])
    if not (mb and ast.dump(mb[0]) == want_del):
        raise Decline("deletion of the merged item")
    ctx2 = Ctx({}, {"is_linetable": "bool", item: ("obj", "citem")}, {prev: "citem"}, RECORDS, {})
    fields = [("v_%s_%s" % (prev, fn), COQ_TY[ty], DEFAULT[ty]) for fn, ty in RECORDS["citem"]]
    out.append(record_decl(fields))
    out.append("Definition merge (is_linetable : bool) (%s : option Z * Z) (s : st) : res st :=\n  %s." % (item, stmts(ctx2, mb[1:])))
    out.append("Definition merge_items (is_linetable : bool) (%s %s : option Z * Z) : res (option Z * Z) :=\n"
               "  bind (merge is_linetable %s (mk_st (fst %s) (snd %s))) (fun s => OK (v_%s_line_offset s, v_%s_bytecode_offset s))."
               % (prev, item, item, prev, prev, prev, prev))
    if not (isinstance(ret, ast.Return) and isinstance(ret.value, ast.Name) and ret.value.id == lst):
        raise Decline("return of collapse_items")
    out.append("End CollapseItems.")
    return "\n".join(out) + "\n"


# ---------------------------------------------------------------------------------------------------------
# mapping_to_items: both branches (co_linetable sections, co_lnotab entries)

M2I_TYPES = {"section_bytecode_offset": "optZ", "section_line_number": "optZ", "last_section_line_number": "Z",
             "section_line_number_diff": "optZ", "switching_sections": "bool",
             "last_line_number": "Z", "last_bytecode_offset": "Z", "additional_line_offsets": "zlist",
             "first_line_offset": "Z", "all_line_offsets": "zlist"}


def translate_branch(modname, body, out_name, lt_value):
    """statements ending in `return <out_name>` -> Module with a state record and `run`"""
    if not (body and isinstance(body[-1], ast.Return) and isinstance(body[-1].value, ast.Name) and body[-1].value.id == out_name):
        raise Decline("return of a branch of mapping_to_items")
    body = body[:-1]
    assigned, loopnames = [], set()
    for st in body:
        for n in ast.walk(st):
            if isinstance(n, ast.For):
                for x in ast.walk(n.target):
                    if isinstance(x, ast.Name):
                        loopnames.add(x.id)
    for st in body:
        for n in ast.walk(st):
            if isinstance(n, ast.Name) and isinstance(n.ctx, ast.Store) and n.id not in loopnames and n.id not in assigned:
                assigned.append(n.id)
    state = {}
    for a in sorted(assigned):
        if a not in M2I_TYPES:
            raise Decline("undeclared local " + a)
        state[a] = M2I_TYPES[a]
    # loop variables read outside their loop (after it): recorded in the state
    outside = set()
    def scan(stmts_, inside):
        for st in stmts_:
            if isinstance(st, ast.For):
                names = {x.id for x in ast.walk(st.target) if isinstance(x, ast.Name)}
                scan(st.body, inside | names)
            else:
                subs = [getattr(st, "body", []), getattr(st, "orelse", [])]
                own = ast.copy_location(ast.Module(body=[], type_ignores=[]), st)
                for n in ast.walk(st):
                    if isinstance(n, ast.Name) and isinstance(n.ctx, ast.Load) and n.id in loopnames and n.id not in inside:
                        outside.add(n.id)
    # simple version: a loop variable name loaded in a top-level statement that is not a For
    for st in body:
        if not isinstance(st, ast.For):
            for n in ast.walk(st):
                if isinstance(n, ast.Name) and isinstance(n.ctx, ast.Load) and n.id in loopnames:
                    outside.add(n.id)
    for n in outside:
        state[n] = "uZ"
    params = {"is_linetable": ("bool", lt_value), "mapping": "linemap"}
    ctx = Ctx(state, params, {}, RECORDS, {out_name: "citem"})
    ctx.named_loops = []
    fields = [("v_" + a, COQ_TY[t], DEFAULT[t]) for a, t in state.items()] + [("v_" + out_name, "list (option Z * Z)", "[]")]
    # before the (single) top-level loop, the loop, after it
    loops = [i for i, st in enumerate(body) if isinstance(st, ast.For)]
    if len(loops) != 1:
        raise Decline("number of top-level loops")
    i = loops[0]
    pre, loop, post = stmts(ctx, body[:i]), stmts(ctx, [body[i]]), stmts(ctx, body[i + 1:])
    defs = "\n".join(ctx.named_loops)
    return ("Module %s.\n%s\n%s\n"
            "Definition pre (mapping : linemap) (s : st) : res st :=\n  %s.\n"
            "Definition loop (mapping : linemap) (s : st) : res st :=\n  %s.\n"
            "Definition post (mapping : linemap) (s : st) : res st :=\n  %s.\n"
            "Definition run (mapping : linemap) : res (list (option Z * Z)) :=\n"
            "  bind (pre mapping init) (fun s => bind (loop mapping s) (fun s => bind (post mapping s) (fun s => OK (v_%s s)))).\nEnd %s.\n"
            % (modname, record_decl(fields), defs, pre, loop, post, out_name, modname))


def translate_mapping_to_items(tree):
    f = find_def(tree.body, "mapping_to_items")
    if [a.arg for a in f.args.args] != ["mapping", "is_linetable"]:
        raise Decline("signature of mapping_to_items")
    body = [s for s in f.body if not (isinstance(s, ast.Expr) and isinstance(s.value, ast.Constant))]
    s0 = body[0]
    if not (isinstance(s0, ast.Assign) and isinstance(s0.targets[0], ast.Name)):
        raise Decline("first statement of mapping_to_items")
    out_name = s0.targets[0].id
    v = s0.value
    if isinstance(v, ast.Call) and isinstance(v.func, ast.Name) and v.func.id == "cast":
        v = v.args[1]
    if not (isinstance(v, ast.List) and not v.elts):
        raise Decline("initial value of the output list")
    br = body[1]
    if not (isinstance(br, ast.If) and isinstance(br.test, ast.Name) and br.test.id == "is_linetable" and not br.orelse):
        raise Decline("branch on is_linetable")
    a = translate_branch("MappingToItemsLt", list(br.body), out_name, "true")
    b = translate_branch("MappingToItemsLnotab", body[2:], out_name, "false")
    return a + b


# ---------------------------------------------------------------------------------------------------------
# _blocks.bytes_to_blocks: the body of the first loop after the call of to_arg (size override of jumps, the line
# entries popped out of the mapping for the instruction and for its EXTENDED_ARG prefixes)

def translate_decode_step(tree):
    f = find_def(tree.body, "bytes_to_blocks")
    loops = [s for s in f.body if isinstance(s, ast.For) and ast.dump(s.iter) == _load("_parse_bytes(b)")]
    if len(loops) != 1:
        raise Decline("the decoding loop of bytes_to_blocks")
    loop = loops[0]
    want_t = ast.dump(ast.parse("for opcode, arg, n_args, offset, next_offset in x: pass").body[0].target)
    if ast.dump(loop.target) != want_t or loop.orelse:
        raise Decline("header of the decoding loop")
    body = [s for s in loop.body if not (isinstance(s, ast.Expr) and isinstance(s.value, ast.Constant))]
    if len(body) != 5:
        raise Decline("statements of the decoding loop: %d" % len(body))
    s_arg, s_if, s_ins, s_app, s_for = body
    if not (isinstance(s_arg, ast.Assign) and isinstance(s_arg.targets[0], ast.Name) and s_arg.targets[0].id == "processed_arg"
            and isinstance(s_arg.value, ast.Call) and isinstance(s_arg.value.func, ast.Name) and s_arg.value.func.id == "to_arg"):
        raise Decline("processed_arg = to_arg(...)")
    want_args = ["opcode", "arg", "next_offset", "found_names", "found_varnames", "freevars", "found_cellvars", "found_constants"]
    got_args = [ast.dump(a) for a in s_arg.value.args]
    # the third argument - the base relative jumps are resolved against - is translated; the others are compared
    if (len(got_args) != len(want_args) or s_arg.value.keywords
            or [g for k, g in enumerate(got_args) if k != 2] != [_load(n) for k, n in enumerate(want_args) if k != 2]):
        raise Decline("arguments of to_arg")
    # instruction = Instruction(name=dis.opname[opcode], arg=processed_arg, _n_args_override=n_args_override,
    #                           line_number=<pop>, _line_offsets_override=tuple(<pop with default>))
    want_ins = ("instruction = Instruction(name=dis.opname[opcode], arg=processed_arg, _n_args_override=n_args_override, "
                "line_number=line_mapping.offset_to_line.pop(offset), "
                "_line_offsets_override=tuple(line_mapping.offset_to_additional_line_offsets.pop(offset, [])))")
    if ast.dump(s_ins) != ast.dump(ast.parse(want_ins).body[0]):
        raise Decline("construction of the instruction")
    if ast.dump(s_app) != ast.dump(ast.parse("offsets_and_instruction.append((offset, instruction))").body[0]):
        raise Decline("append of the instruction")
    want_for = ("for i in range(offset + 2, next_offset, 2):\n    line_mapping.offset_to_line.pop(i, None)\n"
                "    line_mapping.offset_to_additional_line_offsets.pop(i, None)")
    if ast.dump(s_for) != ast.dump(ast.parse(want_for).body[0]):
        raise Decline("removal of the entries of the prefixes")
    # the if statement is translated by the fragment: n_args_override, targets
    state = {"n_args_override": "optZ", "targets_set": "zlist"}
    params = {"is_jump": "bool", "jump_target": "Z", "n_args": "Z", "a": "Z", "offset": "Z", "next_offset": "Z"}
    ctx = Ctx(state, params, {}, RECORDS, {})
    ctx.reads = {_load("isinstance(processed_arg, Jump)"): T("is_jump", "bool"), _load("processed_arg.target"): T("jump_target", "Z"),
                 _load("arg"): T("a", "Z")}
    ctx.calls = {"_instrsize": "PCD.Gen.Src.instrsize"}
    # targets_set.add(x)
    class AddToAppend(ast.NodeTransformer):
        def visit_Expr(self, node):
            c = node.value
            if (isinstance(c, ast.Call) and isinstance(c.func, ast.Attribute) and c.func.attr == "add" and isinstance(c.func.value, ast.Name)
                    and c.func.value.id == "targets_set" and len(c.args) == 1):
                return ast.copy_location(ast.Expr(value=ast.Call(func=ast.Attribute(value=ast.Name(id="targets_set", ctx=ast.Load()), attr="insert", ctx=ast.Load()),
                                                                 args=[ast.Constant(value=0), c.args[0]], keywords=[])), node)
            return node
    s_if2 = AddToAppend().visit(s_if)
    ast.fix_missing_locations(s_if2)
    for n in ast.walk(s_if2):
        if isinstance(n, ast.Name) and isinstance(n.ctx, ast.Store) and n.id not in state:
            raise Decline("local of the decoding loop: " + n.id)
    text = stmts(ctx, [s_if2])
    bctx = Ctx({}, {"offset": "Z", "next_offset": "Z", "n_args": "Z"}, {}, RECORDS, {})
    base = expr(bctx, s_arg.value.args[2])
    if base.ty != "Z":
        raise Decline("base of the relative jumps")
    fields = [("v_" + a, COQ_TY[t], DEFAULT[t]) for a, t in state.items()]
    return ("Module DecodeStep.\n%s\n"
            "Definition size_and_targets (is_jump : bool) (jump_target n_args a offset next_offset : Z) (s : st) : res st :=\n  %s.\n"
            "(* the offset passed to to_arg, against which relative jumps are resolved *)\n"
            "Definition jump_base (n_args offset next_offset : Z) : Z := %s.\n"
            "End DecodeStep.\n" % (record_decl(fields), text, base.text))


# ---------------------------------------------------------------------------------------------------------
# _blocks.bytes_to_blocks: the second loop - a new block at every instruction whose offset is a target, jump operands
# rewritten from byte offsets to block indices

def translate_split_blocks(tree):
    f = find_def(tree.body, "bytes_to_blocks")
    body = list(f.body)
    idx = [i for i, s in enumerate(body) if isinstance(s, ast.For) and ast.dump(s.iter) == _load("offsets_and_instruction")]
    if len(idx) != 1:
        raise Decline("the block-building loop")
    loop = body[idx[0]]
    if ast.dump(loop.target) != ast.dump(ast.parse("for offset, instruction in x: pass").body[0].target) or loop.orelse:
        raise Decline("header of the block-building loop")
    # what precedes the loop, back to the end of the decoding loop: targets = <expr>; del targets_set; declarations; blocks = []
    pre = []
    j = idx[0] - 1
    while j >= 0 and not isinstance(body[j], ast.For):
        pre.insert(0, body[j])
        j -= 1
    targets_expr = None
    blocks_init = False
    for st in pre:
        if isinstance(st, ast.Assign) and len(st.targets) == 1 and isinstance(st.targets[0], ast.Name) and st.targets[0].id == "targets":
            targets_expr = st.value
        elif isinstance(st, ast.Delete) and ast.dump(st) == ast.dump(ast.parse("del targets_set").body[0]):
            pass
        elif isinstance(st, ast.AnnAssign) and isinstance(st.target, ast.Name) and st.target.id == "block" and st.value is None:
            pass
        elif (isinstance(st, (ast.AnnAssign, ast.Assign)) and isinstance(st.value, ast.List) and not st.value.elts
              and (st.target if isinstance(st, ast.AnnAssign) else st.targets[0]).id == "blocks"):
            blocks_init = True
        else:
            raise Decline("statement before the block-building loop: " + type(st).__name__)
    if targets_expr is None or not blocks_init:
        raise Decline("targets / blocks initialisation")
    # targets = sorted(targets_set)   (variation: a list concatenated in front)
    def tx(e):
        if ast.dump(e) == _load("sorted(targets_set)"):
            return "(sorted_set targets_set)"
        if isinstance(e, ast.BinOp) and isinstance(e.op, ast.Add) and isinstance(e.left, ast.List) \
                and all(isinstance(x, ast.Constant) and isinstance(x.value, int) for x in e.left.elts):
            return "([%s] ++ %s)" % ("; ".join("(%d)" % x.value for x in e.left.elts), tx(e.right))
        if isinstance(e, ast.List) and e.elts:
            parts = []
            for x in e.elts:
                if isinstance(x, ast.Constant) and isinstance(x.value, int) and not isinstance(x.value, bool):
                    parts.append("[(%d)]" % x.value)
                elif isinstance(x, ast.Starred):
                    parts.append(tx(x.value))
                else:
                    raise Decline("targets expression")
            return "(" + " ++ ".join(parts) + ")"
        raise Decline("targets expression")
    targets_t = tx(targets_expr)
    lb = [s for s in loop.body if not (isinstance(s, ast.Expr) and isinstance(s.value, ast.Constant))]
    if len(lb) != 3:
        raise Decline("statements of the block-building loop")
    s_new, s_jump, s_app = lb
    want_new = "if offset in targets:\n    block = []\n    blocks.append(block)"
    want_new_neg = None
    if ast.dump(s_new) == ast.dump(ast.parse(want_new).body[0]):
        starts = "zmem offset targets"
    else:
        raise Decline("start of a new block")
    want_jump = ("if isinstance(instruction.arg, Jump):\n    instruction = replace(instruction, arg=replace(instruction.arg, "
                 "target=targets.index(instruction.arg.target)))")
    if ast.dump(s_jump) != ast.dump(ast.parse(want_jump).body[0]):
        raise Decline("rewriting of the jump operand")
    if ast.dump(s_app) != ast.dump(ast.parse("block.append(instruction)").body[0]):
        raise Decline("append to the current block")
    return ("Module SplitBlocks.\nSection S.\n  Context {C : Type}.\n"
            "  Definition targets_of (targets_set : list Z) : list Z := %s.\n"
            "  (* blocks finished so far, and the block `block` is bound to (None before the first one) *)\n"
            "  Definition step (targets : list Z) (st : list (list (instr_ C)) * option (list (instr_ C))) (oi : Z * instr_ C)\n"
            "    : res (list (list (instr_ C)) * option (list (instr_ C))) :=\n"
            "    let '(offset, instruction) := oi in\n"
            "    let st1 := if %s then (match snd st with Some b => fst st ++ [b] | None => fst st end, Some []) else st in\n"
            "    bind (match i_arg instruction with\n"
            "          | AJump t rel => match index_of Z.eqb t targets with\n"
            "                           | Some k => OK (mkInstr (i_name instruction) (AJump k rel) (i_nargs instruction) (i_line instruction) (i_lineoffs instruction))\n"
            "                           | None => Err ValueError\n                           end\n"
            "          | _ => OK instruction\n          end) (fun instruction' =>\n"
            "    match snd st1 with\n    | Some b => OK (fst st1, Some (b ++ [instruction']))\n    | None => Err NameError\n    end).\n"
            "  Definition run (targets_set : list Z) (ois : list (Z * instr_ C)) : res (list (list (instr_ C))) :=\n"
            "    bind (foldM (step (targets_of targets_set)) ois ([], None))\n"
            "         (fun st => OK (match snd st with Some b => fst st ++ [b] | None => fst st end)).\n"
            "End S.\nEnd SplitBlocks.\n" % (targets_t, starts))


# ---------------------------------------------------------------------------------------------------------
# items_to_mapping: both branches (co_linetable ranges, co_lnotab walk over the bytecode offsets)

I2M_TYPES = {"offset_to_line": "odictOptZ", "offset_to_additional_line_offsets": "odictZlist", "current_item_offset": "Z",
             "last_bytecode_offset": "Z", "current_line": "Z", "bytecode_offset": "Z", "line_offset": "optZ"}


def translate_items_to_mapping(tree):
    f = find_def(tree.body, "items_to_mapping")
    if [a.arg for a in f.args.args] != ["items", "max_offset", "is_linetable"]:
        raise Decline("signature of items_to_mapping")
    body = [s for s in f.body if not (isinstance(s, ast.Expr) and isinstance(s.value, ast.Constant))]
    inits = {}
    i = 0
    while i < len(body) and isinstance(body[i], (ast.Assign, ast.AnnAssign)):
        st = body[i]
        tg = st.target if isinstance(st, ast.AnnAssign) else st.targets[0]
        if not isinstance(tg, ast.Name) or tg.id not in I2M_TYPES:
            raise Decline("initialisation in items_to_mapping")
        v = st.value
        ty = I2M_TYPES[tg.id]
        if ty == "Z" and isinstance(v, ast.Constant) and isinstance(v.value, int) and not isinstance(v.value, bool):
            inits[tg.id] = "(%d)" % v.value
        elif ty == "odictOptZ" and isinstance(v, ast.Dict) and not v.keys:
            inits[tg.id] = "[]"
        elif ty == "odictZlist" and ast.dump(v) == ast.dump(ast.parse("collections.defaultdict(list)", mode="eval").body):
            inits[tg.id] = "[]"
        else:
            raise Decline("initial value of " + tg.id)
        i += 1
    rest = body[i:]
    if not (len(rest) == 3 and isinstance(rest[0], ast.If) and isinstance(rest[0].test, ast.Name) and rest[0].test.id == "is_linetable"
            and not rest[0].orelse and isinstance(rest[1], ast.While) and isinstance(rest[2], ast.Return)):
        raise Decline("shape of items_to_mapping")
    lt_body = list(rest[0].body)
    if not (len(lt_body) == 2 and isinstance(lt_body[0], ast.For) and isinstance(lt_body[1], ast.Return)
            and ast.dump(lt_body[1].value) == ast.dump(ast.parse("LineMapping(offset_to_line, {})", mode="eval").body)):
        raise Decline("co_linetable branch of items_to_mapping")
    want_ret = ast.dump(ast.parse("LineMapping(offset_to_line=offset_to_line, offset_to_additional_line_offsets=dict(offset_to_additional_line_offsets))", mode="eval").body)
    if ast.dump(rest[2].value) != want_ret:
        raise Decline("return of items_to_mapping")

    def module(name, stmts_, lt_value, result):
        assigned = set(inits)
        for st in stmts_:
            for n in ast.walk(st):
                if isinstance(n, ast.Name) and isinstance(n.ctx, ast.Store):
                    assigned.add(n.id)
        loopnames = set()
        for st in stmts_:
            for n in ast.walk(st):
                if isinstance(n, ast.For):
                    loopnames |= {x.id for x in ast.walk(n.target) if isinstance(x, ast.Name)}
        bound = set()
        for st in stmts_:
            for n in ast.walk(st):
                if (isinstance(n, ast.Assign) and isinstance(n.value, ast.Subscript) and isinstance(n.value.value, ast.Name)
                        and n.value.value.id == "items" and isinstance(n.targets[0], ast.Name)):
                    bound.add(n.targets[0].id)
        state = {}
        for a in sorted(assigned - loopnames - bound):
            if a not in I2M_TYPES:
                raise Decline("undeclared local " + a)
            state[a] = I2M_TYPES[a]
        params = {"is_linetable": ("bool", lt_value), "items": ("objlist", "citem"), "max_offset": "Z"}
        ctx = Ctx(state, params, {}, RECORDS, {})
        ctx.named_loops = []
        ctx.loops_take_fuel = True
        fields = [("v_" + a, COQ_TY[t], inits.get(a, DEFAULT[t])) for a, t in state.items()]
        text = stmts(ctx, stmts_)
        defs = "\n".join(ctx.named_loops)
        return ("Module %s.\n%s\n%s\n"
                "Definition body (fuel : nat) (items : list (option Z * Z)) (max_offset : Z) (s : st) : res st :=\n  %s.\n"
                "Definition run (fuel : nat) (items : list (option Z * Z)) (max_offset : Z) : res (odict (option Z) * odict (list Z)) :=\n"
                "  bind (body fuel items max_offset init) (fun s => OK %s).\nEnd %s.\n"
                % (name, record_decl(fields), defs, text, result, name))

    a = module("ItemsToMappingLt", [lt_body[0]], "true", "(v_offset_to_line s, [])")
    b = module("ItemsToMappingLnotab", [rest[1]], "false", "(v_offset_to_line s, v_offset_to_additional_line_offsets s)")
    return a + b


# ---------------------------------------------------------------------------------------------------------
# _blocks.blocks_to_bytes: the per-instruction bodies of the two passes of the jump relaxation

def _load(text):
    return ast.dump(ast.parse(text, mode="eval").body)


def _store(text):
    return ast.dump(ast.parse(text + " = 0").body[0].targets[0])


def translate_relax_step(tree):
    f = find_def(tree.body, "blocks_to_bytes")
    wh = [s for s in f.body if isinstance(s, ast.While)]
    if len(wh) != 1 or not (isinstance(wh[0].test, ast.Name) and wh[0].test.id == "changed_instruction_lengths"):
        raise Decline("the relaxation loop")
    body = [s for s in wh[0].body if not (isinstance(s, ast.Expr) and isinstance(s.value, ast.Constant))]
    # current_instruction_offset = 0 ; for ...: (pass 1) ; changed = False ; current_instruction_offset = 0 ; for ...: (pass 2)
    shape = [type(s).__name__ for s in body]
    if shape != ["Assign", "For", "Assign", "Assign", "For"]:
        raise Decline("statements of the relaxation loop: " + ",".join(shape))
    for st, want in ((body[0], "current_instruction_offset = 0"), (body[2], "changed_instruction_lengths = False"), (body[3], "current_instruction_offset = 0")):
        if ast.dump(st) != ast.dump(ast.parse(want).body[0]):
            raise Decline("reset statement: " + want)

    def inner(loop):
        if not (ast.dump(loop.target) == ast.dump(ast.parse("for block_index, block in x: pass").body[0].target)
                and ast.dump(loop.iter) == _load("enumerate(blocks)")):
            raise Decline("outer loop header")
        fors = [s for s in loop.body if isinstance(s, ast.For)]
        if len(fors) != 1 or loop.body[-1] is not fors[0]:
            raise Decline("inner loop position")
        il = fors[0]
        if not (ast.dump(il.target) == ast.dump(ast.parse("for instruction_index, instruction in x: pass").body[0].target)
                and ast.dump(il.iter) == _load("enumerate(block)")):
            raise Decline("inner loop header")
        return loop.body[:-1], il.body

    def ctx_for(state):
        params = {"nargs": "optZ", "v": "Z", "v310": "bool", "is_jump": "bool", "target_offset": "optZ", "relative": "bool"}
        ctx = Ctx(state, params, {}, RECORDS, {})
        ctx.reads = {
            _load("args[block_index, instruction_index]"): T("v", "Z"),
            _load("instruction._n_args_override"): T("nargs", "optZ"),
            _load("isinstance(arg, Jump)"): T("is_jump", "bool"),
            _load("arg.relative"): T("relative", "bool"),
            _load("_ATLEAST_310"): T("v310", "bool"),
            # block_index_to_instruction_offset[arg.target]: a dict lookup, KeyError when the block does not exist
            _load("block_index_to_instruction_offset[arg.target]"): T("(match target_offset with Some x => OK x | None => Err KeyError end)", "Z", False),
        }
        ctx.calls = {"_instrsize": "PCD.Gen.Src.instrsize"}
        return ctx

    # pass 1: block offsets
    pre1, body1 = inner(body[1])
    if not (len(pre1) == 1 and ast.dump(pre1[0]) == ast.dump(ast.parse("block_index_to_instruction_offset[block_index] = current_instruction_offset").body[0])):
        raise Decline("block offset assignment")
    st1 = {"current_instruction_offset": "Z", "arg_value": "Z", "n_instructions": "Z"}
    c1 = ctx_for(st1)
    for n in ast.walk(ast.Module(body=body1, type_ignores=[])):
        if isinstance(n, ast.Name) and isinstance(n.ctx, ast.Store) and n.id not in st1:
            raise Decline("local of pass 1: " + n.id)
    t1 = stmts(c1, body1)
    # pass 2: jump operands and the changed flag
    pre2, body2 = inner(body[4])
    if pre2:
        raise Decline("statements before the inner loop of pass 2")
    st2 = {"current_instruction_offset": "Z", "arg_value": "Z", "n_instructions": "Z", "changed_instruction_lengths": "bool",
           "target_instruction_offset": "Z", "multiplier": "Z", "new_arg_value": "Z", "out_arg": "optZ"}
    c2 = ctx_for(st2)
    c2.stores = {_store("args[block_index, instruction_index]"): ("v_out_arg", "optZ")}
    b2 = [s for s in body2 if not (isinstance(s, ast.Assign) and ast.dump(s) == ast.dump(ast.parse("arg = instruction.arg").body[0]))]
    if len(b2) != len(body2) - 1:
        raise Decline("arg = instruction.arg")
    for n in ast.walk(ast.Module(body=b2, type_ignores=[])):
        if isinstance(n, ast.Name) and isinstance(n.ctx, ast.Store) and n.id not in st2:
            raise Decline("local of pass 2: " + n.id)
    t2 = stmts(c2, b2)
    sig = "(nargs : option Z) (v : Z) (v310 is_jump : bool) (target_offset : option Z) (relative : bool)"
    out = ["Module RelaxPass1.", record_decl([("v_" + a, COQ_TY[t], DEFAULT[t]) for a, t in st1.items()]),
           "Definition step %s (s : st) : res st :=\n  %s." % (sig, t1), "End RelaxPass1.",
           "Module RelaxPass2.", record_decl([("v_" + a, COQ_TY[t], DEFAULT[t]) for a, t in st2.items()]),
           "Definition step %s (s : st) : res st :=\n  %s." % (sig, t2), "End RelaxPass2."]
    return "\n".join(out) + "\n"


# ---------------------------------------------------------------------------------------------------------
# _blocks.blocks_to_bytes: the body of the final loop - the line entries of an instruction and of its EXTENDED_ARG
# prefixes, and the code units written for it

def translate_assemble_step(tree):
    f = find_def(tree.body, "blocks_to_bytes")
    body = list(f.body)
    # bytes_: list[int] = [] ; line_mapping = LineMapping() ; for block_index, block in enumerate(blocks): for ... : <body>
    idx = None
    for i, st in enumerate(body):
        if isinstance(st, (ast.AnnAssign, ast.Assign)) and isinstance((st.target if isinstance(st, ast.AnnAssign) else st.targets[0]), ast.Name) \
                and (st.target if isinstance(st, ast.AnnAssign) else st.targets[0]).id == "bytes_":
            idx = i
    if idx is None or not (isinstance(body[idx].value, ast.List) and not body[idx].value.elts):
        raise Decline("bytes_ = []")
    if not (ast.dump(body[idx + 1]) == ast.dump(ast.parse("line_mapping = LineMapping()").body[0])):
        raise Decline("line_mapping = LineMapping()")
    loop = body[idx + 2]
    if not (isinstance(loop, ast.For) and ast.dump(loop.iter) == _load("enumerate(blocks)") and len(loop.body) == 1
            and isinstance(loop.body[0], ast.For) and ast.dump(loop.body[0].iter) == _load("enumerate(block)")
            and ast.dump(loop.body[0].target) == ast.dump(ast.parse("for instruction_index, instruction in x: pass").body[0].target)):
        raise Decline("assembly loops")
    inner = [s for s in loop.body[0].body if not (isinstance(s, ast.Expr) and isinstance(s.value, ast.Constant))]
    state = {"offset": "Z", "arg_value": "Z", "n_args": "Z", "bytes_": "zlist", "lines": "odictOptZ", "adds": "odictZlist"}
    params = {"line": "optZ", "lineoffs": "zlist", "nargs": "optZ", "v": "Z", "EXTENDED_ARG": "Z"}
    ctx = Ctx(state, params, {}, RECORDS, {})
    ctx.reads = {
        _load("args[block_index, instruction_index]"): T("v", "Z"),
        _load("instruction._n_args_override"): T("nargs", "optZ"),
        _load("instruction.line_number"): T("line", "optZ"),
        _load("instruction._line_offsets_override"): T("lineoffs", "zlist"),
        _load("list(instruction._line_offsets_override)"): T("lineoffs", "zlist"),
        # dis.opmap[instruction.name]: KeyError for a name the interpreter does not know
        _load("dis.opmap[instruction.name]"): T("opcode_of", "Z", False),
        _load("dis.EXTENDED_ARG"): T("EXTENDED_ARG", "Z"),
    }
    ctx.calls = {"_instrsize": "PCD.Gen.Src.instrsize"}
    ctx.dicts = {_load("line_mapping.offset_to_line"): ("lines", "odictOptZ"),
                 _load("line_mapping.offset_to_additional_line_offsets"): ("adds", "odictZlist")}
    for n in ast.walk(ast.Module(body=inner, type_ignores=[])):
        if isinstance(n, ast.Name) and isinstance(n.ctx, ast.Store) and n.id not in state and n.id != "i":
            raise Decline("local of the assembly loop: " + n.id)
    text = stmts(ctx, inner)
    fields = [("v_" + a, COQ_TY[t], DEFAULT[t]) for a, t in state.items()]
    return ("Module AssembleStep.\n%s\n"
            "Definition step (opcode_of : res Z) (EXTENDED_ARG : Z) (line : option Z) (lineoffs : list Z) (nargs : option Z) (v : Z) (s : st) : res st :=\n  %s.\n"
            "End AssembleStep.\n" % (record_decl(fields), text))


# ---------------------------------------------------------------------------------------------------------
# _blocks._parse_bytes: a generator over range(0, len(b), 2) with two accumulators

def translate_parse_bytes(tree):
    f = find_def(tree.body, "_parse_bytes")
    if [a.arg for a in f.args.args] != ["b"]:
        raise Decline("signature of _parse_bytes")
    body = [s for s in f.body if not (isinstance(s, ast.Expr) and isinstance(s.value, ast.Constant))]
    inits = []
    i = 0
    while i < len(body) and isinstance(body[i], (ast.AnnAssign, ast.Assign)):
        st = body[i]
        tg = st.target if isinstance(st, ast.AnnAssign) else st.targets[0]
        if not (isinstance(tg, ast.Name) and isinstance(st.value, ast.Constant) and isinstance(st.value.value, int)
                and not isinstance(st.value.value, bool)):
            raise Decline("initialisation in _parse_bytes")
        inits.append((tg.id, st.value.value))
        i += 1
    if not (i + 1 == len(body) and isinstance(body[i], ast.For)):
        raise Decline("shape of _parse_bytes")
    loop = body[i]
    want = ast.dump(ast.parse("range(0, len(b), 2)", mode="eval").body)
    if not (ast.dump(loop.iter) == want and isinstance(loop.target, ast.Name) and not loop.orelse):
        raise Decline("loop header of _parse_bytes")
    iv = loop.target.id
    assigned = []
    for n in ast.walk(loop):
        tg = None
        if isinstance(n, ast.Assign) and len(n.targets) == 1:
            tg = n.targets[0]
        elif isinstance(n, (ast.AugAssign, ast.AnnAssign)):
            tg = n.target
        if isinstance(tg, ast.Name) and tg.id not in assigned:
            assigned.append(tg.id)
    for n, _ in inits:
        if n not in assigned:
            assigned.append(n)
    if iv in assigned:
        raise Decline("loop variable reassigned")
    state = {a: "Z" for a in sorted(assigned)}
    params = {"b": "bytes", iv: "Z", "dis.EXTENDED_ARG": ("Z", "EXTENDED_ARG"),
              "_c_int_upper_limit": ("Z", "PCD.Gen.Src.c_int_upper_limit"), "_c_int_length": ("Z", "PCD.Gen.Src.c_int_length")}
    ctx = Ctx(state, params, {}, RECORDS, {})
    ctx.yield_arity = 5
    init_of = dict(inits)
    fields = [("v_" + a, "Z", "(%d)" % init_of.get(a, 0)) for a in state] + [("v_out", "list (Z * Z * Z * Z * Z)", "[]")]
    out = ["Module ParseBytes.", record_decl(fields),
           "Definition body (EXTENDED_ARG : Z) (b : list Z) (s : st) (%s : Z) : res st :=\n  %s." % (iv, stmts(ctx, loop.body)),
           "Definition parse_bytes (EXTENDED_ARG : Z) (b : list Z) : res (list (Z * Z * Z * Z * Z)) :=\n"
           "  bind (foldM (body EXTENDED_ARG b) (range2 0 (zlen b)) init) (fun s => OK (v_out s)).",
           "End ParseBytes."]
    return "\n".join(out) + "\n"


# ---------------------------------------------------------------------------------------------------------

ITEMS = [("expand_items", "_line_mapping.py", translate_expand_items),
         ("collapse_items", "_line_mapping.py", translate_collapse_items),
         ("parse_bytes", "_blocks.py", translate_parse_bytes),
         ("mapping_to_items", "_line_mapping.py", translate_mapping_to_items),
         ("relax_step", "_blocks.py", translate_relax_step),
         ("items_to_mapping", "_line_mapping.py", translate_items_to_mapping),
         ("decode_step", "_blocks.py", translate_decode_step),
         ("split_blocks", "_blocks.py", translate_split_blocks),
         ("assemble_step", "_blocks.py", translate_assemble_step)]

HEADER = ("(* generated by harness/translate_lines.py from /repo/code_data/_line_mapping.py on every run; do not edit *)\n"
          "From PCD Require Import Base.PyBase Base.PyImp Base.Cfg Model.Flags Model.Args Model.Data Model.LineTable Model.Blocks.\nFrom PCD Require Gen.Src.\n\n")


def generate(repo, outpath, fallback_dir, write_fallback=False):
    import os
    from common import write_if_changed
    notes = {}
    parts = []
    for label, rel, fn in ITEMS:
        fb = os.path.join(fallback_dir, "SrcLines_%s.v" % label)
        try:
            with open(os.path.join(repo, "code_data", rel)) as f:
                tree = ast.parse(f.read())
            text = fn(tree)
            notes[label] = "translated"
            flag = "true"
            if write_fallback:
                with open(fb, "w") as f:
                    f.write(text)
        except (Decline, OSError, SyntaxError, IndexError, KeyError, AttributeError) as e:
            notes[label] = "declined: %s" % e
            with open(fb) as f:
                text = ("(* %s declined (%s): reference translation of the pinned source; tied by correspondence only *)\n"
                        % (label, str(e).replace("*)", "* )")[:100]) + f.read())
            flag = "false"
        parts.append(text + "Definition %s_translated := %s.\n" % (label, flag))
    notes["changed"] = write_if_changed(outpath, HEADER + "\n".join(parts))
    return notes


if __name__ == "__main__":
    import sys
    import os
    here = os.path.dirname(os.path.abspath(__file__))
    sys.path.insert(0, here)
    print(generate("/repo", os.path.join(here, "..", "coq", "Gen", "SrcLines.v"), os.path.join(here, "fallback"),
                   write_fallback="--write-fallback" in sys.argv))
