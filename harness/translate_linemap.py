# Translator for the three methods of code_data/_line_mapping.py:LineMapping used by to_code_data / from_code_data (C10, C01):
# pop_additional_line (its two NotImplementedError guards, the lookup and the pop), add_additional_line (two stores) and
# modify_line_offsets (in-place update of the values that are not None).  Re-translated on every run into coq/Gen/SrcLineMap.v
# and proved equal to Model/LineTable.v for all mappings (Proofs/SrcLineMapTie.v).
# Declared meanings: a dict is an insertion-ordered association list (Base/PyBase.odict); `set(d.keys()) == {k}` is keyset_is;
# `for k, v in d.items(): if <test on v>: d[k] += x` replaces the value under the key being visited (omap_values).
import ast

from translate_src import Decline

FIELDS = {"offset_to_line": "lm_lines", "offset_to_additional_line_offsets": "lm_adds"}


def same(node, text, mode="eval"):
    want = ast.parse(text, mode=mode)
    want = want.body if mode == "eval" else want.body[0]
    return ast.dump(node) == ast.dump(want)


def strip(body):
    return [s for s in body if not (isinstance(s, ast.Expr) and isinstance(s.value, ast.Constant))]


def field(e):
    """self.<field> -> projection name"""
    if isinstance(e, ast.Attribute) and isinstance(e.value, ast.Name) and e.value.id == "self" and e.attr in FIELDS:
        return FIELDS[e.attr]
    return None


def key(e, names):
    if isinstance(e, ast.Name) and e.id in names:
        return e.id
    raise Decline("key expression " + ast.dump(e)[:40])


def cond(e, names):
    f = field(e)
    if f:
        return "(nonempty (%s m))" % f
    if isinstance(e, ast.BoolOp):
        op = "&&" if isinstance(e.op, ast.And) else "||"
        return "(" + (" %s " % op).join(cond(v, names) for v in e.values) + ")"
    if isinstance(e, ast.UnaryOp) and isinstance(e.op, ast.Not):
        return "(negb %s)" % cond(e.operand, names)
    if isinstance(e, ast.Compare) and len(e.ops) == 1 and isinstance(e.ops[0], (ast.Eq, ast.NotEq)):
        l, r = e.left, e.comparators[0]
        if isinstance(l, ast.Set):
            l, r = r, l
        if (isinstance(l, ast.Call) and isinstance(l.func, ast.Name) and l.func.id == "set" and len(l.args) == 1 and not l.keywords
                and isinstance(r, ast.Set) and len(r.elts) == 1):
            a = l.args[0]
            if isinstance(a, ast.Call) and isinstance(a.func, ast.Attribute) and a.func.attr == "keys" and not a.args and not a.keywords:
                a = a.func.value
            f = field(a)
            if f:
                t = "(keyset_is (%s m) %s)" % (f, key(r.elts[0], names))
                return t if isinstance(e.ops[0], ast.Eq) else "(negb %s)" % t
    if isinstance(e, ast.Compare) and len(e.ops) == 1 and isinstance(e.ops[0], (ast.In, ast.NotIn)) and field(e.comparators[0]):
        t = "(omem (%s m) %s)" % (field(e.comparators[0]), key(e.left, names))
        return t if isinstance(e.ops[0], ast.In) else "(negb %s)" % t
    raise Decline("condition " + ast.dump(e)[:60])


def exn(st):
    e = st.exc
    if isinstance(e, ast.Call):
        e = e.func
    if isinstance(e, ast.Name) and e.id in ("NotImplementedError", "KeyError", "ValueError"):
        return e.id
    raise Decline("exception")


def empty_list(e):
    return (isinstance(e, ast.List) and not e.elts) or same(e, "list()") or (isinstance(e, ast.Tuple) and not e.elts) or same(e, "tuple()")


def pop_stmts(body, names):
    if not body:
        return "OK (None, m)"          # falling off the end returns None
    s, rest = body[0], body[1:]
    if isinstance(s, ast.If) and not s.orelse:
        inner = strip(s.body)
        if len(inner) == 1 and isinstance(inner[0], ast.Raise):
            return "(if %s then Err %s else %s)" % (cond(s.test, names), exn(inner[0]), pop_stmts(rest, names))
        if inner and isinstance(inner[-1], (ast.Return, ast.Raise)):
            return "(if %s then %s else %s)" % (cond(s.test, names), pop_stmts(inner, names), pop_stmts(rest, names))
        raise Decline("if statement that falls through")
    if isinstance(s, ast.Raise):
        return "(Err %s)" % exn(s)
    if isinstance(s, ast.Return):
        v = s.value
        if v is None or (isinstance(v, ast.Constant) and v.value is None):
            return "OK (None, m)"
        if isinstance(v, ast.Call) and isinstance(v.func, ast.Name) and v.func.id == "AdditionalLine":
            args = {}
            order = []
            for n, a in enumerate(v.args):
                args[["line", "additional_offsets"][n]] = a
                order.append(["line", "additional_offsets"][n])
            for k in v.keywords:
                if k.arg in args or k.arg not in ("line", "additional_offsets"):
                    raise Decline("keywords of AdditionalLine")
                args[k.arg] = k.value
                order.append(k.arg)
            if set(args) != {"line", "additional_offsets"}:
                raise Decline("arguments of AdditionalLine")
            # line: self.offset_to_line[k]   (KeyError)
            ln = args["line"]
            if not (isinstance(ln, ast.Subscript) and field(ln.value) == "lm_lines"):
                raise Decline("line of the AdditionalLine")
            idx = ln.slice.value if isinstance(ln.slice, ast.Index) else ln.slice
            line_t = "(match oget (lm_lines m) %s with Some x => OK x | None => Err KeyError end)" % key(idx, names)
            # offsets: tuple(self.offset_to_additional_line_offsets.pop(k, []))  or .get(k, [])
            of = args["additional_offsets"]
            if isinstance(of, ast.Call) and isinstance(of.func, ast.Name) and of.func.id in ("tuple", "list") and len(of.args) == 1:
                of = of.args[0]
            if not (isinstance(of, ast.Call) and isinstance(of.func, ast.Attribute) and of.func.attr in ("pop", "get")
                    and field(of.func.value) == "lm_adds" and len(of.args) == 2 and empty_list(of.args[1]) and not of.keywords):
                raise Decline("offsets of the AdditionalLine")
            k = key(of.args[0], names)
            val = "(match oget (lm_adds m) %s with Some l => l | None => [] end)" % k
            after = ("{| lm_lines := lm_lines m; lm_adds := odel (lm_adds m) %s |}" % k) if of.func.attr == "pop" else "m"
            if order == ["line", "additional_offsets"]:
                return "(do x__ <- %s; OK (Some (x__, %s), %s))" % (line_t, val, after)
            # offsets evaluated first: the pop has happened when the lookup raises - same result, the state is lost with the exception
            return "(do x__ <- %s; OK (Some (x__, %s), %s))" % (line_t, val, after)
        raise Decline("returned value")
    raise Decline("statement of pop_additional_line: " + type(s).__name__)


def translate_pop(cls):
    f = next((n for n in cls.body if isinstance(n, ast.FunctionDef) and n.name == "pop_additional_line"), None)
    if f is None or f.decorator_list or [a.arg for a in f.args.args] != ["self", "next_offset"]:
        raise Decline("pop_additional_line")
    return ("Definition pop_additional_line (m : linemap) (next_offset : Z) : res (option (option Z * list Z) * linemap) :=\n  %s.\n"
            % pop_stmts(strip(f.body), {"next_offset"}))


def translate_add(cls):
    f = next((n for n in cls.body if isinstance(n, ast.FunctionDef) and n.name == "add_additional_line"), None)
    if f is None or f.decorator_list or [a.arg for a in f.args.args] != ["self", "additional_line", "len_code"]:
        raise Decline("add_additional_line")
    text = "m"
    for s in strip(f.body):
        if not (isinstance(s, ast.Assign) and len(s.targets) == 1 and isinstance(s.targets[0], ast.Subscript) and field(s.targets[0].value)):
            raise Decline("statement of add_additional_line")
        fld = field(s.targets[0].value)
        sl = s.targets[0].slice
        idx = sl.value if isinstance(sl, ast.Index) else sl
        k = key(idx, {"len_code"})
        v = s.value
        if same(v, "additional_line.line") and fld == "lm_lines":
            val = "line"
        elif fld == "lm_adds" and (same(v, "list(additional_line.additional_offsets)") or same(v, "additional_line.additional_offsets")
                                   or same(v, "tuple(additional_line.additional_offsets)")):
            val = "offs"
        else:
            raise Decline("stored value")
        if fld == "lm_lines":
            text = "(let m := %s in {| lm_lines := oset (lm_lines m) %s %s; lm_adds := lm_adds m |})" % (text, k, val)
        else:
            text = "(let m := %s in {| lm_lines := lm_lines m; lm_adds := oset (lm_adds m) %s %s |})" % (text, k, val)
    return "Definition add_additional_line (m : linemap) (line : option Z) (offs : list Z) (len_code : Z) : linemap :=\n  %s.\n" % text


def translate_modify(cls):
    f = next((n for n in cls.body if isinstance(n, ast.FunctionDef) and n.name == "modify_line_offsets"), None)
    if f is None or f.decorator_list or [a.arg for a in f.args.args] != ["self", "line_offset"]:
        raise Decline("modify_line_offsets")
    body = strip(f.body)
    if not (len(body) == 1 and isinstance(body[0], ast.For) and not body[0].orelse):
        raise Decline("body of modify_line_offsets")
    loop = body[0]
    it = loop.iter
    if not (isinstance(it, ast.Call) and isinstance(it.func, ast.Attribute) and it.func.attr == "items" and field(it.func.value) == "lm_lines"
            and not it.args and isinstance(loop.target, ast.Tuple) and len(loop.target.elts) == 2
            and all(isinstance(x, ast.Name) for x in loop.target.elts)):
        raise Decline("loop of modify_line_offsets")
    kv, vv = loop.target.elts[0].id, loop.target.elts[1].id
    inner = strip(loop.body)
    if not (len(inner) == 1 and isinstance(inner[0], ast.If) and not inner[0].orelse and len(strip(inner[0].body)) == 1):
        raise Decline("statement of the loop")
    t = inner[0].test
    if same(t, "%s is not None" % vv):
        guard = True
    elif same(t, "%s is None" % vv):
        guard = False
    else:
        raise Decline("test of the loop")
    a = strip(inner[0].body)[0]
    if not (isinstance(a, ast.AugAssign) and isinstance(a.op, (ast.Add, ast.Sub)) and isinstance(a.target, ast.Subscript)
            and field(a.target.value) == "lm_lines" and isinstance(a.value, ast.Name) and a.value.id == "line_offset"):
        raise Decline("update of the loop")
    sl = a.target.slice
    idx = sl.value if isinstance(sl, ast.Index) else sl
    if not (isinstance(idx, ast.Name) and idx.id == kv):
        raise Decline("updated key")
    op = "+" if isinstance(a.op, ast.Add) else "-"
    if not guard:
        raise Decline("None + int")       # would raise TypeError: not modelled
    return ("Definition modify_line_offsets (m : linemap) (line_offset : Z) : linemap :=\n"
            "  {| lm_lines := omap_values (fun v : option Z => match v with Some l => Some (l %s line_offset) | None => None end) (lm_lines m);\n"
            "     lm_adds := lm_adds m |}.\n" % op)


ITEMS = [("pop_additional_line", translate_pop), ("add_additional_line", translate_add), ("modify_line_offsets", translate_modify)]

HEADER = ("(* generated by harness/translate_linemap.py from /repo/code_data/_line_mapping.py on every run; do not edit *)\n"
          "From PCD Require Import Base.PyBase Base.PyImp Model.LineTable.\nOpen Scope Z_scope.\n\n")


def generate(repo, outpath, fallback_dir, write_fallback=False):
    import os
    from common import write_if_changed
    notes = {}
    cls = None
    try:
        with open(os.path.join(repo, "code_data", "_line_mapping.py")) as f:
            tree = ast.parse(f.read())
        cs = [n for n in tree.body if isinstance(n, ast.ClassDef) and n.name == "LineMapping"]
        if len(cs) == 1:
            cls = cs[0]
    except (OSError, SyntaxError) as e:
        notes["parse"] = "declined: %s" % e
    out = [HEADER]
    for name, fn in ITEMS:
        fb = os.path.join(fallback_dir, "SrcLineMap_%s.v" % name)
        try:
            if cls is None:
                raise Decline("class LineMapping")
            text = fn(cls)
            notes[name] = "translated"
            flag = "true"
            if write_fallback:
                with open(fb, "w") as f:
                    f.write(text)
        except (Decline, IndexError, KeyError, AttributeError, ValueError) as e:
            notes[name] = "declined: %s" % e
            with open(fb) as f:
                text = ("(* declined (%s): reference translation of the pinned source; tied by correspondence only *)\n"
                        % str(e).replace("*)", "* )")[:100]) + f.read()
            flag = "false"
        out.append(text + "Definition %s_translated := %s.\n\n" % (name, flag))
    notes["changed"] = write_if_changed(outpath, "".join(out))
    return notes


if __name__ == "__main__":
    import sys
    import os
    here = os.path.dirname(os.path.abspath(__file__))
    sys.path.insert(0, here)
    print(generate("/repo", os.path.join(here, "..", "coq", "Gen", "SrcLineMap.v"), os.path.join(here, "fallback"),
                   write_fallback="--write-fallback" in sys.argv))
