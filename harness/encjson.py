# Gallina terms / token streams for JSON documents (see coq/Model/Json.v, JsonSer.v), with the text-level
# codecs canonicalised: {"string": repr} -> decoded code points, {"bytes": base64} -> decoded bytes,
# an instruction's "name" -> a one-code-point string holding a version-independent id of the name.
# Python 3.7 compatible.
import ast
import base64
import hashlib

import encdata as E
from enc import gz, gbool, glist, gstr, gzlist, tz, tlist, tstr


def name_id(name):
    return int(hashlib.sha1(name.encode("utf-8", "surrogatepass")).hexdigest()[:10], 16)


class Canon(object):
    """marker for a canonicalised string payload: a list of code points"""
    def __init__(self, cps):
        self.cps = list(cps)


def canon_str_obj(v):
    """{"string": repr} -> Canon of the decoded string"""
    if isinstance(v, dict) and set(v) == {"string"} and isinstance(v["string"], str):
        try:
            return {"string": Canon(map(ord, ast.literal_eval(v["string"])))}
        except Exception:
            return v
    return v


def canon_const(v):
    if isinstance(v, dict):
        if "filename" in v:
            return canon_cd(v)
        if set(v) == {"string"}:
            return canon_str_obj(v)
        if set(v) == {"bytes"} and isinstance(v["bytes"], str):
            try:
                return {"bytes": Canon(base64.b64decode(v["bytes"]))}
            except Exception:
                return v
        return {k: canon_const(x) for k, x in v.items()}
    if isinstance(v, list):
        return [canon_const(x) for x in v]
    return v


def canon_arg(a):
    if isinstance(a, dict):
        out = {}
        for k, x in a.items():
            if k == "constant":
                out[k] = canon_const(x)
            else:
                out[k] = canon_str_obj(x)
        return out
    return a


def canon_instr(i):
    if not isinstance(i, dict):
        return i
    out = {}
    for k, x in i.items():
        if k == "name" and isinstance(x, str):
            out[k] = Canon([name_id(x)])
        elif k == "arg":
            out[k] = canon_arg(x)
        else:
            out[k] = x
    return out


def canon_cd(d):
    if not isinstance(d, dict):
        return d
    out = {}
    for k, x in d.items():
        if k == "blocks" and isinstance(x, list):
            out[k] = [[canon_instr(i) for i in b] if isinstance(b, list) else b for b in x]
        elif k == "_additional_args" and isinstance(x, list):
            out[k] = [canon_arg(a) for a in x]
        elif k in ("filename", "name"):
            out[k] = canon_str_obj(x)
        elif k == "freevars" and isinstance(x, list):
            out[k] = [canon_str_obj(s) for s in x]
        elif k == "type" and isinstance(x, dict):
            t = {}
            for tk, tv in x.items():
                if tk == "docstring":
                    t[tk] = canon_str_obj(tv)
                elif tk == "args" and isinstance(tv, dict):
                    t[tk] = {ak: ([canon_str_obj(s) for s in av] if isinstance(av, list) else canon_str_obj(av))
                             for ak, av in tv.items()}
                else:
                    t[tk] = tv
            out[k] = t
        else:
            out[k] = x
    return out


def t_json(v):
    """tokens of a canonicalised document"""
    if v is None:
        return [0]
    if isinstance(v, bool):
        return [1, 1 if v else 0]
    if isinstance(v, int):
        return [2, v]
    if isinstance(v, float):
        return [3, E.float_bits(v)]
    if isinstance(v, str):
        return [4] + tstr(v)
    if isinstance(v, Canon):
        return [4] + tlist(v.cps, tz)
    if isinstance(v, (list, tuple)):
        return [5] + tlist(v, t_json)
    if isinstance(v, dict):
        if list(v) == ["frozenset"] and isinstance(v["frozenset"], list):
            items = sorted(t_json(x) for x in v["frozenset"])
            return [6, 1] + tstr("frozenset") + [5, len(items)] + [t for it in items for t in it]
        out = [6, len(v)]
        for k, x in v.items():
            out += tstr(k) + t_json(x)
        return out
    raise E.Unsupported(repr(type(v)))


def g_json(v):
    if v is None:
        return "JNull"
    if isinstance(v, bool):
        return "(JBool %s)" % gbool(v)
    if isinstance(v, int):
        return "(JInt %s)" % gz(v)
    if isinstance(v, float):
        return "(JFloat %d)" % E.float_bits(v)
    if isinstance(v, str):
        return "(JStr %s)" % gstr(v)
    if isinstance(v, Canon):
        return "(JStr %s)" % gzlist(v.cps)
    if isinstance(v, (list, tuple)):
        return "(JList %s)" % glist([g_json(x) for x in v], "json")
    if isinstance(v, dict):
        items = list(v.items())
        if list(v) == ["frozenset"] and isinstance(v["frozenset"], list):
            # listing in the canonical order of the decoded elements (see encdata.t_iconst)
            from code_data._json_data import constant_value_from_json
            try:
                els = sorted(v["frozenset"], key=lambda x: E.t_iconst(constant_value_from_json(uncanon(x))))
            except Exception:
                els = v["frozenset"]
            items = [("frozenset", els)]
        return "(JObj %s)" % glist(["(%s, %s)" % (gstr(k), g_json(x)) for k, x in items], "(str * json)")
    raise E.Unsupported(repr(type(v)))


def uncanon(v):
    """undo the canonicalisation of strings / bytes (names are not undone: never inside constants)"""
    if isinstance(v, dict):
        if set(v) == {"string"} and isinstance(v["string"], Canon):
            return {"string": repr("".join(map(chr, v["string"].cps)))}
        if set(v) == {"bytes"} and isinstance(v["bytes"], Canon):
            return {"bytes": base64.b64encode(bytes(v["bytes"].cps)).decode("ascii")}
        return {k: uncanon(x) for k, x in v.items()}
    if isinstance(v, list):
        return [uncanon(x) for x in v]
    return v


# CodeData values in JSON-related properties use the version-independent name ids as instruction names
class NameIds(object):
    """context manager switching encdata.opcode_of to version independent ids"""
    def __enter__(self):
        self.saved = E.opcode_of
        E.opcode_of = name_id
        return self

    def __exit__(self, *a):
        E.opcode_of = self.saved
