# Translator for stage 1 of the line-table codec, code_data/_line_mapping.py: bytes_to_items and items_to_bytes (C10).
# Both are single expressions; they are re-translated on every run (coq/Gen/SrcStage1.v): the range and its step, the two
# index expressions, the signedness of the line byte, which field receives which byte, the order of the two bytes written and
# the mask - and proved equal to Model/LineTable.v for ALL byte strings / item lists (Proofs/SrcStage1Tie.v).
import ast

from translate_src import Decline


def same(node, text, mode="eval"):
    want = ast.parse(text, mode=mode)
    want = want.body if mode == "eval" else want.body[0]
    return ast.dump(node) == ast.dump(want)


def body_of(f):
    b = [s for s in f.body if not (isinstance(s, ast.Expr) and isinstance(s.value, ast.Constant))]
    if len(b) != 1 or not isinstance(b[0], ast.Return):
        raise Decline("body of " + f.name)
    return b[0].value


def uncast(e):
    # cast(T, x) is x
    if isinstance(e, ast.Call) and isinstance(e.func, ast.Name) and e.func.id == "cast" and len(e.args) == 2 and not e.keywords:
        return e.args[1]
    return e


def zexpr(e, env):
    """integer expression over the names of env (python name -> Gallina term), pure"""
    if isinstance(e, ast.Constant) and type(e.value) is int:
        return "(%d)" % e.value
    if isinstance(e, ast.Name) and e.id in env:
        return env[e.id]
    if isinstance(e, ast.Call) and isinstance(e.func, ast.Name) and e.func.id == "len" and len(e.args) == 1 and not e.keywords \
            and isinstance(e.args[0], ast.Name) and ("len:" + e.args[0].id) in env:
        return env["len:" + e.args[0].id]
    if isinstance(e, ast.BinOp) and isinstance(e.op, (ast.Add, ast.Sub, ast.Mult)):
        op = {ast.Add: "+", ast.Sub: "-", ast.Mult: "*"}[type(e.op)]
        return "(%s %s %s)" % (zexpr(e.left, env), op, zexpr(e.right, env))
    if isinstance(e, ast.BinOp) and isinstance(e.op, ast.BitAnd):
        return "(Z.land %s %s)" % (zexpr(e.left, env), zexpr(e.right, env))
    if isinstance(e, ast.BinOp) and isinstance(e.op, ast.Mod) and isinstance(e.right, ast.Constant) and type(e.right.value) is int and e.right.value > 0:
        return "(%s mod %d)" % (zexpr(e.left, env), e.right.value)
    if isinstance(e, ast.Attribute) and isinstance(e.value, ast.Name) and (e.value.id + "." + e.attr) in env:
        return env[e.value.id + "." + e.attr]
    raise Decline("integer expression " + ast.dump(e)[:60])


def byte_read(e, env, bname):
    """res Z expression: b[idx]  or  int.from_bytes([b[idx]], order, signed=...)"""
    if isinstance(e, ast.Subscript) and isinstance(e.value, ast.Name) and e.value.id == bname:
        idx = e.slice
        if isinstance(idx, ast.Index):      # 3.8 ast
            idx = idx.value
        return "(byte_at %s %s)" % (bname, zexpr(idx, env))
    if isinstance(e, ast.Call) and same(e.func, "int.from_bytes") and len(e.args) in (1, 2) and isinstance(e.args[0], ast.List) and len(e.args[0].elts) == 1:
        kws = {k.arg: k.value for k in e.keywords}
        if len(e.args) == 2:
            order = e.args[1]
        else:
            order = kws.pop("byteorder", None)
        if not (isinstance(order, ast.Constant) and order.value in ("big", "little")):
            raise Decline("byte order")
        signed = kws.pop("signed", ast.Constant(False))
        if kws or not (isinstance(signed, ast.Constant) and type(signed.value) is bool):
            raise Decline("from_bytes keywords")
        inner = byte_read(e.args[0].elts[0], env, bname)
        return "(do y__ <- %s; OK (from_one_byte %s y__))" % (inner, "true" if signed.value else "false")
    raise Decline("byte expression " + ast.dump(e)[:60])


def translate_bytes_to_items(f):
    if f.decorator_list or [a.arg for a in f.args.args] != ["b"]:
        raise Decline("bytes_to_items signature")
    e = uncast(body_of(f))
    if not (isinstance(e, ast.ListComp) and len(e.generators) == 1 and not e.generators[0].ifs and not e.generators[0].is_async
            and isinstance(e.generators[0].target, ast.Name)):
        raise Decline("comprehension of bytes_to_items")
    g = e.generators[0]
    i = g.target.id
    if i == "b":
        raise Decline("loop variable")
    r = g.iter
    if not (isinstance(r, ast.Call) and isinstance(r.func, ast.Name) and r.func.id == "range" and not r.keywords and 1 <= len(r.args) <= 3):
        raise Decline("range of bytes_to_items")
    env0 = {"len:b": "(zlen b)"}
    a = [zexpr(x, env0) for x in r.args]
    if len(a) == 1:
        rng = "(zrange (0) %s)" % a[0]
    elif len(a) == 2:
        rng = "(zrange %s %s)" % (a[0], a[1])
    else:
        if not (isinstance(r.args[2], ast.Constant) and type(r.args[2].value) is int and r.args[2].value > 0):
            raise Decline("step of the range")
        rng = "(zrange_step %s %s %s)" % (a[0], a[1], a[2])
    elt = e.elt
    if not (isinstance(elt, ast.Call) and isinstance(elt.func, ast.Name) and elt.func.id == "LineTableItem"):
        raise Decline("element of bytes_to_items")
    env = dict(env0)
    env[i] = i
    # LineTableItem(line_offset, bytecode_offset): fields in class order; arguments evaluated in the order written
    fields = ["line_offset", "bytecode_offset"]
    binds, got = [], {}
    for n, arg in enumerate(elt.args):
        if n >= 2:
            raise Decline("arguments of LineTableItem")
        got[fields[n]] = "x%d__" % len(binds)
        binds.append(("x%d__" % len(binds), byte_read(arg, env, "b")))
    for k in elt.keywords:
        if k.arg not in fields or k.arg in got:
            raise Decline("keyword of LineTableItem")
        got[k.arg] = "x%d__" % len(binds)
        binds.append(("x%d__" % len(binds), byte_read(k.value, env, "b")))
    if set(got) != set(fields):
        raise Decline("fields of LineTableItem")
    inner = "OK (%s, %s)" % (got["line_offset"], got["bytecode_offset"])
    for name, rd in reversed(binds):
        inner = "do %s <- %s; %s" % (name, rd, inner)
    return "Definition bytes_to_items (b : list Z) : res (list eitem) :=\n  mapM (fun %s : Z => %s) %s.\n" % (i, inner, rng)


def translate_items_to_bytes(f):
    if f.decorator_list or [a.arg for a in f.args.args] != ["items"]:
        raise Decline("items_to_bytes signature")
    e = body_of(f)
    if not (isinstance(e, ast.Call) and isinstance(e.func, ast.Name) and e.func.id == "bytes" and len(e.args) == 1 and not e.keywords):
        raise Decline("items_to_bytes is not bytes(...)")
    c = e.args[0]
    if not (isinstance(c, ast.Call) and same(c.func, "chain.from_iterable") and len(c.args) == 1 and not c.keywords
            and isinstance(c.args[0], (ast.GeneratorExp, ast.ListComp))):
        raise Decline("chain.from_iterable")
    g = c.args[0]
    if not (len(g.generators) == 1 and not g.generators[0].ifs and isinstance(g.generators[0].target, ast.Name)
            and isinstance(g.generators[0].iter, ast.Name) and g.generators[0].iter.id == "items" and isinstance(g.elt, (ast.List, ast.Tuple))):
        raise Decline("generator of items_to_bytes")
    v = g.generators[0].target.id
    env = {v + ".line_offset": "(fst %s)" % v, v + ".bytecode_offset": "(snd %s)" % v}
    elts = [zexpr(x, env) for x in g.elt.elts]
    return ("Definition items_to_bytes (items : list eitem) : res (list Z) :=\n  bytes_of (concat (map (fun %s : eitem => [%s]) items)).\n"
            % (v, "; ".join(elts)))


ITEMS = [("bytes_to_items", translate_bytes_to_items), ("items_to_bytes", translate_items_to_bytes)]

HEADER = ("(* generated by harness/translate_stage1.py from /repo/code_data/_line_mapping.py on every run; do not edit *)\n"
          "From PCD Require Import Base.PyBase Base.PyImp Model.LineTable.\nOpen Scope Z_scope.\n\n")


def generate(repo, outpath, fallback_dir, write_fallback=False):
    import os
    from common import write_if_changed
    notes = {}
    tree = None
    try:
        with open(os.path.join(repo, "code_data", "_line_mapping.py")) as f:
            tree = ast.parse(f.read())
    except (OSError, SyntaxError) as e:
        notes["parse"] = "declined: %s" % e
    out = [HEADER]
    for name, fn in ITEMS:
        fb = os.path.join(fallback_dir, "SrcStage1_%s.v" % name)
        try:
            if tree is None:
                raise Decline("source unreadable")
            fs = [n for n in tree.body if isinstance(n, ast.FunctionDef) and n.name == name]
            if len(fs) != 1:
                raise Decline("definition of " + name)
            text = fn(fs[0])
            notes[name] = "translated"
            flag = "true"
            if write_fallback:
                with open(fb, "w") as f:
                    f.write(text)
        except (Decline, IndexError, KeyError, AttributeError, ValueError) as e:
            notes[name] = "declined: %s" % e
            with open(fb) as f:
                text = ("(* declined (%s): reference translation of the pinned source; tied by correspondence only *)\n"
                        % str(e).replace("*)", "* )")[:100]) + f.read()
            flag = "false"
        out.append(text + "Definition %s_translated := %s.\n\n" % (name, flag))
    notes["changed"] = write_if_changed(outpath, "".join(out))
    return notes


if __name__ == "__main__":
    import sys
    import os
    here = os.path.dirname(os.path.abspath(__file__))
    sys.path.insert(0, here)
    print(generate("/repo", os.path.join(here, "..", "coq", "Gen", "SrcStage1.v"), os.path.join(here, "fallback"),
                   write_fallback="--write-fallback" in sys.argv))
