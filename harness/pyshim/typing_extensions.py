# Minimal stand-in for typing_extensions on the 3.7-3.10 interpreters of this sandbox,
# which have no site-packages copy.  code_data only needs `Literal`.
try:
    from typing import Literal  # 3.8+
except ImportError:  # 3.7
    class _LiteralForm:
        def __getitem__(self, item):
            class _L:
                pass
            return _L
    Literal = _LiteralForm()
