# Translator for the constant branches of code_data/_json_data.py:value_to_json (C07 / C15): for each kind of inner constant
# the first branch of the function that applies is found (isinstance tests in source order, `bool` being an `int`, the test
# `value == ...` holding for Ellipsis only) and its returned expression is re-translated into the JSON terms of
# Model/Json.v (coq/Gen/SrcToJson.v); SrcToJsonTie proves the result equal to the model's iconst_to_json for all constants.
# Declared meanings: isinf / isnan on a float pattern, `value > 0` for an infinity, str(int) / hex(int) as decimal / hex text,
# value.encode("utf-8") raising exactly for strings with surrogate code points, ascii() and base64 as the identity stand-ins
# of the model (the harness canonicalises them).  Fail-closed on any other shape.
import ast

from translate_src import Decline

CTORS = [("INone", {"NoneType"}), ("IBool", {"bool", "int"}), ("IInt", {"int"}), ("IFloat", {"float"}), ("IComplex", {"complex"}),
         ("IStr", {"str"}), ("IBytes", {"bytes"}), ("IEllipsis", {"ellipsis"}), ("ITuple", {"tuple"}), ("IFrozenset", {"frozenset"})]
PAT = {"INone": "INone", "IBool": "IBool b", "IInt": "IInt z", "IFloat": "IFloat bits", "IComplex": "IComplex re im", "IStr": "IStr s",
       "IBytes": "IBytes bs", "IEllipsis": "IEllipsis", "ITuple": "ITuple l", "IFrozenset": "IFrozenset l"}


def same(node, text, mode="eval"):
    want = ast.parse(text, mode=mode)
    want = want.body if mode == "eval" else want.body[0]
    return ast.dump(node) == ast.dump(want)


def type_names(e):
    if isinstance(e, ast.Tuple):
        out = set()
        for x in e.elts:
            out |= type_names(x)
        return out
    if isinstance(e, ast.Name) and e.id in ("str", "bytes", "bool", "int", "float", "complex", "tuple", "frozenset"):
        return {e.id}
    if isinstance(e, ast.Call) and isinstance(e.func, ast.Name) and e.func.id == "type" and len(e.args) == 1:
        a = e.args[0]
        if isinstance(a, ast.Constant) and a.value is None:
            return {"NoneType"}
        if isinstance(a, ast.Constant) and a.value is Ellipsis:
            return {"ellipsis"}
    raise Decline("type expression")


def lit(text):
    return '(lit "%s")' % text


def jstr(e):
    """a str-valued expression -> Gallina str"""
    if isinstance(e, ast.Constant) and isinstance(e.value, str) and e.value.isascii() and '"' not in e.value:
        return lit(e.value)
    raise Decline("string expression")


def float_branch(body):
    """statements of the float branch -> Gallina json in terms of bits"""
    if not body:
        raise Decline("float branch falls through")
    s, rest = body[0], body[1:]
    if isinstance(s, ast.If) and not s.orelse and len(s.body) == 1 and isinstance(s.body[0], ast.Return):
        if same(s.test, "isinf(value)"):
            v = s.body[0].value
            if same(v, '{"float": "inf" if value > 0 else "-inf"}'):
                then = 'JObj [(lit "float", JStr (if bits =? 9218868437227405312 then lit "inf" else lit "-inf"))]'
            else:
                raise Decline("infinity form")
            return "(if float_is_inf bits then %s else %s)" % (then, float_branch(rest))
        if same(s.test, "isnan(value)"):
            if not same(s.body[0].value, '{"float": "nan"}'):
                raise Decline("nan form")
            return '(if float_is_nan bits then JObj [(lit "float", JStr (lit "nan"))] else %s)' % float_branch(rest)
        raise Decline("test in the float branch")
    if isinstance(s, ast.Return) and same(s.value, "value"):
        return "JFloat bits"
    raise Decline("statement in the float branch")


def int_branch(body, var="z"):
    if len(body) == 2 and isinstance(body[0], ast.If) and not body[0].orelse and same(body[0].test, "value < MIN_INTEGER or value > MAX_INTEGER") \
            and isinstance(body[1], ast.Return) and same(body[1].value, "value"):
        inner = body[0].body
        if len(inner) == 1 and isinstance(inner[0], ast.Return) and same(inner[0].value, '{"int": str(value)}'):
            text = "decimal %s" % var
        elif (len(inner) == 2 and isinstance(inner[0], ast.If) and not inner[0].orelse and same(inner[0].test, "value.bit_length() > MAX_DECIMAL_BITS")
              and len(inner[0].body) == 1 and isinstance(inner[0].body[0], ast.Return) and same(inner[0].body[0].value, '{"int": hex(value)}')
              and isinstance(inner[1], ast.Return) and same(inner[1].value, '{"int": str(value)}')):
            text = "(if bit_length %s >? PCD.Gen.Src.MAX_DECIMAL_BITS then hex_text %s else decimal %s)" % (var, var, var)
        else:
            raise Decline("big-int form")
        return ('(if (%s <? PCD.Gen.Src.MIN_INTEGER) || (%s >? PCD.Gen.Src.MAX_INTEGER) then JObj [(lit "int", JStr %s)] else JINT)'
                % (var, var, text))
    raise Decline("int branch")


def str_branch(body):
    if (len(body) == 2 and isinstance(body[0], ast.Try) and len(body[0].body) == 1 and same(body[0].body[0], 'value.encode("utf-8")', "exec")
            and len(body[0].handlers) == 1 and isinstance(body[0].handlers[0].type, ast.Name) and body[0].handlers[0].type.id == "UnicodeEncodeError"
            and not body[0].orelse and not body[0].finalbody and isinstance(body[1], ast.Return) and same(body[1].value, "value")):
        h = [x for x in body[0].handlers[0].body if not (isinstance(x, ast.Expr) and isinstance(x.value, ast.Constant))]
        if len(h) == 1 and isinstance(h[0], ast.Return) and same(h[0].value, '{"string": ascii(value)}'):
            return '(if has_surrogate s then JObj [(lit "string", JStr (py_repr s))] else JStr s)'
    raise Decline("str branch")


def translate(tree):
    f = next((n for n in tree.body if isinstance(n, ast.FunctionDef) and n.name == "value_to_json"), None)
    if f is None or f.decorator_list or [a.arg for a in f.args.args] != ["value"]:
        raise Decline("value_to_json")
    body = [s for s in f.body if not (isinstance(s, ast.Expr) and isinstance(s.value, ast.Constant))]
    branches = []      # (predicate over ctor python types, statements)
    for s in body:
        if isinstance(s, ast.If) and not s.orelse:
            t = s.test
            if isinstance(t, ast.Call) and isinstance(t.func, ast.Name) and t.func.id == "isinstance" and len(t.args) == 2 \
                    and isinstance(t.args[0], ast.Name) and t.args[0].id == "value":
                branches.append(("types", type_names(t.args[1]), s.body))
            elif same(t, "value == ..."):
                branches.append(("types", {"ellipsis"}, s.body))
            elif same(t, "is_dataclass(value)"):
                branches.append(("types", set(), s.body))          # inner constants are not dataclasses
            else:
                raise Decline("test " + ast.dump(t)[:50])
        elif isinstance(s, ast.Raise) and s is body[-1]:
            pass
        else:
            raise Decline("statement " + type(s).__name__)
    arms = []
    for ctor, pytys in CTORS:
        hit = next((b for _, tys, b in branches if tys & pytys), None)
        if hit is None:
            raise Decline("no branch for " + ctor)
        hit = [x for x in hit if not (isinstance(x, ast.Expr) and isinstance(x.value, ast.Constant))]
        if ctor == "IFloat":
            text = float_branch(hit)
        elif ctor == "IInt":
            text = int_branch(hit).replace("JINT", "JInt z")
        elif ctor == "IBool":
            # a bool takes the int branch: never outside the bounds, returned as it is
            text = int_branch(hit, var="(b2z' b)").replace("JINT", "JBool b")
        elif ctor == "IStr":
            text = str_branch(hit)
        else:
            if not (len(hit) == 1 and isinstance(hit[0], ast.Return)):
                raise Decline("branch of " + ctor)
            v = hit[0].value
            if ctor == "INone" and same(v, "value"):
                text = "JNull"
            elif ctor == "IEllipsis" and same(v, '{"type": "ellipsis"}'):
                text = 'JObj [(lit "type", JStr (lit "ellipsis"))]'
            elif ctor == "IComplex" and same(v, '{"real": value_to_json(value.real), "imag": value_to_json(value.imag)}'):
                text = 'JObj [(lit "real", float_json re); (lit "imag", float_json im)]'
            elif ctor == "IBytes" and same(v, '{"bytes": b64encode(value).decode("ascii")}'):
                text = 'JObj [(lit "bytes", JStr (b64encode bs))]'
            elif ctor == "ITuple" and same(v, "list(map(value_to_json, value))"):
                text = "JList (map to_json l)"
            elif ctor == "IFrozenset" and same(v, '{"frozenset": list(map(value_to_json, value))}'):
                text = 'JObj [(lit "frozenset", JList (map to_json l))]'
            else:
                raise Decline("returned form of " + ctor)
        arms.append("  | %s => %s" % (PAT[ctor], text))
    fl = float_branch([x for x in next(b for _, tys, b in branches if "float" in tys)
                       if not (isinstance(x, ast.Expr) and isinstance(x.value, ast.Constant))])
    return ("Definition b2z' (b : bool) : Z := if b then 1 else 0.\n"
            "Definition float_json (bits : Z) : json := %s.\n"
            "Fixpoint to_json (value : iconst) : json :=\n  match value with\n%s\n  end.\n" % (fl, "\n".join(arms)))


HEADER = ("(* generated by harness/translate_tojson.py from /repo/code_data/_json_data.py on every run; do not edit *)\n"
          "From Coq Require Import String.\n"
          "From PCD Require Import Base.PyBase Base.Cfg Model.Flags Model.Args Model.Data Model.Consts Model.Json.\nFrom PCD Require Gen.Src.\n"
          "Open Scope Z_scope.\n\n")


def generate(repo, outpath, fallback_dir, write_fallback=False):
    import os
    from common import write_if_changed
    notes = {}
    fb = os.path.join(fallback_dir, "SrcToJson.v")
    try:
        with open(os.path.join(repo, "code_data", "_json_data.py")) as f:
            tree = ast.parse(f.read())
        text = translate(tree)
        notes["to_json"] = "translated"
        flag = "true"
        if write_fallback:
            with open(fb, "w") as f:
                f.write(text)
    except (Decline, OSError, SyntaxError, IndexError, KeyError, AttributeError, StopIteration) as e:
        notes["to_json"] = "declined: %s" % e
        with open(fb) as f:
            text = ("(* declined (%s): reference translation of the pinned source; tied by correspondence only *)\n"
                    % str(e).replace("*)", "* )")[:100]) + f.read()
        flag = "false"
    notes["changed"] = write_if_changed(outpath, HEADER + text + "Definition to_json_translated := %s.\n" % flag)
    return notes


if __name__ == "__main__":
    import sys
    import os
    here = os.path.dirname(os.path.abspath(__file__))
    sys.path.insert(0, here)
    print(generate("/repo", os.path.join(here, "..", "coq", "Gen", "SrcToJson.v"), os.path.join(here, "fallback"),
                   write_fallback="--write-fallback" in sys.argv))
