# Gallina terms and token streams for code objects and CodeData values (see coq/Model/DataSer.v).
# Python 3.7 compatible; imported by the workers.
import dis
import struct
import sys
import types

from enc import gz, gbool, glist, gopt, gstr, gzlist, tz, tbool, topt, tlist, tstr

V38 = sys.version_info >= (3, 8)
V310 = sys.version_info >= (3, 10)


def float_bits(x):
    return struct.unpack(">Q", struct.pack(">d", x))[0]


def opcode_of(name):
    if name in dis.opmap:
        return dis.opmap[name]
    if name.startswith("<") and name.endswith(">") and name[1:-1].isdigit():
        return int(name[1:-1])
    return 100000 + sum(map(ord, name))


class Unsupported(Exception):
    pass


# ---- inner constants.  frozensets are listed in canonical order (sorted by token stream)
def t_iconst(v):
    if v is None:
        return [0]
    if v is Ellipsis:
        return [7]
    t = type(v)
    if t is bool:
        return [1, 1 if v else 0]
    if t is int:
        return [2, v]
    if t is float:
        return [3, float_bits(v)]
    if t is complex:
        return [4, float_bits(v.real), float_bits(v.imag)]
    if t is str:
        return [5] + tstr(v)
    if t is bytes:
        return [6] + tlist(v, tz)
    if t is tuple:
        return [8] + tlist(v, t_iconst)
    if t is frozenset:
        return [9] + tlist(sorted(v, key=t_iconst), t_iconst)
    raise Unsupported(repr(t))


def g_iconst(v):
    if v is None:
        return "INone"
    if v is Ellipsis:
        return "IEllipsis"
    t = type(v)
    if t is bool:
        return "(IBool %s)" % gbool(v)
    if t is int:
        return "(IInt %s)" % gz(v)
    if t is float:
        return "(IFloat %d)" % float_bits(v)
    if t is complex:
        return "(IComplex %d %d)" % (float_bits(v.real), float_bits(v.imag))
    if t is str:
        return "(IStr %s)" % gstr(v)
    if t is bytes:
        return "(IBytes %s)" % gzlist(v)
    if t is tuple:
        return "(ITuple %s)" % glist([g_iconst(x) for x in v], "iconst")
    if t is frozenset:
        return "(IFrozenset %s)" % glist([g_iconst(x) for x in sorted(v, key=t_iconst)], "iconst")
    raise Unsupported(repr(t))


# ---- code objects
def table_of(c):
    return c.co_linetable if V310 else c.co_lnotab


def g_pyconst(k):
    if isinstance(k, types.CodeType):
        return "(PCode %s)" % g_pycode(k)
    return "(PInner %s)" % g_iconst(k)


def t_pyconst(k):
    if isinstance(k, types.CodeType):
        return [1] + t_pycode(k)
    return [0] + t_iconst(k)


def gstrs(l):
    return glist([gstr(s) for s in l], "str")


def g_pycode(c):
    return "(mkCode %s %s %s %s %s %s %s %s %s %s %s %s %s %s %s %s)" % (
        gz(c.co_argcount), gz(c.co_posonlyargcount if V38 else 0), gz(c.co_kwonlyargcount),
        gz(c.co_nlocals), gz(c.co_stacksize), gz(c.co_flags), gzlist(c.co_code),
        glist([g_pyconst(k) for k in c.co_consts], "pyconst"), gstrs(c.co_names), gstrs(c.co_varnames),
        gstr(c.co_filename), gstr(c.co_name), gz(c.co_firstlineno), gzlist(table_of(c)),
        gstrs(c.co_freevars), gstrs(c.co_cellvars))


def t_pycode(c):
    return ([c.co_argcount, c.co_posonlyargcount if V38 else 0, c.co_kwonlyargcount, c.co_nlocals,
             c.co_stacksize, c.co_flags] + tlist(c.co_code, tz) + tlist(c.co_consts, t_pyconst)
            + tlist(c.co_names, tstr) + tlist(c.co_varnames, tstr) + tstr(c.co_filename) + tstr(c.co_name)
            + [c.co_firstlineno] + tlist(table_of(c), tz) + tlist(c.co_freevars, tstr)
            + tlist(c.co_cellvars, tstr))


# ---- CodeData
FNTYPE = {"GENERATOR": (0, "FT_GENERATOR"), "COROUTINE": (1, "FT_COROUTINE"),
          "ASYNC_GENERATOR": (2, "FT_ASYNC_GENERATOR")}


def _cd():
    import code_data
    return code_data


def g_const(k):
    if isinstance(k, _cd().CodeData):
        return "(KCode %s)" % g_cd(k)
    return "(KInner %s)" % g_iconst(k)


def t_const(k):
    if isinstance(k, _cd().CodeData):
        return [1] + t_cd(k)
    return [0] + t_iconst(k)


def g_arg(a):
    cd = _cd()
    if isinstance(a, bool):
        raise Unsupported("bool arg")
    if isinstance(a, int):
        return "(AInt %s)" % gz(a)
    if isinstance(a, cd.Jump):
        return "(AJump %s %s)" % (gz(a.target), gbool(a.relative))
    if isinstance(a, cd.Name):
        return "(AName %s %s)" % (gstr(a.name), gopt(a._index_override, gz, "Z"))
    if isinstance(a, cd.Varname):
        return "(AVarname %s %s)" % (gstr(a.varname), gopt(a._index_override, gz, "Z"))
    if isinstance(a, cd.Constant):
        return "(AConst %s %s)" % (g_const(a.constant), gopt(a._index_override, gz, "Z"))
    if isinstance(a, cd.Freevar):
        return "(AFreevar %s)" % gstr(a.freevar)
    if isinstance(a, cd.Cellvar):
        return "(ACellvar %s %s)" % (gstr(a.cellvar), gopt(a._index_override, gz, "Z"))
    if isinstance(a, cd.NoArg):
        return "(ANoArg %s)" % gz(a._arg)
    raise Unsupported(repr(type(a)))


def t_arg(a):
    cd = _cd()
    if isinstance(a, int):
        return [0, a]
    if isinstance(a, cd.Jump):
        return [1, a.target, 1 if a.relative else 0]
    if isinstance(a, cd.Name):
        return [2] + tstr(a.name) + topt(a._index_override, tz)
    if isinstance(a, cd.Varname):
        return [3] + tstr(a.varname) + topt(a._index_override, tz)
    if isinstance(a, cd.Constant):
        return [4] + t_const(a.constant) + topt(a._index_override, tz)
    if isinstance(a, cd.Freevar):
        return [5] + tstr(a.freevar)
    if isinstance(a, cd.Cellvar):
        return [6] + tstr(a.cellvar) + topt(a._index_override, tz)
    if isinstance(a, cd.NoArg):
        return [7, a._arg]
    raise Unsupported(repr(type(a)))


def g_instr(i):
    return "(mkInstr %d %s %s %s %s)" % (opcode_of(i.name), g_arg(i.arg), gopt(i._n_args_override, gz, "Z"),
                                         gopt(i.line_number, gz, "Z"), gzlist(i._line_offsets_override))


def t_instr(i):
    return ([opcode_of(i.name)] + t_arg(i.arg) + topt(i._n_args_override, tz) + topt(i.line_number, tz)
            + tlist(i._line_offsets_override, tz))


def g_args(a):
    return "{| a_posonly := %s; a_poskw := %s; a_varpos := %s; a_kwonly := %s; a_varkw := %s |}" % (
        gstrs(a.positional_only), gstrs(a.positional_or_keyword), gopt(a.var_positional, gstr, "str"),
        gstrs(a.keyword_only), gopt(a.var_keyword, gstr, "str"))


def t_args(a):
    return (tlist(a.positional_only, tstr) + tlist(a.positional_or_keyword, tstr) + topt(a.var_positional, tstr)
            + tlist(a.keyword_only, tstr) + topt(a.var_keyword, tstr))


def g_function(f):
    return "(mkFunction %s %s %s)" % (g_args(f.args), gopt(f.docstring, gstr, "str"),
                                      gopt(f.type, lambda t: FNTYPE[t][1], "fntype"))


def t_function(f):
    return t_args(f.args) + topt(f.docstring, tstr) + topt(f.type, lambda t: [FNTYPE[t][0]])


def g_addline(a):
    return "(mkAddline %s %s)" % (gopt(a.line, gz, "Z"), gzlist(a.additional_offsets))


def t_addline(a):
    return topt(a.line, tz) + tlist(a.additional_offsets, tz)


def g_cd(d):
    blocks = glist([glist([g_instr(i) for i in b], "instruction") for b in d.blocks], "(list instruction)")
    return "(mkCD %s %s %s %s %s %s %s %s %s %s %s)" % (
        blocks, gstr(d.filename), gz(d.first_line_number), gstr(d.name), gz(d.stacksize),
        gopt(d.type, g_function, "function"), gstrs(d.freevars), gbool(d.future_annotations),
        gbool(d._nested), gopt(d._additional_line, g_addline, "addline"),
        glist([g_arg(a) for a in d._additional_args], "arg"))


def t_cd(d):
    return (tlist(d.blocks, lambda b: tlist(b, t_instr)) + tstr(d.filename) + [d.first_line_number]
            + tstr(d.name) + [d.stacksize] + topt(d.type, t_function) + tlist(d.freevars, tstr)
            + tbool(d.future_annotations) + tbool(d._nested) + topt(d._additional_line, t_addline)
            + tlist(d._additional_args, t_arg))


# ---- strict comparison of code objects (== ignores the line table, filename, stacksize, constant types)
CO_FIELDS = ["co_argcount", "co_kwonlyargcount", "co_nlocals", "co_stacksize", "co_flags", "co_code",
             "co_names", "co_varnames", "co_filename", "co_name", "co_firstlineno", "co_freevars",
             "co_cellvars"] + (["co_posonlyargcount"] if V38 else []) + (["co_linetable"] if V310 else ["co_lnotab"])


def strict_diff(a, b, path="code"):
    """first difference between two code objects, attribute by attribute, constants type- and bit-exact"""
    for f in CO_FIELDS:
        if getattr(a, f) != getattr(b, f) or type(getattr(a, f)) is not type(getattr(b, f)):
            return "%s.%s: %r != %r" % (path, f, getattr(a, f), getattr(b, f))
    if len(a.co_consts) != len(b.co_consts):
        return "%s.co_consts: length %d != %d" % (path, len(a.co_consts), len(b.co_consts))
    for i, (x, y) in enumerate(zip(a.co_consts, b.co_consts)):
        if isinstance(x, types.CodeType) or isinstance(y, types.CodeType):
            if not (isinstance(x, types.CodeType) and isinstance(y, types.CodeType)):
                return "%s.co_consts[%d]: %r != %r" % (path, i, x, y)
            r = strict_diff(x, y, "%s.co_consts[%d]" % (path, i))
            if r:
                return r
        elif t_iconst_nan(x) != t_iconst_nan(y):
            return "%s.co_consts[%d]: %r != %r" % (path, i, x, y)
    return None


def srepr(x):
    """repr for sorting that never converts a huge int to decimal (the conversion is limited, see enc.gz)"""
    if isinstance(x, bool) or not isinstance(x, (int, list, tuple)):
        return repr(x)
    if isinstance(x, int):
        return "%x" % x
    return "[" + ",".join(srepr(y) for y in x) + "]"


def t_iconst_nan(v):
    """token stream with every NaN identified (payloads are not observable through the API)"""
    t = type(v)
    if t is float and v != v:
        return [3, "nan"]
    if t is complex:
        return [4] + ["nan" if p != p else float_bits(p) for p in (v.real, v.imag)]
    if t is tuple:
        return [8, len(v)] + [t_iconst_nan(x) for x in v]
    if t is frozenset:
        return [9, len(v)] + sorted((t_iconst_nan(x) for x in v), key=srepr)
    return t_iconst(v)
