# Translator for code_data/_blocks.py:to_arg (C02 / C13): the elif chain that turns (opcode, folded operand, offset of the
# next instruction) into a Jump / Name / Varname / Cellvar / Freevar / Constant / NoArg / int is re-translated on every run
# (coq/Gen/SrcToArg.v) and proved equal to Model/Blocks.to_arg for all inputs and all table states.
# Opcode classes come from the configuration (dis.hasjabs -> cfg_hasjabs c, HAVE_ARGUMENT -> cfg_have_argument c,
# _ATLEAST_310 -> cfg_v310 c, checked against its definition); found_X.found_index(i) is the table operation of the model.
import ast

from translate_src import Decline

CLASSES = {"hasjabs", "hasjrel", "hasname", "haslocal", "hasfree", "hasconst"}
TABLES = {"found_names": ("d_names", "str_eqb", 0), "found_varnames": ("d_varnames", "str_eqb", 1),
          "found_cellvars": ("d_cellvars", "str_eqb", 2), "found_constants": ("d_consts", "keq", 3)}
CTORS = {"Name": ("AName", "found_names"), "Varname": ("AVarname", "found_varnames"), "Cellvar": ("ACellvar", "found_cellvars"),
         "Constant": ("AConst", "found_constants")}
FIELDS = ["d_names", "d_varnames", "d_cellvars", "d_consts"]


def zexpr(e, env):
    if isinstance(e, ast.Constant) and isinstance(e.value, int) and not isinstance(e.value, bool):
        return "(%d)" % e.value
    if isinstance(e, ast.Name) and e.id in env:
        return env[e.id]
    if isinstance(e, ast.BinOp) and isinstance(e.op, (ast.Add, ast.Sub, ast.Mult)):
        op = {ast.Add: "+", ast.Sub: "-", ast.Mult: "*"}[type(e.op)]
        return "(%s %s %s)" % (zexpr(e.left, env), op, zexpr(e.right, env))
    if isinstance(e, ast.IfExp) and isinstance(e.test, ast.Name) and e.test.id == "_ATLEAST_310":
        return "(if cfg_v310 c then %s else %s)" % (zexpr(e.body, env), zexpr(e.orelse, env))
    if (isinstance(e, ast.Call) and isinstance(e.func, ast.Name) and e.func.id == "len" and len(e.args) == 1
            and isinstance(e.args[0], ast.Name) and e.args[0].id in TABLES):
        return "(zlen (ta_args (%s st)))" % TABLES[e.args[0].id][0]
    raise Decline("integer expression " + ast.dump(e)[:60])


def bexpr(e, env):
    if isinstance(e, ast.Compare) and len(e.ops) == 1:
        op, l, r = e.ops[0], e.left, e.comparators[0]
        if (isinstance(op, ast.In) and isinstance(l, ast.Name) and l.id == "opcode" and isinstance(r, ast.Attribute)
                and isinstance(r.value, ast.Name) and r.value.id == "dis" and r.attr in CLASSES):
            return "(zmem opcode (cfg_%s c))" % r.attr
        if isinstance(op, ast.Lt):
            if isinstance(r, ast.Name) and r.id == "HAVE_ARGUMENT" and isinstance(l, ast.Name) and l.id == "opcode":
                return "(opcode <? cfg_have_argument c)"
            return "(%s <? %s)" % (zexpr(l, env), zexpr(r, env))
    if isinstance(e, ast.Name) and e.id in env and env[e.id].startswith("(b:"):
        return env[e.id][3:-1]
    raise Decline("condition " + ast.dump(e)[:60])


def ret(e, env):
    if isinstance(e, ast.Name) and e.id == "arg":
        return "OK (AInt a, st)"
    if not (isinstance(e, ast.Call) and isinstance(e.func, ast.Name) and not e.keywords):
        raise Decline("returned expression")
    f = e.func.id
    if f == "Jump" and len(e.args) == 2 and isinstance(e.args[1], ast.Constant) and isinstance(e.args[1].value, bool):
        return "OK (AJump %s %s, st)" % (zexpr(e.args[0], env), "true" if e.args[1].value else "false")
    if f == "NoArg" and len(e.args) == 1:
        return "OK (ANoArg %s, st)" % zexpr(e.args[0], env)
    if f == "Freevar" and len(e.args) == 1:
        x = e.args[0]
        sl = x.slice.value if isinstance(x, ast.Subscript) and isinstance(x.slice, ast.Index) else getattr(x, "slice", None)
        if isinstance(x, ast.Subscript) and isinstance(x.value, ast.Name) and x.value.id == "freevars":
            return "match py_index freevars %s with Some s => OK (AFreevar s, st) | None => Err IndexError end" % zexpr(sl, env)
        raise Decline("Freevar argument")
    if f in CTORS and len(e.args) == 1 and isinstance(e.args[0], ast.Starred):
        ctor, want = CTORS[f]
        c = e.args[0].value
        if (isinstance(c, ast.Call) and isinstance(c.func, ast.Attribute) and c.func.attr == "found_index"
                and isinstance(c.func.value, ast.Name) and c.func.value.id in TABLES and len(c.args) == 1):
            tab = c.func.value.id
            fld, eq, pos = TABLES[tab]
            new = " ".join("t" if i == pos else "(%s st)" % FIELDS[i] for i in range(4))
            return ("match found_index %s (%s st) %s with OK (x, ov, t) => OK (%s x ov, mkDec %s) | Err e => Err e end"
                    % (eq, fld, zexpr(c.args[0], env), ctor, new))
    raise Decline("returned expression " + f)


def block(stmts, env, fall):
    """if / elif / return chain -> Gallina; fall: text for falling off the end of this block"""
    if not stmts:
        if fall is None:
            raise Decline("a branch falls off the end")
        return fall
    s, rest = stmts[0], stmts[1:]
    if isinstance(s, ast.Expr) and isinstance(s.value, ast.Constant):
        return block(rest, env, fall)
    if isinstance(s, ast.Return) and s.value is not None:
        return ret(s.value, env)
    if isinstance(s, ast.Assign) and len(s.targets) == 1 and isinstance(s.targets[0], ast.Name):
        b = bexpr(s.value, env)
        env2 = dict(env)
        env2[s.targets[0].id] = "(b:%s)" % b
        return block(rest, env2, fall)
    if isinstance(s, ast.If):
        after = block(rest, env, fall) if rest or fall is not None else None
        then = block(s.body, env, after)
        els = block(s.orelse, env, after) if s.orelse else after
        if els is None:
            raise Decline("if without else at the end")
        return "(if %s then %s\n   else %s)" % (bexpr(s.test, env), then, els)
    raise Decline("statement " + type(s).__name__)


def translate(tree):
    f = next((n for n in tree.body if isinstance(n, ast.FunctionDef) and n.name == "to_arg"), None)
    if f is None or f.decorator_list:
        raise Decline("to_arg")
    want = ["opcode", "arg", "next_offset", "found_names", "found_varnames", "freevars", "found_cellvars", "found_constants"]
    if [a.arg for a in f.args.args] != want:
        raise Decline("signature of to_arg")
    ok310 = any(isinstance(n, ast.Assign) and len(n.targets) == 1 and isinstance(n.targets[0], ast.Name) and n.targets[0].id == "_ATLEAST_310"
                and ast.dump(n.value) == ast.dump(ast.parse("sys.version_info >= (3, 10)", mode="eval").body) for n in tree.body)
    if not ok310:
        raise Decline("definition of _ATLEAST_310")
    env = {"arg": "a", "next_offset": "next_offset", "opcode": "opcode"}
    text = block(f.body, env, None)
    return ("Section ToArg.\n  Context {C : Type} (keq : C -> C -> bool).\n"
            "  Definition to_arg (c : cfg) (opcode a next_offset : Z) (freevars : list str) (st : decstate C)\n"
            "    : res (arg_ C * decstate C) :=\n    %s.\nEnd ToArg.\n" % text)


HEADER = ("(* generated by harness/translate_toarg.py from /repo/code_data/_blocks.py on every run; do not edit *)\n"
          "From PCD Require Import Base.PyBase Base.Cfg Model.Flags Model.Args Model.Data Model.LineTable Model.Blocks.\n\n")


def generate(repo, outpath, fallback_dir, write_fallback=False):
    import os
    from common import write_if_changed
    notes = {}
    fb = os.path.join(fallback_dir, "SrcToArg.v")
    try:
        with open(os.path.join(repo, "code_data", "_blocks.py")) as f:
            tree = ast.parse(f.read())
        text = translate(tree)
        notes["to_arg"] = "translated"
        flag = "true"
        if write_fallback:
            with open(fb, "w") as f:
                f.write(text)
    except (Decline, OSError, SyntaxError, IndexError, KeyError, AttributeError) as e:
        notes["to_arg"] = "declined: %s" % e
        with open(fb) as f:
            text = ("(* declined (%s): reference translation of the pinned source; tied by correspondence only *)\n"
                    % str(e).replace("*)", "* )")[:100]) + f.read()
        flag = "false"
    notes["changed"] = write_if_changed(outpath, HEADER + text + "Definition to_arg_translated := %s.\n" % flag)
    return notes


if __name__ == "__main__":
    import sys
    import os
    here = os.path.dirname(os.path.abspath(__file__))
    sys.path.insert(0, here)
    print(generate("/repo", os.path.join(here, "..", "coq", "Gen", "SrcToArg.v"), os.path.join(here, "fallback"),
                   write_fallback="--write-fallback" in sys.argv))
