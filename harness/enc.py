# Shared by the workers (run under CPython 3.7-3.10) and the host driver.
# Renders Python values as Gallina terms and as flat token streams (see coq/Base/Ser.v).
# Must stay compatible with Python 3.7.


def gz(n):
    n = int(n)
    if n.bit_length() > 1024:
        # hexadecimal numeral: the decimal conversion of huge ints is limited (sys.set_int_max_str_digits) and the
        # worker must not lift that limit, the library under test runs in the same process
        return "0x%x" % n if n >= 0 else "(-0x%x)" % -n
    return str(n) if n >= 0 else "(%d)" % n


def gbool(b):
    return "true" if b else "false"


def glist(items, ty=None):
    items = list(items)
    if not items:
        return "(@nil %s)" % ty if ty else "[]"
    return "[" + "; ".join(items) + "]"


def gzlist(ns):
    return glist([gz(n) for n in ns], "Z")


def gopt(x, f, ty=None):
    if x is None:
        return "(@None %s)" % ty if ty else "None"
    return "(Some %s)" % f(x)


def gstr(s):
    return gzlist([ord(ch) for ch in s])


def gpair(a, b):
    return "(%s, %s)" % (a, b)


# token streams
def tz(n):
    return [int(n)]


def tbool(b):
    return [1 if b else 0]


def topt(x, f):
    return [0] if x is None else [1] + f(x)


def tlist(l, f):
    l = list(l)
    out = [len(l)]
    for x in l:
        out.extend(f(x))
    return out


def tstr(s):
    return tlist(s, lambda ch: [ord(ch)])


EXN_CODES = {
    "KeyError": 1, "IndexError": 2, "ValueError": 3, "AssertionError": 4,
    "NotImplementedError": 5, "TypeError": 6, "AttributeError": 7, "NameError": 8,
    "UnboundLocalError": 8, "OutOfFuel": 9,
}


class Timeout(Exception):
    pass


def call(f, *a, **kw):
    """run f, returning ('ok', value) or ('err', class name)"""
    try:
        return ("ok", f(*a, **kw))
    except Timeout:
        return ("err", "OutOfFuel")
    except RecursionError:
        raise
    except Exception as e:  # noqa
        return ("err", type(e).__name__)


def tres(r, f, cls=False):
    if r[0] == "ok":
        return [0] + f(r[1])
    return [1, EXN_CODES.get(r[1], 0)] if cls else [1]


FLAG_NAMES = ["OPTIMIZED", "NEWLOCALS", "VARARGS", "VARKEYWORDS", "NESTED", "GENERATOR", "NOFREE",
              "COROUTINE", "ITERABLE_COROUTINE", "ASYNC_GENERATOR", "division", "absolute_import",
              "with_statement", "print_function", "unicode_literals", "barry_as_FLUFL",
              "generator_stop", "annotations"]
FLAG_ID = {n: i for i, n in enumerate(FLAG_NAMES)}


def flag_other(name):
    return sum(map(ord, name)) % 100000


def gflag(name):
    if name in FLAG_ID:
        return name if name.isupper() else "F_" + name
    return "(F_other %d)" % flag_other(name)


def flag_id(name):
    return FLAG_ID[name] if name in FLAG_ID else 100 + flag_other(name)


def gflags(names):
    return glist([gflag(n) for n in names], "flag")


def tflags(names):
    """a set of flag names: sorted ids"""
    return tlist(sorted(flag_id(n) for n in names), tz)
