# C05: normalization preserves the meaning of the code.
import contextlib
import io
import sys
import types

import enc
import encdata as E
E.enc = enc
from enc import call, tres, topt, tz, gz, glist
from props import corpus, disview, mutators, progen

CO_NESTED, CO_NOFREE = 0x10, 0x40
PAIR = "(fun k' => match from_const cfg k' with OK p => OK (k', p) | Err e => Err e end)"
HEADER = ["co_argcount", "co_kwonlyargcount", "co_name", "co_filename", "co_firstlineno", "co_stacksize", "co_freevars"] + (
    ["co_posonlyargcount"] if sys.version_info >= (3, 8) else [])


def doc_of(code):
    return code.co_consts[0] if (code.co_flags & 3) == 3 and code.co_consts and isinstance(code.co_consts[0], str) else None


def equiv(a, b, path="code"):
    """None if b is observationally the same code as a (symbolic view), else the first difference"""
    for f in HEADER:
        if getattr(a, f) != getattr(b, f):
            return "%s.%s: %r != %r" % (path, f, getattr(a, f), getattr(b, f))
    fa, fb = a.co_flags, b.co_flags
    allowed = CO_NESTED | (CO_NOFREE if len(b.co_cellvars) < len(a.co_cellvars) else 0)
    if (fa ^ fb) & ~allowed:
        return "%s.co_flags: %#x != %#x" % (path, fa, fb)
    if (a.co_flags & 3) == 3:
        n = mutators.nparams(a)
        if a.co_varnames[:n] != b.co_varnames[:n]:
            return "%s: parameters %r != %r" % (path, a.co_varnames[:n], b.co_varnames[:n])
        if doc_of(a) != doc_of(b):
            return "%s: docstring %r != %r" % (path, doc_of(a), doc_of(b))
    va, vb = disview.dis_view(a), disview.dis_view(b)
    if len(va) != len(vb):
        return "%s: %d instructions != %d" % (path, len(va), len(vb))
    for i, ((o1, (k1, v1), l1), (o2, (k2, v2), l2)) in enumerate(zip(va, vb)):
        if o1 != o2 or k1 != k2 or l1 != l2:
            return "%s: instruction %d: (%s %s line %r) != (%s %s line %r)" % (path, i, o1, k1, l1, o2, k2, l2)
        if k1 == "const" and (isinstance(v1, types.CodeType) or isinstance(v2, types.CodeType)):
            if not (isinstance(v1, types.CodeType) and isinstance(v2, types.CodeType)):
                return "%s: instruction %d: code constant vs non-code" % (path, i)
            r = equiv(v1, v2, "%s>%s" % (path, v1.co_name))
            if r:
                return r
        elif k1 == "const":
            if E.t_iconst_nan(v1) != E.t_iconst_nan(v2):
                return "%s: instruction %d: constant %r != %r" % (path, i, v1, v2)
        elif v1 != v2:
            return "%s: instruction %d: %s %r != %r" % (path, i, k1, v1, v2)
    return None


def run_traced(code):
    """(stdout, exception type name, traced (code name, relative line) events)"""
    events = []

    def tracer(frame, event, arg):
        if frame.f_code.co_filename == "<run>" and event == "line":
            events.append((frame.f_code.co_name, frame.f_lineno))
        return tracer
    out = io.StringIO()
    exc = None
    old = sys.gettrace()
    with contextlib.redirect_stdout(out):
        sys.settrace(tracer)
        try:
            exec(code, {"__name__": "run"})
        except BaseException as e:  # noqa
            exc = type(e).__name__
        finally:
            sys.settrace(old)
    return out.getvalue(), exc, events


# programs whose line table has several entries at one bytecode offset (folded multi-line defaults / tuples after a
# statement on the same line, redefinitions on one line): where the 3.8 / 3.9 tracer can see "redundant" entries
TRACE_SHAPES = [
    "y = 1; f = (lambda a=1,\n    b=2: 0)\nz = 2\n",
    "y = 1; t = (1,\n     2,\n     3)\nz = t\n",
    "def g(a=(1,\n        2)): return a\nprint(g())\n",
    "x = 0; d = {'a': 1,\n         'b': 2}\nprint(sorted(d))\n",
    "class A: pass\nclass A: pass\nprint(A.__name__)\n",
    "for i in range(2):\n    y = i; t = (i,\n        1)\nprint(t)\n",
]


def dedup_runs(events):
    out = []
    for e in events:
        if not out or out[-1] != e:
            out.append(e)
    return out


def report_difference(ctx, CodeData, what, src, top, a, b):
    """a, b: (stdout, exception, line events) of the original and of normalize().to_code()"""
    which = "stdout" if a[0] != b[0] else "exception" if a[1] != b[1] else "trace"
    label = what
    if which == "trace" and dedup_runs(a[2]) == dedup_runs(b[2]) and len(b[2]) < len(a[2]):
        # only repeated events of an unchanged line went missing: is a cancelling pair of line entries the cause?
        def cancelling(code):
            d = CodeData.from_code(code)
            # several line entries at one offset that end on the line the previous instruction already had: the entries
            # cancel (3.8 writes [.., 0, +1, -1], 3.9 the first delta as the entry itself and [-1] as the extra one)
            for x in d.all_code_data():
                prev = None
                for blk in x.blocks:
                    for ins in blk:
                        offs = ins._line_offsets_override
                        if offs and any(offs) and prev is not None and ins.line_number == prev:
                            return True
                        prev = ins.line_number
            return False
        try:
            if cancelling(top):
                label = "cancelling-line-pair[%s]" % what
        except Exception:  # noqa
            pass
    ctx.violation("behaviour-differs", "%s: %s differs after normalize().to_code()" % (label, which), {"source": src, "which": which})


def opcode_traces(code):
    """first invocation of every code object of the program: the byte offsets CPython's eval loop visits
    (sys.settrace with f_trace_opcodes), capped"""
    frames = {}
    done = {}

    def tracer(frame, event, arg):
        if frame.f_code.co_filename != "<run>":
            return None
        frame.f_trace_opcodes = True
        if event == "call":
            if frame.f_code not in done and frame.f_code not in [f.f_code for f in frames]:
                frames[frame] = []
        elif event == "opcode":
            if frame in frames and len(frames[frame]) < 400:
                frames[frame].append(frame.f_lasti)
        elif event == "return":
            if frame in frames:
                done[frame.f_code] = (frames.pop(frame), arg is not None or True)
        return tracer
    out = io.StringIO()
    old = sys.gettrace()
    with contextlib.redirect_stdout(out):
        sys.settrace(tracer)
        try:
            exec(code, {"__name__": "run"})
        except BaseException:  # noqa
            pass
        finally:
            sys.settrace(old)
    return {k: v[0] for k, v in done.items()}


def exec_case(ctx, k, offs, what):
    """Spec/Exec.v's byte-offset machine, driven by the branch decisions CPython actually took, must visit
    the same instructions (opcode and line of each) as the real eval loop did"""
    from props import disview
    ins = disview.dis_instructions(k)
    index = {first: i for i, (first, _, _) in enumerate(ins)}
    if not offs or offs[0] != 0 or any(o not in index for o in offs):
        ctx.count("exec-trace:off-instruction-start")
        return
    decisions = []
    for a, b in zip(offs, offs[1:]):
        i = index[a]
        nxt = ins[i + 1][0] if i + 1 < len(ins) else None
        kind, val = ins[i][2]
        if b == nxt:
            decisions.append("CNext")
        elif kind == "jump" and b == val[0]:
            decisions.append("CTake")
        else:
            ctx.count("exec-trace:non-local-control")   # exception edges, END_FINALLY returns, generators
            return
    decisions.append("CHalt")
    lines = disview.line_table_lines(k)
    expected = []
    for o in offs:
        line = lines.get(o) if lines is not None else disview.real_line_of(k, o)
        expected += [ins[index[o]][1]] + topt(line, tz)
    expr = ("(let '(t, s, o) := run_offsets (fun (op : Z) (v : dval pyconst) (line : option Z) (s : list ctl) => match s with d :: r => (r, d) | [] => ([], CHalt) end) "
            "(Z.to_nat %d) (dis_fold cfg %s %s %s %s %s (dis_unpack cfg %s 0 0) None) (dis_line cfg (raw_entries %s) %s) 0 %s in "
            "ser_list (fun e => e_op e :: ser_opt ser_Z (e_line e)) t ++ [zlen s; match o with OHalt => 0 | OFellOff => 1 | OBadTarget => 2 | OStuck => 3 | OFuel => 4 end])"
            % (len(offs) + 2, E.gstrs(k.co_names), E.gstrs(k.co_varnames), E.gstrs(k.co_freevars), E.gstrs(k.co_cellvars),
               glist([E.g_pyconst(x) for x in k.co_consts], "pyconst"), E.gzlist(k.co_code), E.gzlist(E.table_of(k)), gz(k.co_firstlineno),
               glist(decisions, "ctl")))
    ctx.case(expr, [len(offs)] + expected + [0, 0], "Spec/Exec machine against the eval loop's opcode trace of %s" % what, "spec-exec")
    ctx.count("exec-trace:compared")
    ctx.count("exec-trace-steps", len(offs))


def work(ctx):
    from code_data import CodeData
    rng = ctx.rng
    ncases = 0

    def check(origin, k, top=False):
        nonlocal ncases
        what = "%s:%s:%d" % (origin, k.co_name, k.co_firstlineno)
        data = {"origin": origin, "name": k.co_name, "firstlineno": k.co_firstlineno}
        ctx.evaluated((k.co_code, k.co_name, k.co_firstlineno, E.table_of(k)))
        r = call(CodeData.from_code, k)
        if r[0] != "ok":
            return None
        e = call(lambda: r[1].normalize().to_code())
        if e[0] != "ok":
            ctx.violation("normalized-to_code-raises", "%s: normalize().to_code() raises %s" % (what, e[1]), data)
            return None
        diff = equiv(k, e[1])
        if diff:
            ctx.violation("meaning-changed", "%s: %s" % (what, diff[:300]), data)
        size = sum(len(x.co_code) for x in corpus.walk(k))
        if ncases < (150 if ctx.quick else 2000) and size < 500:
            try:
                ctx.case("ser_res ser_pycode (match to_code_data cfg %s with OK d => from_code_data cfg (normalize d) | Err e => Err e end)" % E.g_pycode(k),
                         tres(e, E.t_pycode), "normalize+encode %s" % what, "normalize-encode")
                # premise / conclusion of the C05 theorem: the normal form of this decoded object is well-formed data
                ctx.case("(let code := %s in match mapM (to_const cfg) (co_consts code) with OK ks => match decode_code cfg code ks with OK d => "
                         "match mapM_cd PAIR (normalize d) with OK d' => ser_bool (view_wf cfg code ks && ops_known cfg (co_code code)) ++ ser_bool (data_wf cfg d') "
                         "| Err _ => [2] end | Err _ => [3] end | Err _ => [4] end)".replace("PAIR", PAIR) % E.g_pycode(k),
                         [1, 1], "view_wf and data_wf of the normal form of %s" % what, "wf-monitor")
                ncases += 1
            except E.Unsupported:
                pass
        ctx.sample({"code": what})
        return e[1]

    for origin, k in corpus.code_objects(ctx.tier, rng):
        check(origin, k)
    for src, mode in progen.programs(ctx, 40 if ctx.quick else 1000):
        try:
            top = compile(src, "<gen>", mode, dont_inherit=True)
        except (SyntaxError, ValueError, RecursionError, MemoryError, OverflowError):
            continue
        for k in corpus.walk(top):
            check("gen", k)
    # ---- behaviour: execute both and compare results, output, exceptions and traced line events
    for i in range(60 if ctx.quick else 1500):
        src = mutators.runnable(rng)
        try:
            top = compile(src, "<run>", "exec", dont_inherit=True)
        except SyntaxError:
            ctx.count("run-uncompilable")
            continue
        norm = check("run%d" % i, top, True)
        if norm is None:
            continue
        import signal
        signal.setitimer(signal.ITIMER_REAL, 5)
        try:
            a = run_traced(top)
            b = run_traced(norm)
        except E.enc.Timeout:
            ctx.count("run-timeout")
            continue
        finally:
            signal.setitimer(signal.ITIMER_REAL, 0)
        ctx.count("executed")
        # validate the execution Spec (Spec/Exec.v) against CPython's own eval loop on this program
        if i < (25 if ctx.quick else 400):
            signal.setitimer(signal.ITIMER_REAL, 5)
            try:
                traces = opcode_traces(top)
            except E.enc.Timeout:
                traces = {}
            finally:
                signal.setitimer(signal.ITIMER_REAL, 0)
            for kc, offs in traces.items():
                if len(kc.co_code) <= 600 and len(offs) < 400:
                    try:
                        exec_case(ctx, kc, offs, "run%d:%s" % (i, kc.co_name))
                    except E.Unsupported:
                        pass
        ctx.count("executed-exception:%s" % a[1])
        if a != b:
            report_difference(ctx, CodeData, "generated program %d (seed %s)" % (i, ctx.seed), src, top, a, b)
    # ---- fixed shapes for the traced-line clause: several line-table entries at one bytecode offset
    for j, src in enumerate(TRACE_SHAPES):
        try:
            top = compile(src, "<run>", "exec", dont_inherit=True)
        except SyntaxError:
            continue
        norm = check("shape%d" % j, top, True)
        if norm is None:
            continue
        a, b = run_traced(top), run_traced(norm)
        ctx.count("executed-shapes")
        if a != b:
            report_difference(ctx, CodeData, "trace shape %d" % j, src, top, a, b)
