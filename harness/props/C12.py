# C12: API calls are pure: no input mutation, repeatable, no shared mutable state.
import copy
import json
import sys
import types

import encdata as E
import encjson as J
from enc import call, tres
from props import corpus, progen


def poison(doc):
    """mutate every container of a JSON document in place"""
    if isinstance(doc, dict):
        for v in list(doc.values()):
            poison(v)
        doc["__poison__"] = [1]
        for k in list(doc):
            if k not in ("__poison__",) and isinstance(doc[k], (str, int)) and k in ("name", "filename", "stacksize"):
                doc[k] = "poisoned"
    elif isinstance(doc, list):
        for v in doc:
            poison(v)
        doc.append({"poison": True})


def mutable_parts(obj, seen=None, path="result"):
    """paths of mutable containers reachable from a CodeData (there must be none)"""
    import dataclasses
    seen = seen if seen is not None else set()
    out = []
    if id(obj) in seen:
        return out
    seen.add(id(obj))
    if isinstance(obj, (list, dict, set, bytearray)):
        out.append("%s: %s" % (path, type(obj).__name__))
    if dataclasses.is_dataclass(obj) and not isinstance(obj, type):
        for f in dataclasses.fields(obj):
            out += mutable_parts(getattr(obj, f.name), seen, "%s.%s" % (path, f.name))
    elif isinstance(obj, (tuple, frozenset, list)):
        for i, x in enumerate(obj):
            out += mutable_parts(x, seen, "%s[%d]" % (path, i))
    elif isinstance(obj, dict):
        for k, x in obj.items():
            out += mutable_parts(x, seen, "%s[%r]" % (path, k))
    return out


def work(ctx):
    from code_data import CodeData
    rng = ctx.rng
    ncases = 0
    pool = []
    for i, src in enumerate(corpus.INLINE[:14]):
        try:
            pool.append(("inline%d" % i, compile(src, "<c12-%d>" % i, "exec")))
        except SyntaxError:
            pass
    # tables holding the same key at two indices (the decoder's duplicate bookkeeping is where state could hide):
    # what the 3.7-3.9 peephole optimizer leaves behind, and a hand-padded table for every version
    for i, src in enumerate(["w = (None,)\ndef f(a=None):\n    return a\n", "x = (1, 2)\ny = (1, 2)\nz = [(1, 2), 1, 2]\n"]):
        k = compile(src, "<c12-dup-%d>" % i, "exec")
        pool.append(("dup%d" % i, k))
        if sys.version_info >= (3, 8):
            pool.append(("dup%d-padded" % i, k.replace(co_consts=k.co_consts + k.co_consts[:2], co_names=k.co_names + k.co_names[:1])))
    for origin, k in corpus.code_objects(ctx.tier, rng, limit=6, max_code=600):
        if rng.random() < 0.05:
            pool.append((origin, k))
    for src, mode in progen.programs(ctx, 25 if ctx.quick else 400):
        try:
            pool.append(("gen", compile(src, "<gen>", mode, dont_inherit=True)))
        except (SyntaxError, ValueError, RecursionError, OverflowError):
            pass

    firsts = []
    for origin, code in pool:
        what = "%s:%s" % (origin, code.co_name)
        data = {"origin": origin, "name": code.co_name}
        code_snap = E.t_pycode(code) if True else None
        d0 = call(CodeData.from_code, code)
        if d0[0] != "ok":
            continue
        d = d0[1]
        d_hash, d_tok = hash(d), None
        try:
            d_tok = E.t_cd(d)
        except E.Unsupported:
            pass
        doc0 = d.to_json_data()
        first = {"from_code": d, "to_code": d.to_code(), "normalize": d.normalize(), "to_json": copy.deepcopy(doc0)}
        doc = json.loads(json.dumps(doc0))          # the document the history works on
        doc_snap = copy.deepcopy(doc)
        first["from_json"] = CodeData.from_json_data(copy.deepcopy(doc))
        returned_docs = []
        hist = [rng.choice(["from_code", "to_code", "normalize", "to_json", "from_json", "poison_returned"]) for _ in range(rng.randint(4, 10 if ctx.quick else 30))]
        hist += ["from_code", "from_json", "from_json", "to_json", "poison_returned", "to_json", "from_code"]
        for step, op in enumerate(hist):
            ctx.evaluated((what, step, op))
            ctx.count("op:" + op)
            if op == "from_code":
                r = call(CodeData.from_code, code)
                ok = r[0] == "ok" and r[1] == first["from_code"]
            elif op == "to_code":
                r = call(d.to_code)
                ok = r[0] == "ok" and E.strict_diff(r[1], first["to_code"]) is None
            elif op == "normalize":
                r = call(d.normalize)
                ok = r[0] == "ok" and r[1] == first["normalize"]
            elif op == "to_json":
                r = call(d.to_json_data)
                ok = r[0] == "ok" and r[1] == first["to_json"] and type(r[1]) is dict
                if r[0] == "ok":
                    returned_docs.append(r[1])
            elif op == "from_json":
                r = call(CodeData.from_json_data, doc)
                ok = r[0] == "ok" and r[1] == first["from_json"]
                if r[0] == "ok":
                    parts = mutable_parts(r[1])
                    if parts:
                        ctx.violation("result-holds-mutable", "%s: from_json_data result contains a mutable container at %s" % (what, parts[0]), data)
            else:
                for rd in returned_docs:
                    poison(rd)
                returned_docs = []
                continue
            if not ok:
                ctx.violation("not-repeatable", "%s: call #%d (%s) of the history %r %s" % (
                    what, step, op, hist[:step + 1], "raises " + r[1] if r[0] != "ok" else "returns a different result than the first call"),
                    dict(data, history=hist[:step + 1]))
                break
            # no argument was modified
            if doc != doc_snap or json.dumps(doc) != json.dumps(doc_snap):
                ctx.violation("input-mutated", "%s: the JSON document was modified by call #%d (%s)" % (what, step, op), dict(data, history=hist[:step + 1]))
                break
            if hash(d) != d_hash or (d_tok is not None and E.t_cd(d) != d_tok):
                ctx.violation("input-mutated", "%s: the CodeData was modified by call #%d (%s)" % (what, step, op), dict(data, history=hist[:step + 1]))
                break
            if E.t_pycode(code) != code_snap:
                ctx.violation("input-mutated", "%s: the code object was modified by call #%d (%s)" % (what, step, op), dict(data, history=hist[:step + 1]))
                break
        # history correspondence: the last (n-th) results against the stateless model
        size = sum(len(x.co_code) for x in corpus.walk(code))
        if ncases < (60 if ctx.quick else 600) and size < 400:
            try:
                with J.NameIds():
                    last = d.to_json_data()
                    ctx.case("ser_json (code_data_to_json %s)" % E.g_cd(d), J.t_json(J.canon_cd(last)), "n-th to_json_data %s" % what, "nth-call")
                    again = call(CodeData.from_json_data, doc)
                    ctx.case("ser_res ser_cd (code_data_from_json %s)" % J.g_json(J.canon_cd(doc)), tres(again, E.t_cd), "n-th from_json_data %s" % what, "nth-call")
                ncases += 1
            except E.Unsupported:
                pass
        firsts.append((what, data, code, first["from_code"]))
        ctx.sample({"code": what, "history": hist})
    # state shared ACROSS objects: after everything above, decoding each code object again must still give the
    # result of its very first decoding
    for what, data, code, d_first in firsts:
        ctx.evaluated((what, "re-decode-at-end"))
        r = call(CodeData.from_code, code)
        if r[0] != "ok" or r[1] != d_first or hash(r[1]) != hash(d_first):
            ctx.violation("not-repeatable", "%s: from_code at the end of the run (after %d other objects were decoded) %s" % (
                what, len(firsts), "raises " + r[1] if r[0] != "ok" else "returns a different result than the first call"), dict(data, history=["...", "from_code"]))
