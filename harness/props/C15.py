# C15: the JSON form is portable across interpreter versions.
# phase "produce" (3.7-3.10): write documents; phase "consume" (3.7-3.13): load, normalize, re-dump.
import glob
import json
import os
import sys
import types

import encdata as E
import encjson as J
from enc import call, tres
from props import corpus, progen


def canon(v):
    """canonical text of a document: frozenset listings sorted (a set has no order)"""
    def fix(x):
        if isinstance(x, dict):
            if list(x) == ["frozenset"] and isinstance(x["frozenset"], list):
                return {"frozenset": sorted((fix(y) for y in x["frozenset"]), key=lambda z: json.dumps(z, sort_keys=True))}
            return {k: fix(y) for k, y in x.items()}
        if isinstance(x, list):
            return [fix(y) for y in x]
        return x
    return json.dumps(fix(v), sort_keys=True)


def work(ctx):
    from code_data import CodeData
    rng = ctx.rng
    phase = os.environ.get("VERIF_PHASE", "produce")
    workdir = os.environ.get("VERIF_WORKDIR", "/tmp")
    me = "%d.%d" % sys.version_info[:2]
    if phase == "produce":
        path = os.path.join(workdir, "c15_docs_%s.jsonl" % ctx.vername)
        n = 0
        with open(path, "w") as f:
            def emit(origin, k):
                nonlocal n
                r = call(CodeData.from_code, k)
                if r[0] != "ok":
                    return
                d = r[1]
                rec = {"id": "%s:%s:%d" % (origin, k.co_name, k.co_firstlineno), "producer": me,
                       "doc": d.to_json_data(), "normalized": d.normalize().to_json_data()}
                f.write(json.dumps(rec, allow_nan=False) + "\n")
                n += 1
                ctx.evaluated((rec["id"], "produce"))
            for i, src in enumerate(corpus.INLINE):
                try:
                    for k in corpus.walk(compile(src, "<inline%d>" % i, "exec")):
                        emit("inline%d" % i, k)
                except SyntaxError:
                    pass
            for origin, k in corpus.code_objects(ctx.tier, rng, limit=5 if ctx.quick else None, max_code=1500):
                if not ctx.quick or rng.random() < 0.25:
                    emit(origin, k)
            for src, mode in progen.programs(ctx, 25 if ctx.quick else 600):
                try:
                    top = compile(src, "<gen>", mode, dont_inherit=True)
                except (SyntaxError, ValueError, RecursionError, MemoryError, OverflowError):
                    continue
                for k in corpus.walk(top):
                    emit("gen", k)
        ctx.count("documents-produced", n)
        ctx.sample({"producer": me, "documents": n})
        return
    # ---- consume
    ncases = 0
    for path in sorted(glob.glob(os.path.join(workdir, "c15_docs_*.jsonl"))):
        with open(path) as f:
            for line in f:
                rec = json.loads(line)
                what = "document %s written under %s, loaded under %s" % (rec["id"], rec["producer"], me)
                data = {"id": rec["id"], "producer": rec["producer"], "consumer": me}
                ctx.evaluated((rec["id"], rec["producer"], me))
                ctx.count("pair:%s->%s" % (rec["producer"], me))
                doc = rec["doc"]
                keep = json.dumps(doc)
                r = call(CodeData.from_json_data, doc)
                if r[0] != "ok":
                    ctx.violation("load-fails", "%s: from_json_data raises %s" % (what, r[1]), data)
                    continue
                if json.dumps(doc) != keep:
                    ctx.violation("input-mutated", "%s: the document was modified by loading" % what, data)
                d = r[1]
                back = call(d.to_json_data)
                if back[0] != "ok" or canon(back[1]) != canon(rec["doc"]):
                    ctx.violation("redump-differs", "%s: re-serializing gives a different document" % what, data)
                    continue
                nz = call(lambda: d.normalize().to_json_data())
                if nz[0] != "ok" or canon(nz[1]) != canon(rec["normalized"]):
                    ctx.violation("normalize-differs", "%s: normalize gives a different result than on the producer" % what, data)
                # the one version-free model must agree with the loader / normalizer / dumper on every host
                if ncases < (80 if ctx.quick else 800) and len(keep) < 6000:
                    try:
                        with J.NameIds():
                            ctx.case("ser_res ser_cd (code_data_from_json %s)" % J.g_json(J.canon_cd(doc)), tres(r, E.t_cd),
                                     "from_json %s" % what, "consume-load")
                            ctx.case("ser_json (code_data_to_json (normalize %s))" % E.g_cd(d), J.t_json(J.canon_cd(nz[1])),
                                     "normalize+to_json %s" % what, "consume-normalize")
                        ncases += 1
                    except E.Unsupported:
                        pass
    ctx.sample({"consumer": me})
