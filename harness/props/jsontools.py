# Independent JSON-Schema validator (subset used by the published schema) and plain-JSON checker.
# Python 3.7 compatible.


def is_plain_json(v, path="$"):
    """None if v is strict JSON data, else a description of the first offending node"""
    if v is None or isinstance(v, (bool, str)):
        return None
    if isinstance(v, int):
        return None if -(2 ** 53) < v < 2 ** 53 else "%s: integer %d beyond +-2^53 not carried as a string" % (path, v)
    if isinstance(v, float):
        return None if v == v and v not in (float("inf"), float("-inf")) else "%s: non-finite float %r" % (path, v)
    if type(v) is list:
        for i, x in enumerate(v):
            r = is_plain_json(x, "%s[%d]" % (path, i))
            if r:
                return r
        return None
    if type(v) is dict:
        for k, x in v.items():
            if type(k) is not str:
                return "%s: non-string key %r" % (path, k)
            r = is_plain_json(x, "%s.%s" % (path, k))
            if r:
                return r
        return None
    return "%s: %s is not a JSON type" % (path, type(v).__name__)


def validate(schema, v, root=None, path="$"):
    """None if valid, else the first failure (own implementation: type, properties, required, items, anyOf, enum, $ref)"""
    root = root or schema
    if "$ref" in schema:
        ref = schema["$ref"]
        assert ref.startswith("#/definitions/"), ref
        r = validate(root["definitions"][ref[len("#/definitions/"):]], v, root, path)
        if r:
            return r
    if "anyOf" in schema:
        fails = []
        for s in schema["anyOf"]:
            r = validate(s, v, root, path)
            if r is None:
                break
            fails.append(r)
        else:
            return "%s: no alternative matches (%s)" % (path, "; ".join(fails)[:300])
    if "type" in schema:
        t = schema["type"]
        ok = {"object": type(v) is dict, "array": type(v) is list, "string": type(v) is str,
              "integer": type(v) is int or (type(v) is float and v == int(v)), "number": type(v) in (int, float),
              "boolean": type(v) is bool, "null": v is None}[t]
        if not ok:
            return "%s: expected %s, got %s" % (path, t, type(v).__name__)
    if "enum" in schema and v not in schema["enum"]:
        return "%s: %r not in enum" % (path, v)
    if type(v) is dict:
        for k in schema.get("required", []):
            if k not in v:
                return "%s: missing required %s" % (path, k)
        for k, s in schema.get("properties", {}).items():
            if k in v:
                r = validate(s, v[k], root, "%s.%s" % (path, k))
                if r:
                    return r
    if type(v) is list and "items" in schema:
        for i, x in enumerate(v):
            r = validate(schema["items"], x, root, "%s[%d]" % (path, i))
            if r:
                return r
    return None
