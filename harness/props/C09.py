# C09: decoded data carries no redundant override information.
import dataclasses
import dis
import sys
import types

import encdata as E
from enc import call, tres, tlist, topt, tz
from props import corpus, progen

CO_OPTIMIZED, CO_NEWLOCALS, CO_VARARGS, CO_VARKEYWORDS = 1, 2, 4, 8


def first_use_ranks(code, docstring):
    """independent reading: table -> {index: rank of first use}, parameters and docstring counting first"""
    nparams = code.co_argcount + code.co_kwonlyargcount + bool(code.co_flags & CO_VARARGS) + bool(code.co_flags & CO_VARKEYWORDS)
    ranks = {"name": {}, "local": {i: i for i in range(nparams)}, "cell": {}, "const": {}}
    if docstring:
        ranks["const"][0] = 0
    uses = []
    for ins in dis.get_instructions(code):
        op = ins.opcode
        if op == dis.EXTENDED_ARG:
            continue
        t = None
        if op in dis.hasname:
            t = "name"
        elif op in dis.haslocal:
            t = "local"
        elif op in dis.hasfree and ins.arg < len(code.co_cellvars):
            t = "cell"
        elif op in dis.hasconst:
            t = "const"
        if t:
            ranks[t].setdefault(ins.arg, len(ranks[t]))
        uses.append((t, ins.arg) if t else None)
    return ranks, uses


def work(ctx):
    from code_data import CodeData, Name, Varname, Cellvar, Constant, Function
    rng = ctx.rng
    KIND = {Name: "name", Varname: "local", Cellvar: "cell", Constant: "const"}
    ncases = 0

    def strip(d, kind_cls, value_key, index):
        """the data with the override removed from every use of table entry `index`"""
        def fix(a):
            if isinstance(a, kind_cls) and a._index_override == index:
                return dataclasses.replace(a, _index_override=None)
            return a
        blocks = tuple(tuple(dataclasses.replace(i, arg=fix(i.arg)) for i in b) for b in d.blocks)
        return dataclasses.replace(d, blocks=blocks, _additional_args=tuple(fix(a) for a in d._additional_args))

    def check(origin, k, canonical=False):
        nonlocal ncases
        what = "%s:%s:%d%s" % (origin, k.co_name, k.co_firstlineno, " (canonically re-encoded)" if canonical else "")
        data = {"origin": origin, "name": k.co_name, "firstlineno": k.co_firstlineno}
        ctx.evaluated((k.co_code, k.co_consts and len(k.co_consts), k.co_names, k.co_varnames, canonical))
        r = call(CodeData.from_code, k)
        if r[0] != "ok":
            return None
        d = r[1]
        has_doc = isinstance(d.type, Function) and d.type.docstring is not None
        ranks, uses = first_use_ranks(k, has_doc)
        flat = [i for b in d.blocks for i in b]
        if len(flat) != len(uses):
            return d
        tables = {"name": k.co_names, "local": k.co_varnames, "cell": k.co_cellvars, "const": k.co_consts}
        suspicious = {}
        noverride = 0
        for i, u in zip(flat, uses):
            a = i.arg
            kind = KIND.get(type(a))
            if kind is None:
                continue
            ov = a._index_override
            if u is None or u[0] != kind:
                continue
            idx = u[1]
            if ov is not None:
                noverride += 1
                if ov != idx:
                    ctx.violation("override-wrong", "%s: override %d on an operand that indexes %d" % (what, ov, idx), data)
                elif ranks[kind][idx] == idx:
                    suspicious[(kind, idx)] = type(a)
            elif ranks[kind][idx] != idx:
                ctx.violation("override-missing", "%s: %s entry %d has first-use rank %d but no override" % (what, kind, idx, ranks[kind][idx]), data)
        # additional args: exactly the entries no instruction references
        referenced = {kind: set(ranks[kind]) for kind in ranks}
        unref = [(kind, i) for kind in ("name", "local", "cell", "const") for i in range(len(tables[kind])) if i not in referenced[kind]]
        if len(d._additional_args) != len(unref):
            ctx.violation("additional-args", "%s: %d additional args, %d table entries are unreferenced" % (what, len(d._additional_args), len(unref)), data)
        else:
            nxt = {kind: len(ranks[kind]) for kind in ranks}
            for a, (kind, idx) in zip(d._additional_args, unref):
                if KIND.get(type(a)) != kind:
                    ctx.violation("additional-args", "%s: additional arg kinds differ from the unreferenced entries" % what, data)
                    break
                if a._index_override is not None:
                    noverride += 1
                    if nxt[kind] == idx:
                        suspicious[(kind, idx)] = type(a)
                nxt[kind] += 1
        # an in-place entry may only carry an override if stripping it from all its uses changes the result
        base = call(d.to_code)
        for (kind, idx), cls in sorted(suspicious.items()):
            d2 = strip(d, cls, kind, idx)
            e = call(d2.to_code)
            ctx.count("override-on-in-place-entry")
            if base[0] == "ok" and e[0] == "ok" and E.strict_diff(e[1], base[1]) is None:
                ctx.violation("redundant-override", "%s: %s entry %d is in first-use position and removing its override from all uses "
                              "re-encodes to the identical code object" % (what, kind, idx), data)
        ctx.count("operands-with-override", noverride)
        ctx.count("operands", sum(1 for u in uses if u))
        # tables in first-use order with no unreferenced entry (read independently): no override at all
        in_order = not unref and all(r == i for kind in ranks for i, r in ranks[kind].items())
        # the corollary presupposes tables without two entries the library regards as the same constant: CPython keeps
        # several NaN objects apart, the library identifies all NaNs (C08), so the later one NEEDS its override (the
        # rule itself - an override only where stripping it changes the re-encoding - is checked above for every entry)
        keys = [repr(E.t_iconst_nan(x)) for x in k.co_consts if not isinstance(x, types.CodeType)]
        if len(set(keys)) != len(keys):
            ctx.count("tables-with-key-equal-entries")
            in_order = False
        ctx.count("tables-in-first-use-order:%s" % in_order)
        if in_order and (noverride or d._additional_args):
            ctx.violation("in-order-has-overrides", "%s: tables are in first-use order with no unreferenced entry, yet %d overrides and %d additional args"
                          % (what, noverride, len(d._additional_args)), data)
        if ncases < (200 if ctx.quick else 2500) and len(k.co_code) < 500 and not any(isinstance(x, types.CodeType) for x in k.co_consts):
            try:
                proj = (tlist(flat, lambda i: topt(getattr(i.arg, "_index_override", None), tz))
                        + tlist(d._additional_args, lambda a: [{"name": 2, "local": 3, "cell": 6, "const": 4}[KIND[type(a)]]] + topt(a._index_override, tz)))
                ctx.case("ser_res (fun d => ser_list (fun i => ser_opt ser_Z (arg_override (i_arg i))) (concat (cd_blocks d)) ++ "
                         "ser_list (fun a => arg_tag a :: ser_opt ser_Z (arg_override a)) (cd_addargs d)) (to_code_data cfg %s)" % E.g_pycode(k),
                         [0] + proj, "overrides %s" % what, "overrides")
                ncases += 1
            except E.Unsupported:
                pass
        ctx.sample({"code": what, "operands": sum(1 for u in uses if u), "overrides": noverride, "additional_args": len(d._additional_args)})
        return d

    def both(origin, k):
        d = check(origin, k)
        if d is not None and rng.random() < (0.35 if ctx.quick else 1.0):
            c2 = call(lambda: d.normalize().to_code())
            if c2[0] == "ok":
                check(origin, c2[1], canonical=True)

    for origin, k in corpus.code_objects(ctx.tier, rng):
        both(origin, k)
    for src, mode in progen.programs(ctx, 50 if ctx.quick else 1500):
        try:
            top = compile(src, "<gen>", mode, dont_inherit=True)
        except (SyntaxError, ValueError, RecursionError, MemoryError, OverflowError):
            continue
        for k in corpus.walk(top):
            both("gen", k)
