# C11: flags convert without loss; nothing unrepresentable is silently dropped.
import itertools
import sys
import types

import enc
from enc import gz, tz, tlist, tres, call, gflags, tflags

HEADER = ["co_flags", "co_argcount", "co_kwonlyargcount", "co_nlocals", "co_stacksize", "co_firstlineno",
          "co_name", "co_filename", "co_varnames", "co_freevars", "co_cellvars", "co_names"]
if sys.version_info >= (3, 8):
    HEADER.append("co_posonlyargcount")

BASES = [
    "def f(a, b=1, *args, c, d=2, **kw):\n    'doc'\n    x = a\n    return x\n",
    "def f(a, b):\n    return a + b\n",
    "def f():\n    yield 1\n",
    "async def f(x):\n    await x\n",
    "async def f(x):\n    yield x\n",
    "def f(*a, **k):\n    return a, k\n",
    "def outer(y):\n    def f(x):\n        return x + y\n    return f\n",
    "lambda *, k: k\n",
    "class A:\n    x = 1\n",
    "x = [i for i in y]\n",
    "import os\n",
]


def replace_code(c, **kw):
    if sys.version_info >= (3, 8):
        return c.replace(**kw)
    a = dict(co_argcount=c.co_argcount, co_kwonlyargcount=c.co_kwonlyargcount, co_nlocals=c.co_nlocals,
             co_stacksize=c.co_stacksize, co_flags=c.co_flags, co_code=c.co_code, co_consts=c.co_consts,
             co_names=c.co_names, co_varnames=c.co_varnames, co_filename=c.co_filename, co_name=c.co_name,
             co_firstlineno=c.co_firstlineno, co_lnotab=c.co_lnotab, co_freevars=c.co_freevars,
             co_cellvars=c.co_cellvars)
    a.update(kw)
    return types.CodeType(a["co_argcount"], a["co_kwonlyargcount"], a["co_nlocals"], a["co_stacksize"],
                          a["co_flags"], a["co_code"], a["co_consts"], a["co_names"], a["co_varnames"],
                          a["co_filename"], a["co_name"], a["co_firstlineno"], a["co_lnotab"],
                          a["co_freevars"], a["co_cellvars"])


def structured_alterations(b, known):
    """header alterations aimed at the decoder's case analysis: both function flags cleared / set at once, pairs of
    kind flags, with and without changed argument counts"""
    val = dict(known)
    fn = val.get("OPTIMIZED", 0) | val.get("NEWLOCALS", 0)
    kinds = [val[k] for k in ("GENERATOR", "COROUTINE", "ASYNC_GENERATOR", "ITERABLE_COROUTINE") if k in val]
    words = [b.co_flags & ~fn, b.co_flags | fn, (b.co_flags & ~fn) | val.get("NOFREE", 0), val.get("NOFREE", 0), 0, fn]
    for i, k1 in enumerate(kinds):
        for k2 in kinds[i + 1:]:
            words.append(b.co_flags | k1 | k2)
            words.append(b.co_flags | fn | k1 | k2)
    out = []
    for w in words:
        out.append(({"co_flags": w}, "flags %#x" % w))
        out.append(({"co_flags": w, "co_argcount": b.co_argcount + 1}, "flags %#x, one more argument" % w))
        if b.co_argcount:
            out.append(({"co_flags": w, "co_argcount": 0}, "flags %#x, no positional argument" % w))
        out.append(({"co_flags": w, "co_kwonlyargcount": b.co_kwonlyargcount + 1}, "flags %#x, one more keyword-only argument" % w))
    return out


def work(ctx):
    from code_data import CodeData
    from code_data._flags_data import _CodeFlag, from_flags_data, to_flags_data
    rng = ctx.rng
    known = [(m.name, int(m.value)) for m in _CodeFlag]
    names = [n for n, _ in known]
    mask = 0
    for _, v in known:
        mask |= v
    unknown_bits = [1 << i for i in range(0, 40) if not (1 << i) & mask]

    # ---- direct oracle 1: word -> names -> word for subsets of the known flags
    def check_word(w):
        ctx.evaluated(w)
        r = call(to_flags_data, w)
        if w & ~mask:
            if r[0] == "ok":
                ctx.violation("unknown-bit-dropped", "to_flags_data(%#x) returned %r instead of raising (unknown bits %#x)"
                              % (w, sorted(r[1]), w & ~mask), {"flags": w})
            return
        if r[0] != "ok":
            ctx.violation("known-raises", "to_flags_data(%#x) raises %s for a word of known flags" % (w, r[1]), {"flags": w})
            return
        want = {n for n, v in known if v & w}
        if r[1] != want:
            ctx.violation("wrong-names", "to_flags_data(%#x) = %r, expected %r" % (w, sorted(r[1]), sorted(want)), {"flags": w})
        back = call(from_flags_data, set(r[1]))
        if back[0] != "ok" or back[1] != w:
            ctx.violation("roundtrip", "from_flags_data(to_flags_data(%#x)) = %r" % (w, back[1]), {"flags": w})
        if type(back[1]) is not int and back[0] == "ok" and int(back[1]) != w:
            ctx.violation("roundtrip", "not an int", {"flags": w})

    words = []
    if ctx.quick:
        # every subset of size <= 2, plus a seeded sample of the 2^18 subsets
        for k in (0, 1, 2):
            for comb in itertools.combinations(known, k):
                words.append(sum(v for _, v in comb))
        for _ in range(6000):
            words.append(sum(v for _, v in known if rng.random() < 0.5))
        exhaustive = False
    else:
        vals = [v for _, v in known]
        for bits in range(1 << len(vals)):
            words.append(sum(v for i, v in enumerate(vals) if bits >> i & 1))
        exhaustive = True
    # from_flags_data ors IntFlag members together, which makes the enum cache a pseudo-member for every
    # intermediate value; on 3.7/3.8 every later _decompose walks that cache.  The cache holds no
    # information (members are recreated on demand), so it is reset between batches to keep the run linear.
    saved_members = dict(_CodeFlag._value2member_map_)
    for i, w in enumerate(words):
        check_word(w)
        if i % 200 == 0:
            _CodeFlag._value2member_map_.clear()
            _CodeFlag._value2member_map_.update(saved_members)
    ctx.count("subsets_of_known", len(words))
    ctx.count("exhaustive_2^%d" % len(known), 1 if exhaustive else 0)
    for u in unknown_bits:
        check_word(u)
        for _ in range(3):
            check_word(u | sum(v for _, v in known if rng.random() < 0.4))
    ctx.count("unknown_bits", len(unknown_bits))
    for _ in range(300):
        check_word(rng.getrandbits(rng.randint(1, 40)))

    # ---- correspondence: to_flags_data / from_flags_data
    sample_words = rng.sample(words, min(len(words), 500)) + unknown_bits + [
        u | sum(v for _, v in known if rng.random() < 0.4) for u in unknown_bits] + [rng.getrandbits(34) for _ in range(100)]
    for w in sample_words:
        r = call(to_flags_data, w)
        ctx.case("ser_res_cls ser_flags (to_flags_data cfg %s)" % gz(w), tres(r, tflags, cls=True), "to_flags_data %#x" % w, "to_flags")
    for _ in range(300):
        fs = [n for n in names if rng.random() < 0.4]
        if rng.random() < 0.1:
            fs.append(rng.choice(["BOGUS", "nested_scopes", "generators", "xyz"]))
        rng.shuffle(fs)
        r = call(from_flags_data, set(fs))
        ctx.case("ser_res_cls ser_Z (from_flags_data cfg %s)" % gflags(fs), tres(r, tz, cls=True), "from_flags_data %r" % fs, "from_flags")
    ctx.sample({"word": hex(sample_words[3]), "names": sorted(call(to_flags_data, sample_words[3])[1]) if call(to_flags_data, sample_words[3])[0] == "ok" else "raises"})

    # ---- direct oracle 2: header alterations: exception or exact header reproduction
    def walk(c):
        yield c
        for k in c.co_consts:
            if isinstance(k, types.CodeType):
                for x in walk(k):
                    yield x

    bases = []
    for src in BASES:
        try:
            for k in walk(compile(src, "<c11>", "exec")):
                bases.append(k)
        except SyntaxError:
            pass

    def check_header(k, what):
        ctx.evaluated((what, k.co_flags, k.co_argcount, k.co_kwonlyargcount, k.co_name))
        r = call(CodeData.from_code, k)
        if r[0] != "ok":
            ctx.count("header:from_code-raises")
            return
        e = call(r[1].to_code)
        if e[0] != "ok":
            ctx.count("header:to_code-raises")
            ctx.violation("header-to_code-raises", "%s: from_code succeeded but to_code raises %s" % (what, e[1]), {"what": what})
            return
        ctx.count("header:roundtrip")
        for f in HEADER:
            if getattr(e[1], f) != getattr(k, f):
                ctx.violation("header-lost", "%s: %s is %r after the round trip, was %r" % (what, f, getattr(e[1], f), getattr(k, f)),
                              {"what": what, "field": f})
                return

    for bi, b in enumerate(bases):
        nm = "%s#%d" % (b.co_name, bi)
        check_header(b, "base %s" % nm)
        for n, v in known:
            check_header_safe = call(replace_code, b, co_flags=b.co_flags ^ v)
            if check_header_safe[0] == "ok":
                check_header(check_header_safe[1], "%s with flag %s toggled" % (nm, n))
        for kw, label in structured_alterations(b, known):
            k = call(replace_code, b, **kw)
            if k[0] == "ok":
                check_header(k[1], "%s with %s" % (nm, label))
        for u in unknown_bits[:8]:
            k = call(replace_code, b, co_flags=b.co_flags | u)
            if k[0] == "ok":
                check_header(k[1], "%s with unknown flag bit %#x" % (nm, u))
        for _ in range(10 if ctx.quick else 100):
            kw = {}
            if rng.random() < 0.7:
                kw["co_flags"] = b.co_flags ^ sum(v for _, v in known if rng.random() < 0.15)
            if rng.random() < 0.5:
                kw["co_argcount"] = max(0, b.co_argcount + rng.choice([-2, -1, 1, 2, 5]))
            if rng.random() < 0.5:
                kw["co_kwonlyargcount"] = max(0, b.co_kwonlyargcount + rng.choice([-1, 1, 2, 5]))
            if sys.version_info >= (3, 8) and rng.random() < 0.4:
                kw["co_posonlyargcount"] = max(0, b.co_posonlyargcount + rng.choice([-1, 1, 2, 5]))
            k = call(replace_code, b, **kw)
            if k[0] == "ok":
                check_header(k[1], "%s with %r" % (nm, sorted(kw.items())))
            else:
                ctx.count("header:constructor-rejects")

    # ---- the same rule with assert statements compiled away (python -O): a guard that is an assert is no guard there
    import json
    import os
    import subprocess
    script = os.path.join(os.path.dirname(os.path.abspath(__file__)), "c11_opt.py")
    p = subprocess.run([sys.executable, "-O", script, str(ctx.seed if hasattr(ctx, "seed") else 0), "quick" if ctx.quick else "thorough"],
                       stdout=subprocess.PIPE, stderr=subprocess.PIPE, universal_newlines=True, timeout=1200)
    try:
        rep = json.loads(p.stdout.strip().splitlines()[-1])
    except Exception:  # noqa
        raise RuntimeError("python -O sub-run failed: rc=%s %s" % (p.returncode, p.stderr[-500:]))
    ctx.count("optimized-run:cases", rep["counts"]["cases"])
    ctx.count("optimized-run:raises", rep["counts"]["raises"])
    ctx.count("optimized-run:exact", rep["counts"]["exact"])
    if rep["assert_active"]:
        raise RuntimeError("python -O sub-run still has asserts")
    for f in rep["findings"]:
        ctx.evaluated(("opt", f["what"]))
        ctx.violation("header-lost-under-O", "python -O: %s: %s is %s after the round trip, was %s" % (f["what"], f["field"], f["now"], f["was"]),
                      {"what": f["what"], "field": f["field"], "optimize": True})
