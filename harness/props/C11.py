# C11: flags convert without loss; nothing unrepresentable is silently dropped.
import itertools
import sys
import types

import enc
from enc import gz, tz, tlist, tres, call, gflags, tflags

HEADER = ["co_flags", "co_argcount", "co_kwonlyargcount", "co_nlocals", "co_stacksize", "co_firstlineno",
          "co_name", "co_filename", "co_varnames", "co_freevars", "co_cellvars", "co_names"]
if sys.version_info >= (3, 8):
    HEADER.append("co_posonlyargcount")

BASES = [
    "def f(a, b=1, *args, c, d=2, **kw):\n    'doc'\n    x = a\n    return x\n",
    "def f(a, b):\n    return a + b\n",
    "def f():\n    yield 1\n",
    "async def f(x):\n    await x\n",
    "async def f(x):\n    yield x\n",
    "def f(*a, **k):\n    return a, k\n",
    "def outer(y):\n    def f(x):\n        return x + y\n    return f\n",
    "lambda *, k: k\n",
    "class A:\n    x = 1\n",
    "x = [i for i in y]\n",
    "import os\n",
]


def replace_code(c, **kw):
    if sys.version_info >= (3, 8):
        return c.replace(**kw)
    a = dict(co_argcount=c.co_argcount, co_kwonlyargcount=c.co_kwonlyargcount, co_nlocals=c.co_nlocals,
             co_stacksize=c.co_stacksize, co_flags=c.co_flags, co_code=c.co_code, co_consts=c.co_consts,
             co_names=c.co_names, co_varnames=c.co_varnames, co_filename=c.co_filename, co_name=c.co_name,
             co_firstlineno=c.co_firstlineno, co_lnotab=c.co_lnotab, co_freevars=c.co_freevars,
             co_cellvars=c.co_cellvars)
    a.update(kw)
    return types.CodeType(a["co_argcount"], a["co_kwonlyargcount"], a["co_nlocals"], a["co_stacksize"],
                          a["co_flags"], a["co_code"], a["co_consts"], a["co_names"], a["co_varnames"],
                          a["co_filename"], a["co_name"], a["co_firstlineno"], a["co_lnotab"],
                          a["co_freevars"], a["co_cellvars"])


def work(ctx):
    from code_data import CodeData
    from code_data._flags_data import _CodeFlag, from_flags_data, to_flags_data
    rng = ctx.rng
    known = [(m.name, int(m.value)) for m in _CodeFlag]
    names = [n for n, _ in known]
    mask = 0
    for _, v in known:
        mask |= v
    unknown_bits = [1 << i for i in range(0, 40) if not (1 << i) & mask]

    # ---- direct oracle 1: word -> names -> word for subsets of the known flags
    def check_word(w):
        ctx.evaluated(w)
        r = call(to_flags_data, w)
        if w & ~mask:
            if r[0] == "ok":
                ctx.violation("unknown-bit-dropped", "to_flags_data(%#x) returned %r instead of raising (unknown bits %#x)"
                              % (w, sorted(r[1]), w & ~mask), {"flags": w})
            return
        if r[0] != "ok":
            ctx.violation("known-raises", "to_flags_data(%#x) raises %s for a word of known flags" % (w, r[1]), {"flags": w})
            return
        want = {n for n, v in known if v & w}
        if r[1] != want:
            ctx.violation("wrong-names", "to_flags_data(%#x) = %r, expected %r" % (w, sorted(r[1]), sorted(want)), {"flags": w})
        back = call(from_flags_data, set(r[1]))
        if back[0] != "ok" or back[1] != w:
            ctx.violation("roundtrip", "from_flags_data(to_flags_data(%#x)) = %r" % (w, back[1]), {"flags": w})
        if type(back[1]) is not int and back[0] == "ok" and int(back[1]) != w:
            ctx.violation("roundtrip", "not an int", {"flags": w})

    words = []
    if ctx.quick:
        # every subset of size <= 2, plus a seeded sample of the 2^18 subsets
        for k in (0, 1, 2):
            for comb in itertools.combinations(known, k):
                words.append(sum(v for _, v in comb))
        for _ in range(6000):
            words.append(sum(v for _, v in known if rng.random() < 0.5))
        exhaustive = False
    else:
        vals = [v for _, v in known]
        for bits in range(1 << len(vals)):
            words.append(sum(v for i, v in enumerate(vals) if bits >> i & 1))
        exhaustive = True
    # from_flags_data ors IntFlag members together, which makes the enum cache a pseudo-member for every
    # intermediate value; on 3.7/3.8 every later _decompose walks that cache.  The cache holds no
    # information (members are recreated on demand), so it is reset between batches to keep the run linear.
    saved_members = dict(_CodeFlag._value2member_map_)
    for i, w in enumerate(words):
        check_word(w)
        if i % 200 == 0:
            _CodeFlag._value2member_map_.clear()
            _CodeFlag._value2member_map_.update(saved_members)
    ctx.count("subsets_of_known", len(words))
    ctx.count("exhaustive_2^%d" % len(known), 1 if exhaustive else 0)
    for u in unknown_bits:
        check_word(u)
        for _ in range(3):
            check_word(u | sum(v for _, v in known if rng.random() < 0.4))
    ctx.count("unknown_bits", len(unknown_bits))
    for _ in range(300):
        check_word(rng.getrandbits(rng.randint(1, 40)))

    # ---- correspondence: to_flags_data / from_flags_data
    sample_words = rng.sample(words, min(len(words), 500)) + unknown_bits + [
        u | sum(v for _, v in known if rng.random() < 0.4) for u in unknown_bits] + [rng.getrandbits(34) for _ in range(100)]
    for w in sample_words:
        r = call(to_flags_data, w)
        ctx.case("ser_res_cls ser_flags (to_flags_data cfg %s)" % gz(w), tres(r, tflags, cls=True), "to_flags_data %#x" % w, "to_flags")
    for _ in range(300):
        fs = [n for n in names if rng.random() < 0.4]
        if rng.random() < 0.1:
            fs.append(rng.choice(["BOGUS", "nested_scopes", "generators", "xyz"]))
        rng.shuffle(fs)
        r = call(from_flags_data, set(fs))
        ctx.case("ser_res_cls ser_Z (from_flags_data cfg %s)" % gflags(fs), tres(r, tz, cls=True), "from_flags_data %r" % fs, "from_flags")
    ctx.sample({"word": hex(sample_words[3]), "names": sorted(call(to_flags_data, sample_words[3])[1]) if call(to_flags_data, sample_words[3])[0] == "ok" else "raises"})

    # ---- direct oracle 2: header alterations: exception or exact header reproduction
    def walk(c):
        yield c
        for k in c.co_consts:
            if isinstance(k, types.CodeType):
                for x in walk(k):
                    yield x

    bases = []
    for src in BASES:
        try:
            for k in walk(compile(src, "<c11>", "exec")):
                bases.append(k)
        except SyntaxError:
            pass

    def check_header(k, what):
        ctx.evaluated((what, k.co_flags, k.co_argcount, k.co_kwonlyargcount, k.co_name))
        r = call(CodeData.from_code, k)
        if r[0] != "ok":
            ctx.count("header:from_code-raises")
            return
        e = call(r[1].to_code)
        if e[0] != "ok":
            ctx.count("header:to_code-raises")
            ctx.violation("header-to_code-raises", "%s: from_code succeeded but to_code raises %s" % (what, e[1]), {"what": what})
            return
        ctx.count("header:roundtrip")
        for f in HEADER:
            if getattr(e[1], f) != getattr(k, f):
                ctx.violation("header-lost", "%s: %s is %r after the round trip, was %r" % (what, f, getattr(e[1], f), getattr(k, f)),
                              {"what": what, "field": f})
                return

    for bi, b in enumerate(bases):
        nm = "%s#%d" % (b.co_name, bi)
        check_header(b, "base %s" % nm)
        for n, v in known:
            check_header_safe = call(replace_code, b, co_flags=b.co_flags ^ v)
            if check_header_safe[0] == "ok":
                check_header(check_header_safe[1], "%s with flag %s toggled" % (nm, n))
        for u in unknown_bits[:8]:
            k = call(replace_code, b, co_flags=b.co_flags | u)
            if k[0] == "ok":
                check_header(k[1], "%s with unknown flag bit %#x" % (nm, u))
        for _ in range(10 if ctx.quick else 100):
            kw = {}
            if rng.random() < 0.7:
                kw["co_flags"] = b.co_flags ^ sum(v for _, v in known if rng.random() < 0.15)
            if rng.random() < 0.5:
                kw["co_argcount"] = max(0, b.co_argcount + rng.choice([-2, -1, 1, 2, 5]))
            if rng.random() < 0.5:
                kw["co_kwonlyargcount"] = max(0, b.co_kwonlyargcount + rng.choice([-1, 1, 2, 5]))
            if sys.version_info >= (3, 8) and rng.random() < 0.4:
                kw["co_posonlyargcount"] = max(0, b.co_posonlyargcount + rng.choice([-1, 1, 2, 5]))
            k = call(replace_code, b, **kw)
            if k[0] == "ok":
                check_header(k[1], "%s with %r" % (nm, sorted(kw.items())))
            else:
                ctx.count("header:constructor-rejects")
