# C01: code -> data -> code is lossless in every field.
import sys
import types

import enc
import encdata as E
from enc import call, tres
from props import corpus, linecodes, progen


def work(ctx):
    from code_data import CodeData
    rng = ctx.rng
    ncases = 0
    max_cases = 260 if ctx.quick else 3000

    def check(origin, k, top):
        """k: a code object (nested ones are visited separately by the corpus walk)"""
        nonlocal ncases
        key = (k.co_code, k.co_name, k.co_firstlineno, E.table_of(k))
        ctx.evaluated(key)
        ctx.count("code_len:%s" % (len(k.co_code) // 64 * 64 if len(k.co_code) < 512 else "512+"))
        r = call(CodeData.from_code, k)
        if r[0] != "ok":
            ctx.violation("from_code-raises", "%s:%s from_code raises %s" % (origin, k.co_name, r[1]),
                          {"origin": origin, "name": k.co_name, "firstlineno": k.co_firstlineno})
            return
        d = r[1]
        e = call(d.to_code)
        if e[0] != "ok":
            ctx.violation("to_code-raises", "%s:%s to_code raises %s" % (origin, k.co_name, e[1]),
                          {"origin": origin, "name": k.co_name, "firstlineno": k.co_firstlineno})
            return
        diff = E.strict_diff(e[1], k)
        if diff:
            ctx.violation("roundtrip-differs", "%s:%s %s" % (origin, k.co_name, diff[:300]),
                          {"origin": origin, "name": k.co_name, "firstlineno": k.co_firstlineno})
        # correspondence on the API projection: decode and encode of model vs implementation
        size = len(k.co_code) + sum(len(x.co_code) for x in corpus.walk(k))
        if ncases < max_cases and size <= 700 and (top or rng.random() < 0.5):
            try:
                ctx.case("ser_res ser_cd (to_code_data cfg %s)" % E.g_pycode(k), tres(r, E.t_cd),
                         "to_code_data %s:%s" % (origin, k.co_name), "decode")
                ctx.case("ser_res ser_pycode (from_code_data cfg %s)" % E.g_cd(d), tres(e, E.t_pycode),
                         "from_code_data %s:%s" % (origin, k.co_name), "encode")
                # the premise of the C01 theorem evaluated on this real code object (all nesting levels) and its conclusion
                ctx.case("(let code := %s in ser_bool (rt_wf_deep cfg (PCode code) && rt_extra_deep cfg (PCode code)) ++ match to_code_data cfg code with "
                         "OK d => match from_code_data cfg d with OK c2 => ser_bool (zlist_eqb (ser_pycode c2) (ser_pycode code)) | Err _ => [2] end "
                         "| Err _ => [3] end)" % E.g_pycode(k), [1, 1], "rt_wf_deep, rt_extra_deep and K3 conclusion on %s:%s" % (origin, k.co_name), "wf-monitor")
                # the domain of the full theorem (from_code succeeds and round trip is the identity): a boolean on the code object alone
                ctx.case("ser_bool (total_wf_deep cfg (PCode %s))" % E.g_pycode(k), [1], "total_wf_deep on %s:%s" % (origin, k.co_name), "wf-monitor")
                ncases += 1
            except E.Unsupported:
                ctx.count("unsupported-constant")
        ctx.sample({"origin": origin, "name": k.co_name, "code_bytes": len(k.co_code), "consts": len(k.co_consts)})

    for origin, k in corpus.code_objects(ctx.tier, rng, huge=True):
        check(origin, k, False)
    # every __future__ feature the compiler accepts, alone and with a function / class / lambda inside
    import __future__
    for feat in __future__.all_feature_names:
        src = "from __future__ import %s\ndef f(a, *b, c=1, **d):\n    return (lambda: a)()\nclass K:\n    x: int = 1\ny = [i for i in (1, 2)]\n" % feat
        try:
            top = compile(src, "<future-%s>" % feat, "exec", dont_inherit=True)
        except (SyntaxError, ValueError):
            ctx.count("future-uncompilable")
            continue
        ctx.count("future-feature-programs")
        for k in corpus.walk(top):
            check("future[%s]" % feat, k, k is top)
    # line tables at the assembler's boundaries, on real code objects
    for what, k in linecodes.boundary_codes(rng, ctx.quick):
        ctx.count("boundary-line-tables")
        check("linetab", k, False)
    # generated programs x compile mode x optimisation level
    for src, mode in progen.programs(ctx, 60 if ctx.quick else 1500):
        for opt in (0, 1, 2):
            try:
                top = compile(src, "<gen>", mode, optimize=opt, dont_inherit=True)
            except (SyntaxError, ValueError, RecursionError, MemoryError, OverflowError):
                ctx.count("gen-uncompilable")
                continue
            ctx.count("gen:%s:O%d" % (mode, opt))
            for k in corpus.walk(top):
                check("gen", k, k is top)
