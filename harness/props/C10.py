# C10: line-table codec agrees with CPython.  Runs under each 3.7-3.10 interpreter.
import itertools
import signal
import sys
import types

import enc
from enc import gz, glist, gopt, gbool, tz, tlist, topt, tres, call
from props import linetools as LT

BC_B = [0, 2, 4, 100, 252, 254, 255]
LN_B = [0, 1, -1, 2, 126, 127, -126, -127, -128, 5, -5]
PROG_B = [0, 2, 4, 126, 128, 252, 254, 256, 508, 510, 512, 1020]
PROG_L = [0, 1, -1, 3, 126, 127, 128, 129, -126, -127, -128, -129, 253, 254, 255, 256, -254, -255,
          -256, -257, 381, -384, 1000, -1000]


# ---- Gallina renderers / token encoders for the codec's types
def g_eitems(items):
    return glist(["(%s, %s)" % (gz(i.line_offset), gz(i.bytecode_offset)) for i in items], "eitem")


def g_citems(items):
    return glist(["(%s, %s)" % (gopt(i.line_offset, gz, "Z"), gz(i.bytecode_offset)) for i in items], "citem")


def g_linemap(m):
    lines = glist(["(%s, %s)" % (gz(k), gopt(v, gz, "Z")) for k, v in m.offset_to_line.items()], "(Z * option Z)")
    adds = glist(["(%s, %s)" % (gz(k), enc.gzlist(v)) for k, v in m.offset_to_additional_line_offsets.items()],
                 "(Z * list Z)")
    return "{| lm_lines := %s; lm_adds := %s |}" % (lines, adds)


def t_eitems(items):
    return tlist(items, lambda i: [i.line_offset, i.bytecode_offset])


def t_citems(items):
    return tlist(items, lambda i: topt(i.line_offset, tz) + [i.bytecode_offset])


def t_linemap(m):
    return (tlist(m.offset_to_line.items(), lambda kv: [kv[0]] + topt(kv[1], tz))
            + tlist(m.offset_to_additional_line_offsets.items(), lambda kv: [kv[0]] + tlist(kv[1], tz)))


def timed(f, *a):
    signal.setitimer(signal.ITIMER_REAL, 0.3)
    try:
        return call(f, *a)
    finally:
        signal.setitimer(signal.ITIMER_REAL, 0)


def make_code(table, n, native_lt):
    """a real code object of n bytes of NOPs carrying the table"""
    base = compile("pass", "<c10>", "exec")
    code = bytes([9, 0] * (n // 2 - 1) + [83, 0]) if n >= 2 else b""
    if sys.version_info >= (3, 8):
        if native_lt:
            return base.replace(co_code=code, co_linetable=table, co_firstlineno=1000000)
        return base.replace(co_code=code, co_lnotab=table, co_firstlineno=1000000)
    return types.CodeType(0, 0, 0, 1, 64, code, (None,), (), (), "<c10>", "<module>", 1000000, table, (), ())


def real_lines(code, n, native_lt):
    """CPython's own reading: offset -> line relative to firstlineno (None = no line)"""
    out = {}
    if native_lt:
        for s, e, l in code.co_lines():
            for o in range(s, min(e, n), 2):
                out[o] = None if l is None else l - code.co_firstlineno
        return out
    import ctypes
    f = ctypes.pythonapi.PyCode_Addr2Line
    f.argtypes = [ctypes.py_object, ctypes.c_int]
    f.restype = ctypes.c_int
    for o in range(0, n, 2):
        out[o] = f(code, o) - code.co_firstlineno
    return out


def work(ctx):
    import code_data._line_mapping as LM
    rng = ctx.rng
    native_lt = sys.version_info >= (3, 10)
    v37 = sys.version_info < (3, 8)
    quick = ctx.quick
    vidx = {"37": 0, "38": 1, "39": 2, "310": 3}[ctx.vername]

    def stage_cases(table, n, lt, group):
        """function-level correspondence of the six stages on one table (verdict bearing for C10)"""
        L = gbool(lt)
        r = call(LM.bytes_to_items, bytes(table)) if all(0 <= b < 256 for b in table) else ("err", "ValueError")
        ctx.case("ser_res ser_eitems (bytes_to_items %s)" % enc.gzlist(table), tres(r, t_eitems), "bytes_to_items", group)
        if r[0] != "ok":
            return None
        items = r[1]
        c = LM.collapse_items(items, lt)
        ctx.case("ser_citems (collapse_items %s %s)" % (L, g_eitems(items)), t_citems(c), "collapse_items %r" % (list(table),), group)
        e = call(LM.expand_items, c, lt)
        ctx.case("ser_res ser_eitems (OK (expand_items %s %s))" % (L, g_citems(c)), tres(e, t_eitems), "expand_items", group)
        if not lt and any(i.bytecode_offset % 2 for i in c) and ctx.counters.get("items_to_mapping:OutOfFuel", 0) >= 120:
            return None     # enough non-terminating (odd offset) cases: each costs a timeout
        m = timed(LM.items_to_mapping, c, n, lt)
        ctx.case("ser_res ser_linemap (items_to_mapping %s %s %s)" % (g_citems(c), gz(n), L), tres(m, t_linemap),
                 "items_to_mapping %r n=%d lt=%s" % (list(table), n, lt), group)
        if m[0] != "ok":
            ctx.count("items_to_mapping:" + m[1])
            return None
        c2 = call(LM.mapping_to_items, m[1], lt)
        ctx.case("ser_res ser_citems (mapping_to_items %s %s)" % (g_linemap(m[1]), L), tres(c2, t_citems), "mapping_to_items", group)
        if c2[0] != "ok":
            return None
        e2 = call(LM.expand_items, c2[1], lt)
        b2 = call(LM.items_to_bytes, e2[1]) if e2[0] == "ok" else e2
        if e2[0] == "ok":
            ctx.case("ser_res (ser_list ser_Z) (items_to_bytes %s)" % g_eitems(e2[1]), tres(b2, lambda b: tlist(b, tz)), "items_to_bytes", group)
        return m[1], (bytes(b2[1]) if b2[0] == "ok" else None)

    def oracle(table, n, lt, what, in_domain=True):
        """the property itself on the implementation: reader agreement and byte-exact re-encoding"""
        table = bytes(table)
        ctx.evaluated((table, n, lt))
        items = LM.bytes_to_items(table)
        m = timed(LM.items_to_mapping, LM.collapse_items(items, lt), n, lt)
        if m[0] != "ok":
            ctx.violation("decode-raises", "%s: decoding %r (n=%d, linetable=%s) raises %s" % (what, list(table), n, lt, m[1]),
                          {"table": list(table), "n": n, "linetable": lt})
            return
        m = m[1]
        ref = LT.colines_310(table) if lt else None
        for o in range(0, n, 2):
            want = ref.get(o) if lt else LT.addr2line_pre310(table, o)
            if lt and o not in ref:
                continue
            got = m.offset_to_line.get(o, "missing")
            if got != want:
                ctx.violation("line-differs", "%s: offset %d of table %r (n=%d, linetable=%s): decoded line %r, CPython reads %r"
                              % (what, o, list(table), n, lt, got, want), {"table": list(table), "n": n, "linetable": lt, "offset": o})
                break
        back = call(lambda: LM.items_to_bytes(LM.expand_items(LM.mapping_to_items(m, lt), lt)))
        if back[0] != "ok" or back[1] != table:
            ctx.violation("bytes-differ", "%s: table %r (n=%d, linetable=%s) re-encodes as %r" % (
                what, list(table), n, lt, list(back[1]) if back[0] == "ok" else back[1]),
                {"table": list(table), "n": n, "linetable": lt})
        if lt == native_lt and n >= 2:
            # through a real code object and CPython's own reader
            code = make_code(table, n, lt)
            real = real_lines(code, n, lt)
            lm = LM.to_line_mapping(code)
            for o in range(0, n, 2):
                if o in real and lm.offset_to_line.get(o, "missing") != real[o]:
                    ctx.violation("line-differs-real", "%s: offset %d of table %r: to_line_mapping says %r, CPython says %r" % (
                        what, o, list(table), lm.offset_to_line.get(o, "missing"), real[o]), {"table": list(table), "n": n})
                    break
            if LM.from_line_mapping(lm) != table:
                ctx.violation("bytes-differ-real", "%s: from_line_mapping(to_line_mapping(code)) != table %r" % (what, list(table)),
                              {"table": list(table), "n": n})
            # and the transcribed reader against the real one (validates the Spec side)
            mine = {o: (ref.get(o) if lt else LT.addr2line_pre310(table, o)) for o in range(0, n, 2)}
            if any(o in real and real[o] != mine[o] for o in mine):
                ctx.tie_break("reader transcription disagrees with CPython on %r" % (list(table),))

    # ---- 1. line programs through the transcribed assemblers (the property's own quantifier)
    def programs():
        # exhaustive short programs over the boundary sets, then random longer ones
        short_b = [0, 2, 254, 256, 510]
        short_l = [1, -1, 127, 128, -128, -129, 254, 255, -256, -257, 0]
        for b1, l1 in itertools.product(short_b, short_l):
            yield [(b1, l1)]
        for (b1, l1, b2, l2) in itertools.product(short_b, short_l, short_b, short_l):
            yield [(b1, l1), (b2, l2)]
        nrand = 400 if quick else 6000
        for _ in range(nrand):
            k = rng.randint(1, 7)
            yield [(rng.choice(PROG_B), rng.choice(PROG_L)) for _ in range(k)]

    nprog = 0
    for idx, p in enumerate(programs()):
        if quick and idx % 4 != vidx and idx < 3100:
            continue  # the four interpreters share the exhaustive part in the quick tier
        nprog += 1
        for lt in (False, True):
            if lt:
                # ranges (length, line or None); some deltas stand for "no line"; delta 0 after a
                # no-line range gives the "same line again" shape; equal neighbours merge as in the compiler
                ranges = []
                line = 0
                for (b, l) in p:
                    b = b or 2
                    new = None if l in (128, -129, 1000) else line + l
                    if ranges and ranges[-1][1] == new:
                        ranges[-1] = (ranges[-1][0] + b, new)
                    else:
                        ranges.append((b, new))
                    if new is not None:
                        line = new
                table = LT.asm_310(ranges)
                n = sum(b for b, _ in ranges)
                fmt = "asm310"
            else:
                table = LT.asm_pre310(p, v37)
                n = sum(b for b, _ in p) + 2 * rng.randint(0, 2)
                fmt = "asm37" if v37 else "asm38"
            ctx.count("programs:" + fmt)
            ctx.count("table_len:%d" % min(len(table) // 2, 12))
            if lt == native_lt or idx % 3 == 0:
                oracle(table, n, lt, fmt)
            if idx % (6 if quick else 2) == 0:
                stage_cases(list(table), n, lt, "asm-image")
            ctx.sample({"program": p, "format": fmt, "table": list(table), "n": n})

    # ---- 2. raw tables over the boundary values (the theorems are stated over raw tables)
    entries = [(b, l) for b in BC_B for l in LN_B]
    raw = [[e] for e in entries] + [[e1, e2] for e1 in entries for e2 in entries]
    if not quick:
        small = [(b, l) for b in (0, 2, 254, 255) for l in (0, 1, -1, 127, -127, -128)]
        raw += [[a, b, c] for a in small for b in small for c in small]
    for idx, t in enumerate(raw):
        if quick and idx % 16 != vidx * 4 + (ctx.seed % 4):
            continue
        for lt in (False, True):
            table = [x & 255 for e in t for x in e]
            total = sum(b for b, _ in t)
            n = total + (0 if lt else 2 * (idx % 3))
            odd = any(b % 2 for b, _ in t)
            ctx.count("raw:" + ("odd-offsets" if odd else "even-offsets"))
            if len(t) < 3 or idx % 7 == 0:
                stage_cases(table, n, lt, "raw-odd" if odd else "raw")
            if not odd and lt == native_lt and n >= 2:
                # <=3.9: every raw table with even offsets; 3.10: raw tables that are assembler images
                if not lt or LT.is_asm310_image(table):
                    ctx.count("raw-in-domain")
                    oracle(table, n, lt, "raw")
    nr = 150 if quick else 4000
    for _ in range(nr):
        k = rng.randint(3, 9)
        t = [(rng.choice([0, 2, 4, 6, 254, 252] + ([255] if rng.random() < 0.1 else [])), rng.choice(LN_B)) for _ in range(k)]
        table = [x & 255 for e in t for x in e]
        for lt in (False, True):
            n = sum(b for b, _ in t) + (0 if lt else 2 * rng.randint(0, 2))
            stage_cases(table, n, lt, "raw-long")
            if lt == native_lt and not any(b % 2 for b, _ in t) and n >= 2:
                if not lt or LT.is_asm310_image(table):
                    ctx.count("raw-in-domain")
                    oracle(table, n, lt, "raw-long")

    # ---- 3. malformed stream: odd length, collapsed items outside what the stages produce
    for t in ([1], [2, 3, 4], [255, 255, 255], [0, 128], [7]):
        for lt in (False, True):
            stage_cases(t, 8, lt, "malformed")
    CI = LM.CollapsedLineTableItem
    weird = [[CI(None, 4)], [CI(3, 600), CI(None, 700)], [CI(500, 0), CI(-500, 2)], [CI(0, 0)], [CI(None, 0)],
             [CI(127, 255), CI(-128, 254)], [CI(128, 256), CI(-129, 510)], [CI(5, -2)], [CI(5, 3)], []]
    for c in weird:
        for lt in (False, True):
            L = gbool(lt)
            e = call(LM.expand_items, c, lt)
            ctx.case("ser_res ser_eitems (OK (expand_items %s %s))" % (L, g_citems(c)), tres(e, t_eitems), "expand weird", "malformed")
            m = timed(LM.items_to_mapping, c, 6, lt)
            ctx.case("ser_res ser_linemap (items_to_mapping %s 6 %s)" % (g_citems(c), L), tres(m, t_linemap), "mapping weird %r" % (c,), "malformed")
    LMap = LM.LineMapping
    for m in (LMap({}, {}), LMap({0: None}, {}), LMap({0: 1, 2: None, 4: 1}, {}), LMap({0: 5, 4: 6}, {4: [1, 0]}),
              LMap({0: 1, 2: 1, 4: -300}, {0: [0]}), LMap({2: 1, 6: 2}, {})):
        for lt in (False, True):
            c2 = call(LM.mapping_to_items, m, lt)
            ctx.case("ser_res ser_citems (mapping_to_items %s %s)" % (g_linemap(m), gbool(lt)), tres(c2, t_citems), "mapping_to_items weird", "malformed")
    ctx.count("programs_total", nprog)

    # ---- 4. the Spec definitions (Coq) against their Python transcriptions (which the oracle
    #         above compares with the real CPython readers)
    def g_events(p):
        return glist(["(%s, %s)" % (gz(b), gz(l)) for b, l in p], "(Z * Z)")

    def t_raw(tab):
        tab = list(tab)
        return tlist(range(0, len(tab), 2), lambda i: [tab[i + 1] - 256 if tab[i + 1] >= 128 else tab[i + 1], tab[i]])

    def g_raw(tab):
        tab = list(tab)
        return glist(["(%s, %s)" % (gz(tab[i + 1] - 256 if tab[i + 1] >= 128 else tab[i + 1]), gz(tab[i])) for i in range(0, len(tab), 2)], "eitem")

    for _ in range(120 if quick else 1500):
        k = rng.randint(1, 6)
        p = [(rng.choice(PROG_B), rng.choice(PROG_L)) for _ in range(k)]
        for flag in (True, False):
            tab = LT.asm_pre310(p, flag)
            ctx.case("ser_eitems (asm_pre310 %s %s 0)" % (gbool(flag), g_events(p)), t_raw(tab), "spec asm_pre310", "spec")
            o = 2 * rng.randint(0, 600)
            ctx.case("ser_Z (addr2line %s %s)" % (g_raw(tab), gz(o)), [LT.addr2line_pre310(tab, o)], "spec addr2line", "spec")
        ranges = []
        line = 0
        for (b, l) in p:
            b = b or 2
            new = None if l in (128, -129, 1000) else line + l
            if ranges and ranges[-1][1] == new:
                ranges[-1] = (ranges[-1][0] + b, new)
            else:
                ranges.append((b, new))
            if new is not None:
                line = new
        tab = LT.asm_310(ranges)
        ctx.case("ser_eitems (asm_310 %s 0)" % glist(["(%s, %s)" % (gz(b), gopt(l, gz, "Z")) for b, l in ranges], "(Z * option Z)"),
                 t_raw(tab), "spec asm_310", "spec")
        o = 2 * rng.randint(0, 600)
        ref = LT.colines_310(tab)
        want = topt(ref[o], tz) if o in ref else None
        ctx.case("ser_opt (ser_opt ser_Z) (colines %s %s)" % (g_raw(tab), gz(o)), [0] if o not in ref else [1] + want, "spec colines", "spec")

    # ---- 5. every line table found in real compiled code (nested code objects included)
    from props import corpus
    nin = nout = 0
    for origin, code in corpus.code_objects(ctx.tier, rng):
        table = code.co_linetable if native_lt else code.co_lnotab
        n = len(code.co_code)
        indom = LT.is_asm310_image(table) if native_lt else not any(b % 2 for b in table[0::2])
        ctx.count("corpus-table-in-domain" if indom else "corpus-table-outside-domain")
        oracle(table, n, native_lt, "corpus %s:%s" % (origin, code.co_name))
        if indom and len(table) <= 60 and nin < (150 if quick else 1500):
            nin += 1
            stage_cases(list(table), n, native_lt, "corpus")
