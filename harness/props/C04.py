# C04: signature, docstring and kind agree with CPython's calling convention.
import inspect
import itertools
import sys
import types

import enc
import encdata as E
from enc import gz, gflags, tflags, tlist, tstr, tz, tres, call, topt
from props import corpus

V38 = sys.version_info >= (3, 8)
CO_VARARGS, CO_VARKEYWORDS, CO_OPTIMIZED, CO_NEWLOCALS = 4, 8, 1, 2
CO_GENERATOR, CO_COROUTINE, CO_ASYNC_GENERATOR = 0x20, 0x80, 0x200


def make_cell():
    return (lambda x: lambda: x)(0).__closure__[0]


def function_of(code):
    closure = tuple(make_cell() for _ in code.co_freevars) or None
    return types.FunctionType(code, {}, code.co_name, None, closure)


def independent_parameters(code):
    """own reading of the raw counts: co_varnames = positional, keyword-only, *args, **kwargs"""
    v = code.co_varnames
    pos = code.co_argcount
    po = code.co_posonlyargcount if V38 else 0
    kw = code.co_kwonlyargcount
    out = [(n, 0) for n in v[:po]] + [(n, 1) for n in v[po:pos]]
    i = pos + kw
    if code.co_flags & CO_VARARGS:
        out.append((v[i], 2))
        i += 1
    out += [(n, 3) for n in v[pos:pos + kw]]
    if code.co_flags & CO_VARKEYWORDS:
        out.append((v[i], 4))
    return out


def shapes():
    for po, pk, ko, va, vk in itertools.product(range(3) if V38 else [0], range(3), range(3), (0, 1), (0, 1)):
        parts = ["p%d" % i for i in range(po)] + (["/"] if po else []) + ["a%d" % i for i in range(pk)]
        if va:
            parts.append("*args")
        elif ko:
            parts.append("*")
        parts += ["k%d" % i for i in range(ko)]
        if vk:
            parts.append("**kw")
        yield ", ".join(parts), (po, pk, ko, va, vk)


DOCS = [("", None), ("''", ""), ("'''doc'''", "doc"), ("'\\ud800 lone'", "\ud800 lone"), ("1", None), ("b'bytes'", None),
        ("f'{a}'", None), ("'a' 'b'", "ab")]


def work(ctx):
    from code_data import CodeData, Args
    from code_data._args import ArgsInput, args_from_input, args_to_input, args_to_parameters
    from code_data._flags_data import to_flags_data
    rng = ctx.rng

    def check_code(code, what, f=None):
        """oracle on one code object; f is the real function object when there is one"""
        ctx.evaluated((what, code.co_code, code.co_varnames, code.co_flags))
        r = call(CodeData.from_code, code)
        if r[0] != "ok":
            ctx.violation("from_code-raises", "%s: from_code raises %s" % (what, r[1]), {"what": what})
            return
        d = r[1]
        is_fn = bool(code.co_flags & CO_OPTIMIZED) and bool(code.co_flags & CO_NEWLOCALS)
        if not is_fn:
            ctx.count("kind:not-function")
            if d.type is not None:
                ctx.violation("type-not-none", "%s: module/class body decodes with type %r" % (what, d.type), {"what": what})
            return
        if d.type is None:
            ctx.violation("type-none", "%s: function code decodes with type None" % what, {"what": what})
            return
        fn = f if f is not None else function_of(code)
        mine = [(n, int(k)) for n, k in d.type.args.parameters.items()]
        ind = independent_parameters(code)
        if mine != ind:
            ctx.violation("parameters-differ", "%s: decoded parameters %r, CPython binds %r" % (what, mine, ind), {"what": what})
        try:
            sig = [(p.name, int(p.kind)) for p in inspect.signature(fn).parameters.values()]
            # inspect renames the implicit '.0' argument of comprehensions to implicit0 and shows it positional-only
            sig = [((code.co_varnames[i], 1) if n.startswith("implicit") and code.co_varnames[i].startswith(".") else (n, k))
                   for i, (n, k) in enumerate(sig)]
            if sig != mine:
                ctx.violation("signature-differs", "%s: decoded parameters %r, inspect.signature %r" % (what, mine, sig), {"what": what})
        except (ValueError, TypeError):
            ctx.count("inspect-declines")
        if len(d.type.args) != len(ind):
            ctx.violation("len-differs", "%s: len(args)=%d, %d parameters" % (what, len(d.type.args), len(ind)), {"what": what})
        if d.type.docstring != fn.__doc__:
            ctx.violation("docstring-differs", "%s: docstring %r, __doc__ %r" % (what, d.type.docstring, fn.__doc__), {"what": what})
        want = ("ASYNC_GENERATOR" if inspect.isasyncgenfunction(fn) else "COROUTINE" if inspect.iscoroutinefunction(fn)
                else "GENERATOR" if inspect.isgeneratorfunction(fn) else None)
        if d.type.type != want:
            ctx.violation("kind-differs", "%s: type %r, inspect classifies %r" % (what, d.type.type, want), {"what": what})
        ctx.count("kind:%s" % want)
        # the Spec side the theorem C04_header mentions (Spec/FuncKind.v) against the real function object / inspect
        if ctx.rng.random() < (0.3 if ctx.quick else 1.0):
            try:
                kind_tok = {None: [0], "GENERATOR": [1, 0], "COROUTINE": [1, 1], "ASYNC_GENERATOR": [1, 2]}[want]
                ctx.case("(ser_opt ser_str (cpy_doc %s) ++ ser_opt (fun t => [match t with FT_GENERATOR => 0 | FT_COROUTINE => 1 | FT_ASYNC_GENERATOR => 2 end]) "
                         "(inspect_kind cfg %s) ++ ser_bool (function_like cfg %s))" % (
                             E.glist([E.g_pyconst(x) for x in code.co_consts], "pyconst"), gz(code.co_flags), gz(code.co_flags)),
                         topt(fn.__doc__, tstr) + kind_tok + [1], "Spec/FuncKind on %s" % what, "spec-kind")
            except E.Unsupported:
                pass
        # correspondence of the signature functions (the property's projection)
        fl = call(to_flags_data, code.co_flags)
        if fl[0] == "ok" and ctx.rng.random() < (0.5 if ctx.quick else 1.0):
            po = code.co_posonlyargcount if V38 else 0
            names = sorted(fl[1])
            inp = ArgsInput(code.co_argcount, po, code.co_kwonlyargcount, code.co_varnames, set(fl[1]))
            a = call(args_from_input, inp)
            ctx.case("ser_res (fun p => ser_args (fst p) ++ ser_flags (snd p)) (args_from_input %s %s %s %s %s)" % (
                gz(code.co_argcount), gz(po), gz(code.co_kwonlyargcount), E.gstrs(code.co_varnames), gflags(names)),
                tres(a, lambda x: E.t_args(x) + tflags(inp.flags_data)), "args_from_input %s" % what, "args_from_input")
            if a[0] == "ok":
                ctx.case("ser_params (args_to_parameters %s)" % E.g_args(a[1]),
                         tlist(a[1].parameters.items(), lambda kv: tstr(kv[0]) + [int(kv[1])]), "parameters %s" % what, "parameters")
                base = sorted(rng.sample(["OPTIMIZED", "NEWLOCALS", "GENERATOR"], rng.randint(0, 2)))
                fs = set(base)
                ai = args_to_input(a[1], fs)
                ctx.case("(fun r => match r with (ac, pc, kc, vn, fl) => [ac; pc; kc] ++ ser_list ser_str vn ++ ser_flags fl end) (args_to_input %s %s)"
                         % (E.g_args(a[1]), gflags(base)),
                         [ai.argcount, ai.posonlyargcount, ai.kwonlyargcount] + tlist(ai.varnames, tstr) + tflags(ai.flags_data),
                         "args_to_input %s" % what, "args_to_input")

    # ---- every signature shape x scope kind x docstring shape (exhaustive over <= 2 parameters of each kind)
    kinds = [("def", "def f(%s):\n    %s\n    return 1\n"), ("gen", "def f(%s):\n    %s\n    yield 1\n"),
             ("async", "async def f(%s):\n    %s\n    return 1\n"), ("asyncgen", "async def f(%s):\n    %s\n    yield 1\n"),
             ("closure", "def outer(z):\n    def f(%s):\n        %s\n        return z\n    return f\nf = outer(1)\n"),
             ("method", "class K:\n    def f(%s):\n        %s\n        return __class__\nf = K.f\n")]
    nshape = 0
    for sig, shape in shapes():
        nshape += 1
        for ki, (kname, tmpl) in enumerate(kinds):
            if ctx.quick and (nshape + ki) % 3 != 0 and kname != "def":
                continue
            doc, _ = DOCS[(nshape + ki) % len(DOCS)]
            src = tmpl % (sig, doc or "pass")
            ns = {}
            try:
                exec(compile(src, "<c04>", "exec"), ns)
            except SyntaxError:
                continue
            f = ns["f"]
            check_code(f.__code__, "%s f(%s) doc=%s" % (kname, sig, doc), f)
            ctx.count("shape:" + kname)
        if not any(shape[3:]) and not shape[2] and sig:
            lam = eval("lambda %s: 0" % sig)
            check_code(lam.__code__, "lambda %s" % sig, lam)
            ctx.count("shape:lambda")
    ctx.sample({"signature": "p0, /, a0, *args, k0, **kw", "kinds": [k for k, _ in kinds]})
    for doc, want in DOCS:
        for opt in (0, 2):
            try:
                c = compile("def f(a):\n    %s\n    return 'first string'\n" % (doc or "pass"), "<c04>", "exec", optimize=opt)
            except SyntaxError:
                continue
            check_code(c.co_consts[0] if isinstance(c.co_consts[0], types.CodeType) else [k for k in c.co_consts if isinstance(k, types.CodeType)][0],
                       "docstring shape %r -O%d" % (doc, opt))
    for src in ("x = ['abc' for _ in y]", "g = ('s' for _ in y)", "class A:\n    'cdoc'\n    x = 1\n", "s = {k: 'v' for k in y}",
                "f = lambda: 'abc'", "f = lambda a, *b, c=1, **d: a"):
        for k in corpus.walk(compile(src, "<c04>", "exec")):
            check_code(k, "scope %r %s" % (src, k.co_name))
    # ---- the corpus: every function-like code object
    for origin, k in corpus.code_objects(ctx.tier, rng, limit=25):
        check_code(k, "%s:%s:%d" % (origin, k.co_name, k.co_firstlineno))
