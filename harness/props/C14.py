# C14: iteration enumerates every nested code object.
import types

import encdata as E
from enc import call, tres, tlist, tstr
from props import corpus, progen

EXTRA = [
    "def f():\n    return 1\n    def g(): pass\n",
    "def f(x):\n    try:\n        pass\n    finally:\n        h = lambda: x\n    return h\n",
    "def f(x):\n    try:\n        return 1\n    finally:\n        class K:\n            def m(self): return [i for i in self]\n",
    "if 0:\n    def dead(): pass\nwhile 1:\n    break\nelse:\n    def also_dead(): pass\n",
    "def f():\n    for i in y:\n        try:\n            continue\n        finally:\n            z = lambda: (lambda: i)\n",
    "x = [lambda: 1, lambda: 1]\ny = (lambda: 1, lambda: 2)\n",
    "def f():\n    raise E\n    g = (i for i in j)\n    h = {k: v for k, v in j}\n",
]


def work(ctx):
    from code_data import CodeData
    rng = ctx.rng
    ncases = 0

    def walk_codes(c):
        out = [c]
        for k in c.co_consts:
            if isinstance(k, types.CodeType):
                out += walk_codes(k)
        return out

    def check(origin, top):
        nonlocal ncases
        what = "%s:%s:%d" % (origin, top.co_name, top.co_firstlineno)
        data = {"origin": origin, "name": top.co_name}
        codes = walk_codes(top)
        ctx.evaluated((top.co_code, top.co_name, len(codes)))
        ctx.count("nested:%s" % (len(codes) - 1 if len(codes) < 9 else "8+"))
        r = call(CodeData.from_code, top)
        if r[0] != "ok":
            return
        d = r[1]
        got = call(lambda: list(d.all_code_data()))
        if got[0] != "ok":
            ctx.violation("iteration-raises", "%s: all_code_data raises %s" % (what, got[1]), data)
            return
        want = [CodeData.from_code(k) for k in codes]
        if not got[1] or got[1][0] != d:
            ctx.violation("self-not-first", "%s: all_code_data does not start with the object itself" % what, data)
        rest = list(want)
        extra = []
        for x in got[1]:
            for i, w in enumerate(rest):
                if w == x:
                    del rest[i]
                    break
            else:
                extra.append(x)
        if rest or extra:
            ctx.violation("enumeration-differs", "%s: all_code_data yields %d objects for %d code objects; missing %r, unexpected %r"
                          % (what, len(got[1]), len(codes), [w.name for w in rest][:5], [x.name for x in extra][:5]), data)
        direct = [CodeData.from_code(k) for k in top.co_consts if isinstance(k, types.CodeType)]
        it = list(d)
        if sorted(map(hash, it)) != sorted(map(hash, direct)) or len(it) != len(direct):
            ctx.violation("iter-differs", "%s: iter yields %r, directly nested are %r" % (what, [x.name for x in it][:6], [x.name for x in direct][:6]), data)
        size = sum(len(k.co_code) for k in codes)
        if ncases < (150 if ctx.quick else 1500) and size < 500 and len(codes) > 1:
            try:
                ctx.case("ser_res (ser_list (fun d => ser_str (cd_name d) ++ [cd_firstline d; zlen (concat (cd_blocks d))])) "
                         "(match to_code_data cfg %s with OK d => all_code_data 40 d | Err e => Err e end)" % E.g_pycode(top),
                         [0] + tlist(got[1], lambda x: tstr(x.name) + [x.first_line_number, sum(len(b) for b in x.blocks)]),
                         "all_code_data %s" % what, "all_code_data")
                ncases += 1
            except E.Unsupported:
                pass
        ctx.sample({"code": what, "code_objects": len(codes)})

    for i, src in enumerate(EXTRA):
        for opt in (0, 2):
            top = compile(src, "<c14-%d>" % i, "exec", optimize=opt)
            for k in corpus.walk(top):
                check("extra%d" % i, k)
    for origin, k in corpus.code_objects(ctx.tier, rng, limit=30):
        if any(isinstance(x, types.CodeType) for x in k.co_consts) or rng.random() < 0.05:
            check(origin, k)
    for src, mode in progen.programs(ctx, 60 if ctx.quick else 1500):
        try:
            top = compile(src, "<gen>", mode, dont_inherit=True)
        except (SyntaxError, ValueError, RecursionError, MemoryError, OverflowError):
            continue
        check("gen", top)
