# C03: encoding any well-formed CodeData yields code that says what the data says.
import dis
import sys
import types

import encdata as E
from enc import call, tres
from props import disview
from props.C04 import independent_parameters

V310 = sys.version_info >= (3, 10)
PAIR = "(fun k' => match from_const cfg k' with OK p => OK (k', p) | Err e => Err e end)"
V38 = sys.version_info >= (3, 8)
CONST_POOL = [None, 0, 1, True, False, 1.0, 0.0, -0.0, "a", b"a", "", (1,), (True,), (1.0,), (0.0,), (-0.0,), ("a", b"a"), ..., 2 ** 70,
              float("inf"), frozenset([1, 2]), frozenset([1.0, 2]), 1j, complex(0.0, -0.0), "doc-like string"]


def gen_data(rng, quick):
    from code_data import (AdditionalLine, Args, Cellvar, CodeData, Constant, Freevar, Function, Instruction, Jump, Name, NoArg, Varname)
    is_fn = rng.random() < 0.6
    nposonly = rng.randint(0, 1) if (V38 and is_fn and rng.random() < 0.3) else 0
    vp = rng.choice(["va", "va", ""]) if is_fn and rng.random() < 0.3 else None
    vk = rng.choice(["kw", "kw"] + ([""] if vp != "" else [])) if is_fn and rng.random() < 0.3 else None
    args = Args(positional_only=tuple("p%d" % i for i in range(nposonly)),
                positional_or_keyword=tuple("a%d" % i for i in range(rng.randint(0, 2))) if is_fn else (),
                var_positional=vp,
                keyword_only=tuple("k%d" % i for i in range(rng.randint(0, 2))) if is_fn and rng.random() < 0.4 else (),
                var_keyword=vk)
    doc = rng.choice([None, None, "the docstring", ""]) if is_fn else None      # the empty docstring owns slot 0 too
    ftype = rng.choice([None, None, "GENERATOR", "COROUTINE", "ASYNC_GENERATOR"]) if is_fn else None
    tp = Function(args, doc, ftype) if is_fn else None
    freevars = tuple("fv%d" % i for i in range(rng.choice([0, 0, 1, 3, 258])))
    nnames = rng.choice([3, 10, 260] if quick else [3, 10, 260, 300, 70000])
    names = ["n%d" % i for i in range(nnames)]
    locs = (list(args.positional_only) + list(args.positional_or_keyword) + ([vp] if vp is not None else [])
            + list(args.keyword_only) + ([vk] if vk is not None else [])) + ["l%d" % i for i in range(rng.choice([1, 4, 258] if is_fn else [0]))]
    cells = ["c%d" % i for i in range(rng.choice([0, 0, 2]))]
    nblocks = rng.randint(1, 7)
    big = rng.random() < 0.5
    sizes = [rng.choice([1, 2, 5, 40] + ([130, 260] if big else [])) for _ in range(nblocks)]
    line = rng.randint(1, 50)
    first_line = line
    blocks = []
    OPS_PLAIN = ["NOP", "POP_TOP", "DUP_TOP", "BINARY_ADD", "RETURN_VALUE"]
    ABS = ["JUMP_ABSOLUTE", "POP_JUMP_IF_FALSE", "POP_JUMP_IF_TRUE"]
    REL = ["JUMP_FORWARD", "FOR_ITER"] + (["SETUP_FINALLY"] if V38 else ["SETUP_EXCEPT", "SETUP_LOOP"])
    for bi, n in enumerate(sizes):
        ins = []
        for _ in range(n):
            c = rng.random()
            if c < 0.2:
                nm = rng.choice(names if rng.random() < 0.8 else names[-3:])
                a = (rng.choice(["LOAD_NAME", "STORE_NAME", "LOAD_GLOBAL", "LOAD_ATTR"]), Name(nm))
            elif c < 0.4:
                a = ("LOAD_CONST", Constant(rng.choice(CONST_POOL)))
            elif c < 0.5 and is_fn and locs:
                a = (rng.choice(["LOAD_FAST", "STORE_FAST"]), Varname(rng.choice(locs)))
            elif c < 0.55 and (cells or freevars):
                if cells and (not freevars or rng.random() < 0.5):
                    a = (rng.choice(["LOAD_DEREF", "STORE_DEREF", "LOAD_CLOSURE"]), Cellvar(rng.choice(cells)))
                else:
                    a = (rng.choice(["LOAD_DEREF", "LOAD_CLOSURE"]), Freevar(rng.choice(freevars if rng.random() < 0.5 else freevars[-2:])))
            elif c < 0.63:
                a = (rng.choice(ABS), Jump(rng.randrange(nblocks), False))
            elif c < 0.7 and bi + 1 < nblocks:
                a = (rng.choice(REL), Jump(rng.randrange(bi + 1, nblocks), True))
            elif c < 0.76:
                a = (rng.choice(["CALL_FUNCTION", "BUILD_TUPLE", "BUILD_LIST"]), rng.choice([0, 1, 3, 255, 256, 70000]))
            else:
                a = (rng.choice(OPS_PLAIN), NoArg())
            step = rng.choice([0, 0, 0, 1, 1, 2, 5, 127, 128, 129, 255, 300, -1, -2, -127, -128, -129, -300])
            line = max(1, line + step)
            ln = None if (V310 and rng.random() < 0.08) else line
            ins.append(Instruction(a[0], a[1], line_number=ln))
        blocks.append(tuple(ins))
    if rng.random() < 0.3 and blocks[-1]:
        # end with an instruction that needs EXTENDED_ARG prefixes (the table's last entry covers several units)
        blocks[-1] = blocks[-1] + (Instruction("CALL_FUNCTION", rng.choice([256, 70000]), line_number=max(1, line)),)
    elif not blocks[-1] or blocks[-1][-1].name != "RETURN_VALUE":
        blocks[-1] = blocks[-1] + (Instruction("RETURN_VALUE", NoArg(), line_number=max(1, line)),)
    return CodeData(blocks=tuple(blocks), filename="<c03>", first_line_number=rng.choice([first_line, 1, max(1, first_line - 3)]), name="f",
                    stacksize=rng.randint(1, 9), type=tp, freevars=freevars, future_annotations=rng.random() < 0.1)


def work(ctx):
    from code_data import CodeData, Constant, Name, Varname, Cellvar, Function
    import dataclasses
    rng = ctx.rng
    ncases = 0
    n = 700 if ctx.quick else 8000

    for gi in range(n):
        d = gen_data(rng, ctx.quick)
        ninstr = sum(len(b) for b in d.blocks)
        what = "generated data #%d (seed %s, %d blocks, %d instructions)" % (gi, ctx.seed, len(d.blocks), ninstr)
        data = {"index": gi, "seed": ctx.seed}
        ctx.evaluated((gi, hash(d)))
        ctx.count("blocks:%d" % len(d.blocks))
        ctx.count("instructions:%s" % ("<50" if ninstr < 50 else "<300" if ninstr < 300 else "300+"))
        r = call(d.to_code)
        if r[0] != "ok":
            ctx.violation("to_code-raises", "%s: to_code raises %s on well-formed data" % (what, r[1]), data)
            continue
        c = r[1]
        # 1. CPython reads back what the data says
        try:
            ref = disview.dis_view(c)
        except Exception as e:  # noqa
            ctx.violation("unreadable", "%s: dis cannot read the emitted code: %s" % (what, type(e).__name__), data)
            continue
        want = disview.data_view(d)
        bad = None
        if len(ref) != len(want):
            bad = "%d instructions emitted for %d in the data" % (len(ref), len(want))
        else:
            for idx, ((o1, (k1, v1), l1), (o2, (k2, v2), l2)) in enumerate(zip(want, ref)):
                same = (k1 == k2 and o1 == o2 and (disview.same_const(v1, v2) if k1 == "const" else v1 == v2))
                if not same:
                    bad = "instruction %d: data says %s %s %r, CPython reads %s %s %r" % (idx, dis.opname[o1], k1, v1, dis.opname[o2], k2, v2)
                    break
                if l1 != l2:
                    bad = "instruction %d: line %r in the data, CPython reports %r" % (idx, l1, l2)
                    break
        if bad:
            ctx.violation("says-something-else", "%s: %s" % (what, bad[:300]), data)
            continue
        # 2. header
        if isinstance(d.type, Function):
            # what the data describes, read off the fields themselves (not through the library's .parameters)
            a_ = d.type.args
            mine = ([(nme, 0) for nme in a_.positional_only] + [(nme, 1) for nme in a_.positional_or_keyword]
                    + ([(a_.var_positional, 2)] if a_.var_positional is not None else [])
                    + [(nme, 3) for nme in a_.keyword_only]
                    + ([(a_.var_keyword, 4)] if a_.var_keyword is not None else []))
            if independent_parameters(c) != mine:
                ctx.violation("signature", "%s: signature %r, code object binds %r" % (what, mine, independent_parameters(c)), data)
            fl = c.co_flags
            wantgen = {None: 0, "GENERATOR": 0x20, "COROUTINE": 0x80, "ASYNC_GENERATOR": 0x200}[d.type.type]
            if (fl & 3) != 3 or (fl & 0x2A0) != wantgen:
                ctx.violation("flags", "%s: co_flags %#x for function type %r" % (what, fl, d.type.type), data)
            doc = c.co_consts[0] if c.co_consts and isinstance(c.co_consts[0], str) else None
            if doc != d.type.docstring:
                ctx.violation("docstring", "%s: docstring %r, code exposes %r" % (what, d.type.docstring, doc), data)
        elif c.co_flags & 3:
            ctx.violation("flags", "%s: non-function data encoded with function flags %#x" % (what, c.co_flags), data)
        if c.co_freevars != d.freevars or c.co_stacksize != d.stacksize or c.co_firstlineno != d.first_line_number:
            ctx.violation("header", "%s: freevars/stacksize/firstlineno differ" % what, data)
        # 3. decoding again gives the same data up to normalization (flattened stream)
        back = call(CodeData.from_code, c)
        if back[0] != "ok":
            ctx.violation("redecode-raises", "%s: from_code of the emitted code raises %s" % (what, back[1]), data)
        else:
            a, b = back[1].normalize(), d.normalize()
            va, vb = disview.data_view(a), disview.data_view(b)
            if len(va) != len(vb) or any(x[0] != y[0] or x[2] != y[2] or x[1][0] != y[1][0] or
                                         (not disview.same_const_data(x[1][1], y[1][1]) if x[1][0] == "const" else x[1][1] != y[1][1])
                                         for x, y in zip(va, vb)):
                ctx.violation("redecode-differs", "%s: decoding the emitted code does not give the data back (up to normalization)" % what, data)
            if (a.type, a.freevars, a.name, a.filename, a.first_line_number, a.stacksize, a.future_annotations) != (
                    b.type, b.freevars, b.name, b.filename, b.first_line_number, b.stacksize, b.future_annotations):
                ctx.violation("redecode-differs", "%s: header of the re-decoded data differs" % what, data)
        if ncases < (90 if ctx.quick else 1200) and ninstr < 120:
            try:
                ctx.case("ser_res ser_pycode (from_code_data cfg %s)" % E.g_cd(d), tres(r, E.t_pycode), "from_code_data of %s" % what, "encode-hand-built")
                # premise (blocks_wf) and conclusions of the K2 code theorem on this generated data, evaluated inside Coq
                ctx.case("(let d := %s in match blocks_to_bytes key_eqb is_str_const (KInner INone) (fun s => KInner (IStr s)) cfg (cd_blocks d) [] (cd_freevars d) (cd_type d) with "
                         "| OK (code, lm, names, varnames, cellvars, consts) => ser_bool (blocks_wf cfg (cd_blocks d)) ++ ser_bool (code_ok cfg code) ++ "
                         "ser_bool (list_eqb (fun (x y : vinstr const) => (v_op x =? v_op y) && val_match key_eqb (v_val x) (v_val y)) (data_view (cd_blocks d)) "
                         "(dis_view cfg code names varnames (cd_freevars d) cellvars consts [] 0)) | Err _ => [2] end)" % E.g_cd(d),
                         [1, 1, 1], "blocks_wf and K2 conclusion on %s" % what, "wf-monitor")
                # premise (data_wf) and conclusion of the composed C03 theorem (lines included) on this data
                ctx.case("(let d := %s in match mapM_cd PAIR d with OK d' => match encode_code cfg d' with OK code => "
                         "match blocks_to_bytes pkey_eqb (fun k => is_str_const (fst k)) (KInner INone, PInner INone) (fun s => (KInner (IStr s), PInner (IStr s))) "
                         "cfg (cd_blocks d') (cd_addargs d') (cd_freevars d') (cd_type d') with OK (_, _, _, _, _, kst) => "
                         "ser_bool (data_wf cfg d') ++ ser_bool (view_agrees pkey_eqb (data_view (cd_blocks d')) (dis_view cfg (co_code code) (co_names code) "
                         "(co_varnames code) (co_freevars code) (co_cellvars code) kst (raw_entries (co_linetable code)) (co_firstlineno code))) "
                         "++ ser_bool (view_wf cfg code (map fst kst)) "
                         "| Err _ => [2] end | Err _ => [3] end | Err _ => [4] end)".replace("PAIR", PAIR) % E.g_cd(d),
                         [1, 1, 1], "data_wf, composed K2 conclusion and view_wf of the emitted code on %s" % what, "wf-monitor")
                # the re-decode theorem: when every block but the first is a jump target, decoding the emitted code gives the
                # input up to normalization (premise computed here independently, conclusion evaluated inside Coq)
                targets = set(i.arg.target for b in d.blocks for i in b if type(i.arg).__name__ == "Jump")
                canon = all(kk in targets for kk in range(1, len(d.blocks)))
                ctx.count("blocks-cut-at-jump-targets:%s" % canon)
                ctx.case("(let d := %s in match mapM_cd PAIR d with OK d' => ser_bool (blocks_canonical_b (cd_blocks d')) ++ "
                         "ser_bool (negb (blocks_canonical_b (cd_blocks d')) || redecode_check cfg d') | Err _ => [4] end)".replace("PAIR", PAIR) % E.g_cd(d),
                         [1 if canon else 0, 1], "blocks_canonical and re-decode up to normalization on %s" % what, "wf-monitor")
                # the totality theorem: on data_wf data, enc_ok holds (to_code returned a code object here)
                ctx.case("(let d := %s in match mapM_cd PAIR d with OK d' => ser_bool (data_wf cfg d') ++ ser_bool (enc_ok cfg d') | Err _ => [4] end)".replace("PAIR", PAIR) % E.g_cd(d),
                         [1, 1], "data_wf and enc_ok (to_code returned) on %s" % what, "wf-monitor")
                ncases += 1
            except E.Unsupported:
                pass
        ctx.sample({"data": what, "first_block": [i.name for i in d.blocks[0][:6]]})

        # 4. inconsistent overrides: raise, never an operand outside its table / a wrong entry
        if gi % 3 == 0:
            flat = [(bi, ii, i) for bi, b in enumerate(d.blocks) for ii, i in enumerate(b) if isinstance(i.arg, (Constant, Name, Varname, Cellvar))]
            if flat:
                bi, ii, ins = rng.choice(flat)
                kind = rng.choice(["gap", "collide", "negative", "pinned-slot-taken", "pinned-slot-taken"])
                if kind == "pinned-slot-taken":
                    # the FIRST operand of its table is pinned at index 1; the next new value of that table has no override and
                    # is handed slot len(table) == 1, which the pinned operand already owns: a collision between a pinned and an
                    # automatically placed entry (what a user gets who inserts an instruction into decoded data)
                    # operands A, B, C, D of one table with four different values, in order of first use:
                    # A unpinned (slot 0), B pinned at 2, C unpinned - it is handed slot len(table) == 2, which B owns -
                    # and D pinned at 1, so that no gap is left that would make to_tuple raise for another reason
                    by_type = {}
                    for b2, i2, x in flat:
                        seen = by_type.setdefault(type(x.arg), [])
                        if repr(x.arg) not in [r for r, _ in seen]:
                            seen.append((repr(x.arg), (b2, i2, x)))
                    cands = [t for t, l in by_type.items() if len(l) >= 4]
                    if not cands:
                        continue
                    four = [v for _, v in by_type[rng.choice(cands)][:4]]
                    bi, ii, ins = four[1]
                    ov = 2
                elif kind == "gap":
                    ov = rng.choice([5000, 300, 66000])
                elif kind == "negative":
                    ov = -1
                else:
                    ov = 0
                newarg = dataclasses.replace(ins.arg, _index_override=ov)
                blocks = [list(b) for b in d.blocks]
                blocks[bi][ii] = dataclasses.replace(ins, arg=newarg)
                if kind == "pinned-slot-taken":
                    b4, i4, x4 = four[3]
                    blocks[b4][i4] = dataclasses.replace(x4, arg=dataclasses.replace(x4.arg, _index_override=1))
                if kind == "collide":
                    # a second, different value pinned at the same index
                    others = [(b2, i2, x) for b2, i2, x in flat if type(x.arg) is type(ins.arg) and x.arg != ins.arg and (b2, i2) != (bi, ii)]
                    if not others:
                        continue
                    b2, i2, x = rng.choice(others)
                    blocks[b2][i2] = dataclasses.replace(x, arg=dataclasses.replace(x.arg, _index_override=0))
                d2 = dataclasses.replace(d, blocks=tuple(tuple(b) for b in blocks))
                ctx.evaluated((gi, "override", kind))
                ctx.count("inconsistent-overrides:" + kind)
                r2 = call(d2.to_code)
                if r2[0] == "ok":
                    try:
                        ref2 = disview.dis_view(r2[1])
                        want2 = disview.data_view(d2)
                        okv = len(ref2) == len(want2) and all(
                            k1 == k2 and (disview.same_const(v1, v2) if k1 == "const" else v1 == v2)
                            for (_, (k1, v1), _), (_, (k2, v2), _) in zip(want2, ref2))
                    except Exception:  # noqa
                        okv = False
                    if not okv:
                        ctx.violation("bad-override-accepted", "%s with a %s override (%d): to_code returns code whose operands do not resolve to the given values"
                                      % (what, kind, ov), dict(data, override=kind))
                    else:
                        ctx.count("inconsistent-overrides:harmless")
                else:
                    ctx.count("inconsistent-overrides:raises")
                if ncases < 200 and ninstr < 80:
                    try:
                        ctx.case("ser_res ser_pycode (from_code_data cfg %s)" % E.g_cd(d2), tres(r2, E.t_pycode), "from_code_data with %s override" % kind, "encode-bad-override")
                    except E.Unsupported:
                        pass
