# Code-object mutators that change only serialisation artefacts (C06) and the program generator of
# terminating, output-producing programs (C05).  Python 3.7 compatible.
import dis
import sys
import types

from props import linetools as LT
from props.C11 import replace_code

V310 = sys.version_info >= (3, 10)
V38 = sys.version_info >= (3, 8)
CO_NESTED = 0x10
CO_VARARGS, CO_VARKEYWORDS = 4, 8


def nparams(code):
    return code.co_argcount + code.co_kwonlyargcount + bool(code.co_flags & CO_VARARGS) + bool(code.co_flags & CO_VARKEYWORDS)


def units(code):
    b = code.co_code
    return [(b[i], b[i + 1]) for i in range(0, len(b), 2)]


def simple(code):
    """no EXTENDED_ARG anywhere, so operands can be rewritten in place"""
    return all(op != dis.EXTENDED_ARG for op, _ in units(code))


def permute_table(code, which, rng):
    """permute one table and renumber the operands consistently (only when every operand fits one byte)"""
    if not simple(code):
        return None
    table = list(getattr(code, which))
    fixed = 0
    if which == "co_consts":
        fixed = 1 if (code.co_flags & 3) == 3 else 0          # slot 0 of a function decides its __doc__
        ops = dis.hasconst
    elif which == "co_names":
        ops = dis.hasname
    elif which == "co_varnames":
        fixed = nparams(code)
        ops = dis.haslocal
    else:
        return None
    n = len(table)
    if n - fixed < 2 or n > 256:
        return None
    idx = list(range(fixed, n))
    rng.shuffle(idx)
    perm = list(range(fixed)) + idx          # new position j holds old entry perm[j]
    inv = {old: new for new, old in enumerate(perm)}
    newcode = bytearray(code.co_code)
    for i, (op, a) in enumerate(units(code)):
        if op in ops:
            if which == "co_consts" and a >= n:
                return None
            newcode[2 * i + 1] = inv[a]
    kw = {which: tuple(table[old] for old in perm), "co_code": bytes(newcode)}
    return replace_code(code, **kw)


def permute_cellvars(code, rng):
    """permute co_cellvars and renumber the cell operands (free variable operands keep their offset)"""
    if not simple(code):
        return None
    cells = list(code.co_cellvars)
    n = len(cells)
    if n < 2 or n + len(code.co_freevars) > 256:
        return None
    perm = list(range(n))
    rng.shuffle(perm)
    if perm == list(range(n)):
        perm = perm[1:] + perm[:1]
    inv = {old: new for new, old in enumerate(perm)}
    newcode = bytearray(code.co_code)
    for i, (op, a) in enumerate(units(code)):
        if op in dis.hasfree and a < n:
            newcode[2 * i + 1] = inv[a]
    return replace_code(code, co_cellvars=tuple(cells[old] for old in perm), co_code=bytes(newcode))


def pad_table(code, which, rng):
    table = getattr(code, which)
    extra = {"co_consts": (987654321, "unreferenced pad", (1, 2)), "co_names": ("pad_name_x", "pad_name_y"),
             "co_varnames": ("pad_local_x",)}[which]
    extra = tuple(e for e in extra if e not in table)
    if not extra:
        return None
    kw = {which: tuple(table) + extra}
    if which == "co_varnames":
        kw["co_nlocals"] = code.co_nlocals + len(extra)
    return replace_code(code, **kw)


def toggle_nested(code):
    return replace_code(code, co_flags=code.co_flags ^ CO_NESTED)


def line_events(code):
    """(offset, line) for every code unit, from CPython's reader"""
    if V310:
        out = []
        for s, e, l in code.co_lines():
            for o in range(s, e, 2):
                out.append((o, l))
        return out
    tab = code.co_lnotab
    return [(o, LT.addr2line_pre310(tab, o) + code.co_firstlineno) for o in range(0, len(code.co_code), 2)]


def insert_extended_arg(code, rng):
    """prefix one instruction (that has an argument) with a redundant EXTENDED_ARG 0, retargeting jumps and
    rebuilding the line table; declines when an operand would outgrow one byte"""
    if not simple(code):
        return None
    us = units(code)
    cands = [i for i, (op, a) in enumerate(us) if op >= dis.HAVE_ARGUMENT]
    if not cands:
        return None
    at = rng.choice(cands)          # unit index; the prefix goes in front of it
    scale = 2 if not V310 else 1    # jump operands count bytes before 3.10, code units from 3.10

    def new_index(u):               # old unit index -> new unit index
        return u + 1 if u > at else u
    out = []
    for i, (op, a) in enumerate(us):
        if i == at:
            out.append((dis.EXTENDED_ARG, 0))
        if op in dis.hasjabs:
            t = a // scale if not V310 else a
            if (a % scale) if not V310 else False:
                return None
            # a jump to the prefixed instruction goes to its prefix (the instruction's first unit)
            nt = t + 1 if t > at else t
            a = nt * scale
        elif op in dis.hasjrel:
            t = i + 1 + (a // scale if not V310 else a)
            nt = t + 1 if t > at else t
            ni = new_index(i) if i != at else at + 1
            a = (nt - (ni + 1)) * scale
        if not 0 <= a <= 255:
            return None
        out.append((op, a))
    newcode = bytes(x for u in out for x in u)
    # line table: every unit keeps its line; the prefix gets the line of the instruction it prefixes
    ev = dict(line_events(code))
    lines = []
    for i in range(len(us)):
        if i == at:
            lines.append(ev.get(2 * i))
        lines.append(ev.get(2 * i))
    first = code.co_firstlineno
    if V310:
        ranges = []
        for l in lines:
            l2 = None if l is None else l - first
            if ranges and ranges[-1][1] == l2:
                ranges[-1] = (ranges[-1][0] + 2, l2)
            else:
                ranges.append((2, l2))
        return code.replace(co_code=newcode, co_linetable=LT.asm_310(ranges))
    events = []
    prev_line = first
    pending = 0
    for l in lines:
        if l != prev_line:
            events.append((pending, l - prev_line))
            prev_line = l
            pending = 0
        pending += 2
    tab = LT.asm_pre310(events, not V38)
    # trailing entries after the last instruction cannot be rebuilt from per-unit lines: decline if there were any
    if len(code.co_lnotab) and sum(code.co_lnotab[0::2]) >= len(code.co_code):
        return None
    return replace_code(code, co_code=newcode, co_lnotab=tab)


# ---- terminating programs with observable behaviour
def runnable(rng):
    lines = ["acc = []", "def show(*a):\n    print(*a)\n    acc.append(a)"]
    names = ["a", "b", "c"]
    for n in names:
        lines.append("%s = %d" % (n, rng.randint(-3, 9)))

    state = {"in_function": False}

    def iexpr(d=0):
        """an int-valued expression: never raises"""
        c = rng.random()
        if d > 2 or c < 0.4:
            return rng.choice(names + ["1", "2", "7", "True", "10**20", "-3"])
        if c < 0.75:
            return "(%s %s %s)" % (iexpr(d + 1), rng.choice(["+", "-", "*", "==", "<", "and", "or", "% 5 +"]), iexpr(d + 1))
        if c < 0.85:
            return "(%s if %s else %s)" % (iexpr(d + 1), iexpr(d + 1), iexpr(d + 1))
        if c < 0.95 and not state["in_function"]:
            return "f%d(%s)" % (rng.randint(0, 1), iexpr(d + 1))
        return "len([%s for i in range(%d) if i %% 2])" % (iexpr(d + 1), rng.randint(0, 4))

    def expr(d=0):
        c = rng.random()
        if c < 0.6:
            return iexpr(d)
        if c < 0.7:
            return rng.choice(["0.5", "'s'", "None", "(1, 2)", "-0.0", "b'x'", "..."])
        if c < 0.8:
            return "[%s for i in range(%d) if i %% 2]" % (iexpr(d + 1), rng.randint(0, 4))
        if c < 0.9:
            return "(%s, 's', %s)" % (iexpr(d + 1), iexpr(d + 1))
        return "(lambda q=%s: (q, %s))()" % (iexpr(d + 1), iexpr(d + 1))

    def stmts(ind, d=0):
        pad = "    " * ind
        out = []
        for _ in range(rng.randint(1, 4)):
            c = rng.random()
            if d > 1 or c < 0.4:
                out.append(pad + "show(%s)" % expr())
            elif c < 0.55:
                out.append(pad + "%s = %s" % (rng.choice(names), iexpr()))
            elif c < 0.7:
                out.append(pad + "if %s:\n%s\n%selse:\n%s" % (iexpr(), stmts(ind + 1, d + 1), pad, stmts(ind + 1, d + 1)))
            elif c < 0.8:
                out.append(pad + "for k in range(%d):\n%s" % (rng.randint(0, 3), stmts(ind + 1, d + 1)))
            elif c < 0.9:
                out.append(pad + "try:\n%s\n%sexcept Exception as e:\n%s    show(type(e).__name__)\n%sfinally:\n%s    show('fin')" % (
                    stmts(ind + 1, d + 1), pad, pad, pad, pad))
            else:
                out.append("\n" * rng.choice([0, 1, 130]) + pad + "show(%s)" % expr())
        return "\n".join(out)

    for i in range(2):
        doc = rng.choice(["", "    'doc %d'\n" % i])
        state["in_function"] = True
        lines.append("def f%d(x, *r, k=%d):\n%s%s\n    return x" % (i, i, doc, stmts(1, 1)))
        state["in_function"] = False
    lines.append(stmts(0))
    if rng.random() < 0.3:
        lines.append("show(undefined_name)")
    return "\n".join(lines) + "\n"
