# Transcriptions of CPython's line-table assemblers and readers (Python/compile.c, Objects/codeobject.c,
# Objects/lnotab_notes.txt) used as reference by the C10/C01/C02 oracles.  Python 3.7 compatible.


def sb(x):
    return x & 255


def asm_pre310(events, v37):
    """events: (bdelta, ldelta): after bdelta bytes since the last emitted event the line changes by ldelta.
    assemble_lnotab of 3.7 (skips only (0,0)) and of 3.8/3.9 (skips d_lineno == 0)."""
    out = []
    pend_b = 0
    for (db, dl) in events:
        db += pend_b
        pend_b = 0
        if v37:
            if db == 0 and dl == 0:
                continue
        else:
            if dl == 0:
                pend_b = db
                continue
        if db > 255:
            n = db // 255
            out += [255, 0] * n
            db -= n * 255
        if dl < -128 or dl > 127:
            if dl < 0:
                k = -128
                n = (-dl) // 128
            else:
                k = 127
                n = dl // 127
            dl -= n * k
            out += [db, sb(k)]
            db = 0
            out += [0, sb(k)] * (n - 1)
        out += [db, sb(dl)]
    return bytes(out)


def asm_310(ranges):
    """ranges: (blen, line or None), lines relative to firstlineno; assemble_line_range of 3.10"""
    out = []
    prev = 0
    for (bd, line) in ranges:
        if bd == 0:
            continue
        if line is None:
            ld = -128
        else:
            ld = line - prev
            prev = line
            while ld > 127:
                out += [0, 127]
                ld -= 127
            while ld < -127:
                out += [0, sb(-127)]
                ld += 127
        while bd > 254:
            out += [254, sb(ld)]
            ld = -128 if line is None else 0
            bd -= 254
        out += [bd, sb(ld)]
    return bytes(out)


def addr2line_pre310(tab, addr):
    """PyCode_Addr2Line of <= 3.9, relative to firstlineno"""
    line = 0
    a = 0
    for i in range(0, len(tab) - 1, 2):
        a += tab[i]
        if a > addr:
            break
        d = tab[i + 1]
        line += d - 256 if d >= 128 else d
    return line


def colines_310(tab):
    """offset -> line (relative) or None, per code unit, as co_lines() of 3.10 reports"""
    res = {}
    a = 0
    line = 0
    for i in range(0, len(tab) - 1, 2):
        d = tab[i + 1]
        d = d - 256 if d >= 128 else d
        if d == -128:
            cur = None
        else:
            line += d
            cur = line
        for o in range(a, a + tab[i], 2):
            res[o] = cur
        a += tab[i]
    return res


def ranges_of_310(tab):
    """the line program (ranges with distinct neighbouring lines) a 3.10 table denotes"""
    lines = colines_310(tab)
    ranges = []
    for o in sorted(lines):
        if ranges and ranges[-1][1] == lines[o] and ranges[-1][2] == o:
            ranges[-1] = (ranges[-1][0] + 2, lines[o], o + 2)
        else:
            ranges.append((2, lines[o], o + 2))
    return [(b, l) for b, l, _ in ranges]


def is_asm310_image(tab):
    """tab is something assemble_line_range can emit: re-assembling what it denotes gives it back"""
    tab = bytes(tab)
    if len(tab) % 2 or any(b % 2 for b in tab[0::2]):
        return False
    return asm_310(ranges_of_310(tab)) == tab
