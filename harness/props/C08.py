# C08: CodeData is an immutable value: hash/eq contract and type-exact equality.
import ctypes
import dataclasses
import itertools
import json
import sys

import encdata as E
from enc import call, tbool
from props import corpus, progen

NAN1 = float("nan")
NAN2 = float("-nan") if hasattr(float, "fromhex") else float("nan")
NAN3 = float.fromhex("nan") * 1

EDGE = [None, True, False, 0, 1, -1, 2, 2 ** 70, 0.0, -0.0, 1.0, 2.0, 1e300, float("inf"), float("-inf"),
        0j, complex(0.0, -0.0), complex(-0.0, 0.0), 1j, complex(1, 0), "", "a", "1", b"", b"a", b"1", ...,
        (), (1,), (True,), (1.0,), (0.0,), (-0.0,), ("a",), (b"a",), (1, 2), (2, 1), ((1,),), ((1.0,),), (None,), (...,),
        frozenset(), frozenset([1]), frozenset([True]), frozenset([1.0]), frozenset([0.0]), frozenset([-0.0]), frozenset([1, 2]),
        frozenset(["a"]), frozenset([b"a"]), (frozenset([1]),), frozenset([(1, 2)]), frozenset([(1.0, 2)])]
NANS = [NAN1, float("nan"), (NAN1,), (float("nan"),), complex(NAN1, 0.0), complex(float("nan"), 0.0), complex(0.0, float("nan")),
        frozenset([NAN1]), frozenset([float("nan")]), (1, (float("nan"), -0.0)), (1, (float("nan"), 0.0))]


def pykey():
    f = ctypes.pythonapi._PyCode_ConstantKey
    f.argtypes = [ctypes.py_object]
    f.restype = ctypes.py_object
    return f


def has_nan(v):
    if isinstance(v, float):
        return v != v
    if isinstance(v, complex):
        return v.real != v.real or v.imag != v.imag
    if isinstance(v, (tuple, frozenset)):
        return any(has_nan(x) for x in v)
    return False


def work(ctx):
    import code_data
    from code_data import (AdditionalLine, Args, Cellvar, CodeData, Constant, Freevar, Function, Instruction, Jump, Name,
                           NoArg, Varname)
    rng = ctx.rng
    key = pykey()

    # ---- 1. attributes cannot be reassigned: every (class, field) pair (complete enumeration)
    samples = [CodeData(blocks=(), filename="f", first_line_number=1, name="n", stacksize=1), Instruction("NOP"), Jump(0), Name("x"),
               Varname("x"), Constant(1), Freevar("x"), Cellvar("x"), NoArg(), Args(), Function(), AdditionalLine(1)]
    npairs = 0
    for obj in samples:
        for f in dataclasses.fields(obj):
            npairs += 1
            ctx.evaluated(("frozen", type(obj).__name__, f.name))
            for action, fn in (("set", lambda: setattr(obj, f.name, 5)), ("del", lambda: delattr(obj, f.name))):
                r = call(fn)
                if r[0] == "ok":
                    ctx.violation("mutable-field", "%s.%s can be %s" % (type(obj).__name__, f.name, "reassigned" if action == "set" else "deleted"),
                                  {"class": type(obj).__name__, "field": f.name})
    ctx.count("frozen (class, field) pairs", npairs)

    # ---- 2. Constant equality against CPython's constant-table partition, on the edge-value matrix
    for a, b in itertools.product(EDGE, EDGE):
        ctx.evaluated(("pair", repr(a), repr(b), type(a).__name__, type(b).__name__))
        mine = Constant(a) == Constant(b)
        ref = key(a) == key(b)
        if mine != ref:
            ctx.violation("partition-differs", "Constant(%r) == Constant(%r) is %s but CPython's constant key says %s" % (a, b, mine, ref),
                          {"a": repr(a), "b": repr(b)})
        if mine and hash(Constant(a)) != hash(Constant(b)):
            ctx.violation("hash-contract", "Constant(%r) == Constant(%r) but hashes differ" % (a, b), {"a": repr(a), "b": repr(b)})
        if (Constant(a) != Constant(b)) == mine:
            ctx.violation("ne-inconsistent", "!= is not the negation of == for %r, %r" % (a, b), {"a": repr(a)})
    # all NaNs identified, wherever they sit; everything else about them as CPython
    for a, b in itertools.product(NANS, NANS):
        ctx.evaluated(("nan", repr(a), repr(b)))
        same_shape = repr(a) == repr(b)
        mine = Constant(a) == Constant(b)
        if mine != same_shape:
            ctx.violation("nan-identification", "Constant(%r) == Constant(%r) is %s" % (a, b, mine), {"a": repr(a), "b": repr(b)})
        if mine and hash(Constant(a)) != hash(Constant(b)):
            ctx.violation("hash-contract", "equal NaN-bearing constants %r / %r hash differently" % (a, b), {"a": repr(a)})
        if mine and len({Constant(a), Constant(b)}) != 1:
            ctx.violation("set-membership", "equal constants %r occupy two set slots" % (a,), {"a": repr(a)})
    # correspondence: the model's key equality on the same pairs
    allv = EDGE + NANS
    for _ in range(700 if ctx.quick else 6000):
        a, b = rng.choice(allv), rng.choice(allv)
        if rng.random() < 0.3:
            b = a
        ctx.case("ser_bool (key_eqb (KInner %s) (KInner %s))" % (E.g_iconst(a), E.g_iconst(b)), tbool(Constant(a) == Constant(b)),
                 "key_eqb %r %r" % (a, b), "key_eqb")
    ctx.sample({"pair": [repr(EDGE[3]), repr(EDGE[1])], "equal": Constant(EDGE[3]) == Constant(EDGE[1])})

    # ---- 3. CodeData: hashable, equivalence, equal => equal hash, equal data encode identically,
    #         identical code decodes to equal data; pairs produced by different routes
    pool = []
    srcs = ["x = float('nan')\ny = (1.0, -0.0, 1, True)\nz = 1 in {1.0, 2}\n", "def f(a, b=0.0):\n    return (a, -0.0, float('nan'))\n",
            "x = 1\n", "x = 1.0\n", "x = True\n", "x = 0.0\n", "x = -0.0\n", "x = 'a'\n", "x = b'a'\n", "x = (1, 2)\n", "x = (1.0, 2)\n"]
    codes = []
    for s in srcs:
        for k in corpus.walk(compile(s, "<c08>", "exec")):
            codes.append(("src", k))
    for origin, k in corpus.code_objects(ctx.tier, rng, limit=8, max_code=400):
        if rng.random() < 0.15:
            codes.append((origin, k))
    for src, mode in progen.programs(ctx, 15 if ctx.quick else 300):
        try:
            codes.append(("gen", compile(src, "<gen>", mode, dont_inherit=True)))
        except (SyntaxError, ValueError, RecursionError, OverflowError):
            pass
    for origin, k in codes:
        r = call(CodeData.from_code, k)
        if r[0] != "ok":
            continue
        d = r[1]
        routes = {"decode": d, "decode-again": CodeData.from_code(k)}
        j = call(lambda: CodeData.from_json_data(json.loads(json.dumps(d.to_json_data()))))
        if j[0] == "ok":
            routes["json"] = j[1]
        routes["normalize"] = d.normalize()
        routes["rebuild"] = dataclasses.replace(d, blocks=tuple(tuple(dataclasses.replace(i) for i in b) for b in d.blocks))
        what = "%s:%s" % (origin, k.co_name)
        for name, x in routes.items():
            ctx.evaluated((what, name))
            h = call(hash, x)
            if h[0] != "ok":
                ctx.violation("unhashable", "%s via %s is not hashable (%s)" % (what, name, h[1]), {"what": what, "route": name})
        for (n1, x), (n2, y) in itertools.combinations(routes.items(), 2):
            eq = x == y
            if eq != (y == x):
                ctx.violation("not-symmetric", "%s: %s == %s asymmetric" % (what, n1, n2), {"what": what})
            if eq and hash(x) != hash(y):
                ctx.violation("hash-contract", "%s: data via %s and via %s are equal but hash differently" % (what, n1, n2), {"what": what})
            if eq:
                if len({x, y}) != 1 or y not in {x: 1}:
                    ctx.violation("set-membership", "%s: equal data via %s / %s are distinct set members" % (what, n1, n2), {"what": what})
                c1, c2 = call(x.to_code), call(y.to_code)
                if c1[0] == "ok" and c2[0] == "ok" and E.strict_diff(c1[1], c2[1]):
                    ctx.violation("equal-encode-differently", "%s: equal data via %s / %s encode differently: %s" % (what, n1, n2, E.strict_diff(c1[1], c2[1])[:200]), {"what": what})
        if routes["decode"] != routes["decode-again"] or ("json" in routes and routes["json"] != d):
            ctx.violation("identical-code-unequal-data", "%s: the same code object decodes to unequal data" % what, {"what": what})
        pool.append(d)
        if len(k.co_code) < 300 and "json" in routes:
            try:
                ctx.case("ser_bool (cd_eqb %s %s)" % (E.g_cd(d), E.g_cd(routes["json"])), tbool(d == routes["json"]), "cd_eqb decode/json %s" % what, "cd_eqb")
                ctx.case("ser_bool (cd_eqb %s %s)" % (E.g_cd(d), E.g_cd(routes["normalize"])), tbool(d == routes["normalize"]), "cd_eqb decode/normalize %s" % what, "cd_eqb")
            except E.Unsupported:
                pass
    # data of different programs: transitivity samples and type-exact distinctions through whole CodeData
    for x, y, z in itertools.islice(itertools.combinations(pool[:14], 3), 300):
        if x == y and y == z and not x == z:
            ctx.violation("not-transitive", "three CodeData values break transitivity", {})
    simple = [CodeData.from_code(compile("x = %s\n" % v, "<c08>", "exec")) for v in ("1", "1.0", "True", "0.0", "-0.0", "'a'", "b'a'", "(1, 2)", "(1.0, 2)", "(True, 2)")]
    for (i, x), (j2, y) in itertools.combinations(enumerate(simple), 2):
        ctx.evaluated(("distinct", i, j2))
        if x == y:
            ctx.violation("type-inexact", "programs with different constants decode to equal CodeData (#%d, #%d)" % (i, j2), {"i": i, "j": j2})
        try:
            ctx.case("ser_bool (cd_eqb %s %s)" % (E.g_cd(x), E.g_cd(y)), tbool(x == y), "cd_eqb distinct %d %d" % (i, j2), "cd_eqb")
        except E.Unsupported:
            pass
