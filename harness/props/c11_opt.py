# Run under `python -O` by the C11 worker (assert statements are compiled away there): the raise-or-exact rule
# for header alterations must not rest on asserts.  Prints one JSON list of findings on stdout.
import json
import os
import random
import sys
import types

sys.path.insert(0, os.path.dirname(os.path.abspath(__file__)))
sys.path.insert(0, os.path.dirname(os.path.dirname(os.path.abspath(__file__))))
import C11  # noqa: E402  (BASES, HEADER, replace_code; importing does not run the worker)


def main():
    from code_data import CodeData
    from code_data._flags_data import _CodeFlag
    seed, quick = sys.argv[1], sys.argv[2] == "quick"
    rng = random.Random("C11-opt-%s" % seed)
    known = [(m.name, int(m.value)) for m in _CodeFlag]
    findings, counts = [], {"raises": 0, "exact": 0, "cases": 0}

    def walk(c):
        yield c
        for k in c.co_consts:
            if isinstance(k, types.CodeType):
                for x in walk(k):
                    yield x

    def check(k, what):
        counts["cases"] += 1
        try:
            r = CodeData.from_code(k).to_code()
        except Exception:  # noqa
            counts["raises"] += 1
            return
        for f in C11.HEADER:
            if getattr(r, f) != getattr(k, f):
                findings.append({"what": what, "field": f, "was": repr(getattr(k, f)), "now": repr(getattr(r, f))})
                return
        counts["exact"] += 1

    bases = []
    for src in C11.BASES:
        try:
            bases.extend(walk(compile(src, "<c11>", "exec")))
        except SyntaxError:
            pass
    for bi, b in enumerate(bases):
        nm = "%s#%d" % (b.co_name, bi)
        check(b, "base %s" % nm)
        for n, v in known:
            try:
                check(C11.replace_code(b, co_flags=b.co_flags ^ v), "%s with flag %s toggled" % (nm, n))
            except Exception:  # noqa
                pass
        for kw, label in C11.structured_alterations(b, known):
            try:
                check(C11.replace_code(b, **kw), "%s with %s" % (nm, label))
            except Exception:  # noqa
                pass
        for _ in range(10 if quick else 100):
            kw = {}
            if rng.random() < 0.7:
                kw["co_flags"] = b.co_flags ^ sum(v for _, v in known if rng.random() < 0.15)
            if rng.random() < 0.5:
                kw["co_argcount"] = max(0, b.co_argcount + rng.choice([-2, -1, 1, 2, 5]))
            if rng.random() < 0.5:
                kw["co_kwonlyargcount"] = max(0, b.co_kwonlyargcount + rng.choice([-1, 1, 2, 5]))
            try:
                check(C11.replace_code(b, **kw), "%s with %r" % (nm, sorted(kw.items())))
            except Exception:  # noqa
                pass
    print(json.dumps({"assert_active": bool(__debug__), "findings": findings[:50], "counts": counts}))


if __name__ == "__main__":
    main()
