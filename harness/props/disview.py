# CPython's own reading of a code object via dis / co_lines / PyCode_Addr2Line (Python 3.7 compatible).
import ctypes
import dis
import sys
import types

import encdata as E
from enc import tz, topt, tlist, tstr
from props import linetools as LT

V310 = sys.version_info >= (3, 10)


def real_line_of(code, off):
    """line CPython assigns to the code unit at off (None = no line)"""
    if V310:
        for s, e, l in code.co_lines():
            if s <= off < e:
                return l
        return None
    f = ctypes.pythonapi.PyCode_Addr2Line
    f.argtypes = [ctypes.py_object, ctypes.c_int]
    f.restype = ctypes.c_int
    return f(code, off)


def line_table_lines(code):
    """offset -> line for every code unit, from CPython's reader"""
    if V310:
        out = {}
        for s, e, l in code.co_lines():
            for o in range(s, e, 2):
                out[o] = l
        return out
    return None


def dis_instructions(code):
    """[(first_offset, opcode, kind, value, target_offset)] with EXTENDED_ARG folded"""
    out = []
    start = None
    for ins in dis.get_instructions(code):
        if start is None:
            start = ins.offset
        if ins.opcode == dis.EXTENDED_ARG:
            continue
        op = ins.opcode
        if op < dis.HAVE_ARGUMENT:
            v = ("noarg", None)
        elif op in dis.hasconst:
            v = ("const", ins.argval)
        elif op in dis.hasname:
            v = ("name", ins.argval)
        elif op in dis.hasjabs:
            v = ("jump", (ins.argval, False))
        elif op in dis.hasjrel:
            v = ("jump", (ins.argval, True))
        elif op in dis.haslocal:
            v = ("local", ins.argval)
        elif op in dis.hasfree:
            v = ("cell" if ins.arg < len(code.co_cellvars) else "free", ins.argval)
        else:
            v = ("int", ins.arg)
        out.append((start, op, v))
        start = None
    return out


def dis_view(code):
    """the symbolic view CPython gives: [(opcode, (kind, value), line)], jump targets as instruction indices"""
    ins = dis_instructions(code)
    index = {first: i for i, (first, _, _) in enumerate(ins)}
    lines = line_table_lines(code)
    view = []
    for first, op, (kind, val) in ins:
        if kind == "jump":
            val = (index.get(val[0], -1), val[1])
        line = lines.get(first) if lines is not None else real_line_of(code, first)
        view.append((op, (kind, val), line))
    return view


def data_view(d):
    """the same view read off a CodeData"""
    cd = E._cd()
    firsts = []
    n = 0
    for b in d.blocks:
        firsts.append(n)
        n += len(b)
    view = []
    for b in d.blocks:
        for i in b:
            a = i.arg
            if isinstance(a, cd.Jump):
                v = ("jump", (firsts[a.target] if 0 <= a.target < len(firsts) else -1, a.relative))
            elif isinstance(a, cd.Name):
                v = ("name", a.name)
            elif isinstance(a, cd.Varname):
                v = ("local", a.varname)
            elif isinstance(a, cd.Cellvar):
                v = ("cell", a.cellvar)
            elif isinstance(a, cd.Freevar):
                v = ("free", a.freevar)
            elif isinstance(a, cd.Constant):
                v = ("const", a.constant)
            elif isinstance(a, cd.NoArg):
                v = ("noarg", None)
            else:
                v = ("int", a)
            view.append((E.opcode_of(i.name), v, i.line_number))
    return view


TAGS = {"noarg": 0, "int": 1, "name": 2, "local": 3, "cell": 4, "free": 5, "const": 6, "jump": 7}


def t_view(view, t_const):
    def one(x):
        op, (kind, val), line = x
        if kind == "noarg":
            v = [0]
        elif kind == "int":
            v = [1, val]
        elif kind in ("name", "local", "cell", "free"):
            v = [TAGS[kind]] + tstr(val)
        elif kind == "const":
            v = [6] + t_const(val)
        else:
            v = [7, val[0], 1 if val[1] else 0]
        return [op] + v + topt(line, tz)
    return tlist(view, one)


def same_const(decoded, raw):
    """a decoded constant (CodeData for nested code) against the raw co_consts entry, type- and bit-exact"""
    cd = E._cd()
    if isinstance(raw, types.CodeType):
        return isinstance(decoded, cd.CodeData) and decoded == cd.CodeData.from_code(raw)
    if isinstance(decoded, cd.CodeData):
        return False
    return E.t_iconst(decoded) == E.t_iconst(raw)


def same_const_data(a, b):
    """two decoded constants, type- and bit-exact (NaNs identified)"""
    cd = E._cd()
    if isinstance(a, cd.CodeData) or isinstance(b, cd.CodeData):
        return a == b
    return E.t_iconst_nan(a) == E.t_iconst_nan(b)
