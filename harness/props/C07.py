# C07: JSON form is strict, schema-valid and round-trips without loss.
import json
import sys
import types

import encdata as E
import encjson as J
from enc import call, tres
from props import corpus, jsontools, progen

CONSTS = ["None", "True", "False", "0", "1", "-1", "2**53-1", "2**53", "-2**53", "-(2**53)+1", "10**40", "-10**40",
          "0.0", "-0.0", "1.5", "1e400", "-1e400", "1e400 - 1e400", "1e-320", "1j", "-0j", "1e400j - 1e400j", "(1e400 - 1e400) * 1j", "1e400 + 1e400j",
          "'text'", "''", "'\\ud800'", "'a\\udfffb'", "'\\U0001F600'", "b''", "b'\\x00\\xff'", "...", "()", "(1, 2.0, 'x')",
          "((), ((1,),), None)", "(1e400 - 1e400, -0.0)", "(1e400j - 1e400j, (1e400 - 1e400,))", "('\\udc00', b'y', ...)", "(10**30, True, 1.0, 1)",
          # int literals (always constants, whatever the folding limits): around 2^2048 where the text form switches from
          # decimal to hexadecimal, and far beyond the 4300 digits CPython converts to / from decimal by default
          "1" + "0" * 40, "-1" + "0" * 40, "0x" + "f" * 512, "0x1" + "0" * 512, "-0x" + "f" * 512, "-0x1" + "0" * 512,
          "1" + "0" * 700, "0x" + "f" * 5000, "-0x" + "f" * 5000, "(0x" + "7" * 4000 + ", 1, (0o" + "7" * 7000 + ",))"]


def corruptions(doc):
    """documents that differ from a valid one in one place (some still valid, most not)"""
    out = []
    d = dict(doc); d.pop("filename", None); out.append(d)
    d = dict(doc); d["stacksize"] = "three"; out.append(d)
    d = dict(doc); d["blocks"] = [{"name": "NOP"}]; out.append(d)
    d = dict(doc); d["type"] = {"type": "BOGUS"}; out.append(d)
    d = dict(doc); d["type"] = {"type": "GENERATOR", "docstring": {"string": "'x'"}}; out.append(d)
    d = dict(doc); d["freevars"] = [1]; out.append(d)
    d = dict(doc); d["_additional_args"] = [{"constant": {"frozenset": [1, {"bytes": "eA=="}, [None, {"type": "ellipsis"}]]}}]; out.append(d)
    d = dict(doc); d["_additional_args"] = [{"constant": {"float": "huge"}}]; out.append(d)
    d = dict(doc); d["_additional_args"] = [{"target": 1}]; out.append(d)
    d = dict(doc); d["_additional_line"] = {"line": "1"}; out.append(d)
    if doc.get("blocks") and doc["blocks"][0]:
        import copy
        d = copy.deepcopy(doc); d["blocks"][0][0]["arg"] = {"target": "far"}; out.append(d)
        d = copy.deepcopy(doc); d["blocks"][0][0]["line_number"] = None; out.append(d)
        d = copy.deepcopy(doc); d["blocks"][0][0]["arg"] = 5; out.append(d)
        d = copy.deepcopy(doc); del d["blocks"][0][0]["name"]; out.append(d)
    return out


def work(ctx):
    import code_data
    from code_data import CodeData, JSON_SCHEMA
    rng = ctx.rng
    ncases = 0
    max_cases = 200 if ctx.quick else 2500
    try:
        import orjson  # noqa
        have_orjson = True
    except ImportError:
        have_orjson = False
    ctx.note("orjson present: %s" % have_orjson)

    def check(origin, d, want_cases=True, code=None):
        """d: a CodeData obtained by decoding or normalizing"""
        nonlocal ncases
        what = "%s:%s:%d" % (origin, d.name if "\ud800" > "" else "", d.first_line_number)
        what = "%s:%r:%d" % (origin, d.name, d.first_line_number)
        data = {"origin": origin, "name": repr(d.name), "firstlineno": d.first_line_number}
        ctx.evaluated((origin, hash(d)))
        r = call(d.to_json_data)
        if r[0] != "ok":
            ctx.violation("to_json-raises", "%s: to_json_data raises %s" % (what, r[1]), data)
            return
        doc = r[1]
        bad = jsontools.is_plain_json(doc)
        if bad:
            ctx.violation("not-plain-json", "%s: %s" % (what, bad), data)
            return
        bad = jsontools.validate(JSON_SCHEMA, doc)
        if bad:
            ctx.violation("schema-invalid", "%s: %s" % (what, bad[:300]), data)
        try:
            text = json.dumps(doc, allow_nan=False)
        except (ValueError, TypeError) as e:
            ctx.violation("not-serializable", "%s: json.dumps(allow_nan=False) fails: %s" % (what, e), data)
            return
        loaded = json.loads(text)
        if have_orjson:
            try:
                loaded2 = orjson.loads(orjson.dumps(doc))
                if loaded2 != loaded:
                    ctx.violation("orjson-differs", "%s: orjson cycle gives a different document" % what, data)
            except Exception as e:  # noqa
                ctx.violation("orjson-fails", "%s: orjson: %s" % (what, e), data)
        back = call(CodeData.from_json_data, loaded)
        if back[0] != "ok":
            ctx.violation("from_json-raises", "%s: from_json_data of the re-parsed document raises %s" % (what, back[1]), data)
            return
        b = back[1]
        if b != d or d != b:
            ctx.violation("roundtrip-differs", "%s: from_json_data(to_json_data(x)) != x" % what, data)
            return
        if hash(b) != hash(d):
            ctx.violation("hash-differs", "%s: equal data, different hash after the JSON cycle" % what, data)
        c1 = call(d.to_code)
        c2 = call(b.to_code)
        if c1[0] == "ok":
            if c2[0] != "ok":
                ctx.violation("to_code-raises-after-json", "%s: to_code of the loaded data raises %s" % (what, c2[1]), data)
            else:
                diff = E.strict_diff(c2[1], c1[1])
                if diff:
                    ctx.violation("to_code-differs-after-json", "%s: %s" % (what, diff[:300]), data)
        ctx.count("doc_bytes:%s" % (len(text) // 1000 * 1000 if len(text) < 8000 else "8000+"))
        if want_cases and ncases < max_cases and len(text) < 9000:
            try:
                with J.NameIds():
                    cdoc = J.canon_cd(doc)
                    ctx.case("ser_json (code_data_to_json %s)" % E.g_cd(d), J.t_json(cdoc), "to_json %s" % what, "to_json")
                    cl = J.canon_cd(loaded)
                    ctx.case("ser_res ser_cd (code_data_from_json %s)" % J.g_json(cl), tres(back, E.t_cd), "from_json %s" % what, "from_json")
                    # the model's document validates against the schema regenerated from the source (Coq validator)
                    ctx.case("ser_bool (validate 400 JSON_SCHEMA JSON_SCHEMA (code_data_to_json %s))" % E.g_cd(d), [1],
                             "schema validity (Coq validator, regenerated schema) of %s" % what, "schema")
                    # the Coq validator against the harness's own validator on corrupted documents
                    if ncases % 4 == 0:
                        import copy as _copy
                        for ci, corrupt in enumerate(corruptions(_copy.deepcopy(doc))):
                            want = jsontools.validate(JSON_SCHEMA, corrupt) is None
                            ctx.case("ser_bool (validate 400 JSON_SCHEMA JSON_SCHEMA %s)" % J.g_json(J.canon_cd(corrupt)), [1 if want else 0],
                                     "validator agreement on corruption %d of %s" % (ci, what), "schema-validator")
                    # the premises of the C07 theorems on this value, and their conclusions (evaluated inside Coq)
                    ctx.case("(let d := %s in ser_bool (wfj_cd d) ++ match code_data_from_json (code_data_to_json d) with "
                             "OK d' => ser_bool (cd_eqb d d') | Err _ => [2] end ++ ser_bool (json_plain (code_data_to_json d)))" % E.g_cd(d),
                             [1, 1, 1], "wfj_cd, round trip and plainness of %s" % what, "wf-monitor")
                ncases += 1
            except E.Unsupported:
                ctx.count("unsupported")
        ctx.sample({"origin": origin, "name": repr(d.name), "json_bytes": len(text)})

    def both(origin, k):
        r = call(CodeData.from_code, k)
        if r[0] != "ok":
            return
        check(origin, r[1])
        check(origin + "(normalized)", r[1].normalize(), want_cases=rng.random() < 0.3)

    # ---- every constant kind in every position a constant or a string can occupy
    for i, cst in enumerate(CONSTS):
        srcs = ["x = %s\n" % cst, "def f(a=%s):\n    return %s\n" % (cst, cst), "y = (%s, %s)\n" % (cst, cst), "z = x in {%s, 7}\n" % cst,
                "def g():\n    return 1\n    w = %s\n" % cst]   # dead code: the constant stays as an additional arg on <= 3.9
        if cst.startswith("'"):
            srcs.append("def h():\n    %s\n    return 2\n" % cst)      # as a docstring
            srcs.append("class K:\n    %s\n" % cst)
        for src in srcs:
            try:
                top = compile(src, "<c07-%d>" % i, "exec")
            except (SyntaxError, ValueError):
                continue
            ctx.count("constant-positions")
            for k in corpus.walk(top):
                both("const[%s]" % cst, k)
    # strings with lone surrogates wherever a string can occur (filename, name, names of variables)
    base = compile("def f(a, b):\n    c = a\n    return lambda: (b, c, g)\n", "file\udcffname.py", "exec")
    both("surrogate-filename", base)
    if sys.version_info >= (3, 8):
        f = base.co_consts[0]
        for kw in ({"co_name": "n\ud800"}, {"co_varnames": ("a\ud801", "b", "c")}, {"co_cellvars": ("b\udfff", "c")}, {"co_names": ()},
                   {"co_filename": "\udc80"}):
            k2 = call(f.replace, **kw)
            if k2[0] == "ok":
                both("surrogate-%s" % list(kw)[0], k2[1])
        # parameter names of every kind, the single-valued ones (*args, **kwargs) included
        star = compile("def f(a, /, b, *va, k, **kw):\n    return (a, b, va, k, kw)\n" if sys.version_info >= (3, 8)
                       else "def f(a, b, *va, k, **kw):\n    return (a, b, va, k, kw)\n", "<c07-star>", "exec").co_consts[0]
        for pos in range(len(star.co_varnames)):
            vn = list(star.co_varnames)
            vn[pos] = vn[pos] + "\udc80"
            k2 = call(star.replace, co_varnames=tuple(vn))
            if k2[0] == "ok":
                both("surrogate-parameter-%d" % pos, k2[1])
        lam = [x for x in f.co_consts if isinstance(x, types.CodeType)]
        if lam:
            k2 = call(lam[0].replace, co_freevars=("b\ud800", "c"), co_names=("g\udc01",))
            if k2[0] == "ok":
                both("surrogate-freevars-names", k2[1])
    # ---- a trailing line-table entry past the last instruction (the `_additional_line` field):
    #      with a line, and on 3.10 a no-line range (line None) - hand-altered headers of real code
    if sys.version_info >= (3, 8):
        tiny = compile("pass", "<c07-trailing>", "exec")
        n = len(tiny.co_code)
        if sys.version_info >= (3, 10):
            tables = [bytes([n, 1, 2, 0x80]), bytes([n, 1, 2, 1]), bytes([n, 1, 2, 0x80, 0, 3]), bytes([n, 0x80, 4, 0x80])]
            kw = "co_linetable"
        else:
            tables = [bytes([n, 1]), bytes([n, 1, 0, 127, 0, 5]), bytes([n, 0x80, 0, 0x80])]
            kw = "co_lnotab"
        for t in tables:
            k2 = call(tiny.replace, **{kw: t})
            if k2[0] == "ok":
                ctx.count("trailing-line-entry")
                both("trailing-line-entry%r" % (list(t),), k2[1])
    # ---- corpus and generated programs
    for origin, k in corpus.code_objects(ctx.tier, rng, limit=25):
        both(origin, k)
    for src, mode in progen.programs(ctx, 40 if ctx.quick else 1000):
        try:
            top = compile(src, "<gen>", mode, dont_inherit=True)
        except (SyntaxError, ValueError, RecursionError, MemoryError, OverflowError):
            continue
        for k in corpus.walk(top):
            both("gen", k)
    # ---- malformed documents: both sides must reject (OK/Err only)
    for bad in ([], "x", 3, None):
        with J.NameIds():
            r = call(CodeData.from_json_data, bad)
            ctx.case("ser_res ser_cd (code_data_from_json %s)" % J.g_json(bad), tres(r, E.t_cd), "from_json malformed %r" % (bad,), "malformed")
