# C16: the command line prints what the API returns for the same program.
import itertools
import json
import os
import re
import subprocess
import sys
import tempfile

import encdata as E
import encjson as J
from enc import call, tres, tbool, gbool

PROGRAMS = ["x = 1\n", "def f(a, *b, c=1):\n    'doc'\n    return a\nprint(f)\n", "import os\nfor i in range(3):\n    if i: continue\n",
            "class A:\n    def m(self):\n        return [i for i in self]\n", "y = (1.0, -0.0, 'a', b'b', ..., None)\n", "",
            # text that a command-line layer could be tempted to "tidy": lines of blanks inside a string literal, common
            # indentation inside a literal, tabs, trailing blanks, a backslash continuation, only a comment
            'doc = """first\n   \n\t\n    indented\n  \n"""\n',
            "def g():\n    s = '''\n        a\n        \n        b\n    '''\n    return s\n",
            "if 1:\n\tt = 'tab\tinside'   \n\tu = t  \n",
            "v = 1 + \\\n    2\nw = 'x'  ;  z = w\n",
            "# only a comment\n\n\n",
            "s = 'caf\u00e9 \u4e2d \U0001f600'\nname_\u00e9 = s\n",
            "async def co(a, b, *, c):\n    async for q in a:\n        yield q\n",
            "lam = lambda: (yield)\nr = [(lambda q: q + k) for k in range(2)]\n"]
# programs given as FILES only: what `python file.py` accepts - a UTF-8 byte order mark, a PEP 263 coding cookie
FILE_PROGRAMS = [(b"\xef\xbb\xbfx = 'bom'\nprint(x)\n", "bom"),
                 (b"# -*- coding: latin-1 -*-\ns = 'caf\xe9'\nprint(len(s))\n", "latin-1 cookie"),
                 (b"#!/usr/bin/env python\n# vim: set fileencoding=utf-8 :\ns = '\xc3\xa9'\n", "utf-8 cookie on line 2"),
                 (b"x = 1\r\ny = 2\r\n", "CRLF line ends")]
INSTR_RE = re.compile(r"^\s*(?:\d+)?\s*(?:>>)?\s*(\d+)\s+([A-Z_+]+)\s*(\d+)?\s*(\(.*\))?\s*$")


def run_cli(args, cwd):
    env = dict(os.environ)
    env["PYTHONIOENCODING"] = "utf-8"
    env["COLUMNS"] = "100000"
    p = subprocess.run([sys.executable, "-c", "from code_data._cli import main; main()"] + args, cwd=cwd, env=env,
                       stdout=subprocess.PIPE, stderr=subprocess.PIPE, universal_newlines=True, timeout=120)
    return p.returncode, p.stdout, p.stderr


def dis_listing(text):
    """[(opname, argrepr with jump offsets abstracted)] of every dis listing line in text"""
    out = []
    for line in text.splitlines():
        m = INSTR_RE.match(line)
        if m and m.group(2) in __import__("dis").opmap:
            rep = m.group(4) or ""
            rep = re.sub(r"0x[0-9a-f]+", "0x", rep)
            rep = re.sub(r"^\(to \d+\)$", "(to)", rep)
            out.append((m.group(2), rep if rep else ("" if m.group(3) is None else "#")))
    return out


def work(ctx):
    import code_data
    from code_data import CodeData
    rng = ctx.rng
    ns = {k: getattr(code_data, k) for k in dir(code_data) if not k.startswith("__")}
    ns["inf"] = float("inf")
    ns["nan"] = float("nan")
    ns["Ellipsis"] = Ellipsis
    tmp = tempfile.mkdtemp(prefix="c16_")
    import atexit
    import shutil
    atexit.register(shutil.rmtree, tmp, True)          # the scratch directory of this worker goes away with it
    flags_all = ["--dis", "--dis-after", "--source", "--no-normalize", "--json"]

    # ---- 1. exactly one program source, otherwise a usage error: all 2^4 subsets (x empty-string values)
    src_file = os.path.join(tmp, "prog.py")
    with open(src_file, "w") as f:
        f.write(PROGRAMS[1])
    sources = {"file": ["prog.py"], "-c": ["-c", "x = 1"], "-e": ["-e", "'y = 2'"], "-m": ["-m", "colorsys"]}
    empties = {"-c": ["-c", ""], "-e": ["-e", "''"]}
    for r in range(0, 5):
        for combo in itertools.combinations(sorted(sources), r):
            variants = [[a for k in combo for a in sources[k]]]
            for k in combo:
                if k in empties:
                    variants.append([a for k2 in combo for a in (empties[k2] if k2 == k else sources[k2])])
            for args in variants:
                ctx.evaluated(("usage", tuple(args)))
                rc, out, err = run_cli(args, tmp)
                want_ok = len(combo) == 1
                ctx.count("usage:%d-sources" % len(combo))
                if want_ok and rc != 0:
                    ctx.violation("rejects-single-source", "exactly one source %r exits with %d: %s" % (args, rc, err.strip()[-200:]), {"args": args})
                if not want_ok and rc != 2:
                    ctx.violation("accepts-wrong-sources", "%d sources %r exit with %d instead of a usage error" % (len(combo), args, rc), {"args": args})
                given = {k: (k in combo) for k in ("file", "-c", "-e", "-m")}
                ctx.case("ser_bool (cli_accepts %s %s %s %s)" % (gbool(given["file"]), gbool(given["-c"]), gbool(given["-m"]), gbool(given["-e"])),
                         tbool(rc == 0), "cli_accepts %r" % (args,), "usage")

    # ---- 2. what is printed is the API's result, for every combination of source option and output flags
    combos = [fl for r in range(len(flags_all) + 1) for fl in itertools.combinations(flags_all, r)]
    runs = []
    for pi, prog in enumerate(PROGRAMS):
        path = os.path.join(tmp, "p%d.py" % pi)
        with open(path, "w", encoding="utf-8") as f:
            f.write(prog)
        for kind in ("file", "-c", "-e"):
            for fl in combos:
                runs.append((pi, prog, kind, fl))
    for fi, (raw, label) in enumerate(FILE_PROGRAMS):
        with open(os.path.join(tmp, "f%d.py" % fi), "wb") as f:
            f.write(raw)
        for fl in ((), ("--json",), ("--source", "--dis", "--dis-after")):
            runs.append((("f", fi), raw, "rawfile", fl))
    runs.append((None, None, "-m", ()))
    runs.append((None, None, "-m", ("--json", "--no-normalize")))
    if ctx.quick:
        raw_runs = [r for r in runs if r[2] == "rawfile"]
        runs = [r for r in runs if r[2] != "rawfile"]
        keep = [r for r in runs if set(r[3]) in ({}, set(), {"--json"}, {"--no-normalize"}, {"--dis", "--dis-after"}, set(flags_all))]
        rest = [r for r in runs if r not in keep]
        # every program once through each source kind with the default output, then samples of the flag combinations
        base = [r for r in runs if r[3] == () and r[0] is not None]
        runs = base + rng.sample(keep, min(len(keep), 16)) + rng.sample(rest, 12) + raw_runs[::3] + raw_runs[1::3][:2]
    for pi, prog, kind, fl in runs:
        if kind == "rawfile":
            args, fname = ["f%d.py" % pi[1]], "f%d.py" % pi[1]
        elif kind == "file":
            args, fname = ["p%d.py" % pi], "p%d.py" % pi
        elif kind == "-c":
            # alternately with real newlines and with the documented backslash-n spelling of a newline (only when the
            # program text contains no backslash, so that the spelling is unambiguous); the program the command is
            # asked to show is its argument with every backslash-n pair read as a newline
            spelled = prog.replace("\n", "\\n") if ("\\" not in prog and (pi + len(fl)) % 2 == 0) else prog
            args, fname = ["-c", spelled], "<string>"
            prog = spelled.replace("\\n", "\n")
        elif kind == "-e":
            args, fname = ["-e", repr(prog)], "<string>"
        else:
            args, fname = ["-m", "colorsys"], None
        args = args + list(fl)
        what = "cli %r" % (args,)
        data = {"args": args}
        ctx.evaluated(("run", tuple(args)))
        ctx.count("source:%s" % kind)
        ctx.count("flags:%d" % len(fl))
        rc, out, err = run_cli(args, tmp)
        if rc != 0:
            ctx.violation("nonzero-exit", "%s exits with %d: %s" % (what, rc, err.strip()[-300:]), data)
            continue
        if kind == "-m":
            import importlib.util
            code = importlib.util.find_spec("colorsys").loader.get_code("colorsys")
        else:
            code = compile(prog, fname, "exec")
        api = CodeData.from_code(code)
        if "--no-normalize" not in fl:
            api = api.normalize()
        lines = [l for l in out.splitlines() if l.startswith("CodeData(")]
        if len(lines) != 1:
            ctx.violation("no-repr-line", "%s: %d lines look like the data" % (what, len(lines)), data)
            continue
        try:
            shown = eval(lines[0], dict(ns))
        except Exception as e:  # noqa
            ctx.violation("repr-unreadable", "%s: printed data cannot be evaluated: %s" % (what, type(e).__name__), data)
            continue
        if shown != api:
            ctx.violation("prints-something-else", "%s: printed data differs from the API result" % what, data)
        if "--json" in fl:
            tail = out[out.index(lines[0]) + len(lines[0]):]
            start = tail.find("{")
            try:
                doc, _ = json.JSONDecoder().raw_decode(tail[start:])
                loaded = CodeData.from_json_data(doc)
                if loaded != api:
                    ctx.violation("json-differs", "%s: the JSON section loads to different data" % what, data)
            except Exception as e:  # noqa
                ctx.violation("json-unreadable", "%s: JSON section: %s" % (what, type(e).__name__), data)
        if "--dis" in fl and "--dis-after" in fl:
            cut = out.index(lines[0])
            before, after = dis_listing(out[:cut]), dis_listing(out[cut:])
            if before != after:
                n = next((i for i, (a, b) in enumerate(zip(before, after)) if a != b), min(len(before), len(after)))
                ctx.violation("dis-after-differs", "%s: --dis-after shows different instructions than --dis (first difference at #%d: %r vs %r)" % (
                    what, n, before[n:n + 1], after[n:n + 1]), data)
        if "--source" in fl and kind not in ("-m", "rawfile") and prog.strip() and prog.strip().splitlines()[0] not in out:
            ctx.violation("source-missing", "%s: --source does not show the program" % what, data)
        ctx.sample({"args": args, "stdout_bytes": len(out)})
