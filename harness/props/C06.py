# C06: normalization yields a canonical form, whatever the operation history.
import json
import sys
import types

import encdata as E
from enc import call, tres
from props import corpus, mutators, progen


def leftovers(d, path="data"):
    """private serialisation fields that a normal form must not carry"""
    import code_data as cd
    out = []
    if d._additional_args:
        out.append("%s._additional_args" % path)
    if d._additional_line is not None:
        out.append("%s._additional_line" % path)
    if d._nested:
        out.append("%s._nested" % path)
    for bi, b in enumerate(d.blocks):
        for ii, i in enumerate(b):
            where = "%s.blocks[%d][%d]" % (path, bi, ii)
            if i._n_args_override is not None:
                out.append(where + "._n_args_override")
            if i._line_offsets_override:
                out.append(where + "._line_offsets_override")
            a = i.arg
            if getattr(a, "_index_override", None) is not None:
                out.append(where + ".arg._index_override (%s)" % type(a).__name__)
            if isinstance(a, cd.NoArg) and a._arg != 0:
                out.append(where + ".arg._arg")
            if isinstance(a, cd.Constant) and isinstance(a.constant, cd.CodeData):
                out += leftovers(a.constant, where + ".arg.constant")
    return out


def work(ctx):
    from code_data import CodeData
    rng = ctx.rng
    ncases = 0

    def via_code(x):
        return CodeData.from_code(x.to_code())

    def via_json(x):
        return CodeData.from_json_data(json.loads(json.dumps(x.to_json_data())))

    OPS = {"code": via_code, "json": via_json, "normalize": lambda x: x.normalize()}

    def check(origin, k):
        nonlocal ncases
        what = "%s:%s:%d" % (origin, k.co_name, k.co_firstlineno)
        data = {"origin": origin, "name": k.co_name, "firstlineno": k.co_firstlineno}
        r = call(CodeData.from_code, k)
        if r[0] != "ok":
            return
        d = r[1]
        n0 = d.normalize()
        ctx.evaluated((what, "idempotent"))
        if n0.normalize() != n0:
            ctx.violation("not-idempotent", "%s: normalize(normalize(x)) != normalize(x)" % what, data)
        # a normal form carries no serialisation artefact at all, at any nesting depth
        left = leftovers(n0)
        if left:
            ctx.violation("artefact-survives", "%s: the normal form still carries %s" % (what, left[0]), data)
        if ncases < (150 if ctx.quick else 1500) and len(k.co_code) < 400 and sum(len(x.co_code) for x in corpus.walk(k)) < 600:
            try:
                # normalize itself: model against implementation (the property is about this function)
                ctx.case("ser_cd (normalize %s)" % E.g_cd(d), E.t_cd(n0), "normalize %s" % what, "normalize")
            except E.Unsupported:
                pass
        # ---- histories over {code round trip, JSON round trip, normalize}
        for _ in range(1 if ctx.quick else 6):
            hist = [rng.choice(["code", "json", "normalize"]) for _ in range(rng.randint(1, 8 if ctx.quick else 20))]
            ctx.evaluated((what, tuple(hist)))
            ctx.count("history_len:%d" % len(hist))
            x = d
            bad = None
            for step, op in enumerate(hist):
                rr = call(OPS[op], x)
                if rr[0] != "ok":
                    bad = "step %d (%s) raises %s" % (step, op, rr[1])
                    break
                x = rr[1]
                if x.normalize() != n0:
                    bad = "after step %d (%s) the normal form differs" % (step, op)
                    break
                if hash(x.normalize()) != hash(n0):
                    bad = "after step %d (%s) the normal form hashes differently" % (step, op)
                    break
            if bad:
                ctx.violation("history-unstable", "%s: history %r: %s" % (what, hist, bad), dict(data, history=hist))
        # ---- variants that differ only in serialisation artefacts
        variants = []
        for which in ("co_consts", "co_names", "co_varnames"):
            v = call(mutators.permute_table, k, which, rng)
            if v[0] == "ok" and v[1] is not None:
                variants.append(("permuted " + which, v[1]))
            v = call(mutators.pad_table, k, which, rng)
            if v[0] == "ok" and v[1] is not None:
                variants.append(("padded " + which, v[1]))
        v = call(mutators.permute_cellvars, k, rng)
        if v[0] == "ok" and v[1] is not None:
            variants.append(("permuted co_cellvars", v[1]))
        v = call(mutators.toggle_nested, k)
        if v[0] == "ok":
            variants.append(("CO_NESTED toggled", v[1]))
        v = call(mutators.insert_extended_arg, k, rng)
        if v[0] == "ok" and v[1] is not None:
            variants.append(("redundant EXTENDED_ARG", v[1]))
        for name, kv in variants:
            ctx.evaluated((what, name))
            ctx.count("variant:" + name)
            rv = call(CodeData.from_code, kv)
            if rv[0] != "ok":
                ctx.violation("variant-undecodable", "%s: variant (%s) cannot be decoded: %s" % (what, name, rv[1]), dict(data, variant=name))
                continue
            nv = rv[1].normalize()
            if nv != n0 or hash(nv) != hash(n0):
                ctx.violation("not-canonical", "%s: variant (%s) normalizes to different data" % (what, name), dict(data, variant=name))
            elif ncases < (120 if ctx.quick else 1500) and len(k.co_code) < 300 and not any(isinstance(x, types.CodeType) for x in k.co_consts):
                try:
                    # the model's normal forms of the two code objects are equal too
                    ctx.case("(match to_code_data cfg %s, to_code_data cfg %s with OK a, OK b => ser_bool (cd_eqb (normalize a) (normalize b)) | _, _ => [2] end)"
                             % (E.g_pycode(k), E.g_pycode(kv)), [1], "canonical %s / %s" % (what, name), "variants")
                    ncases += 1
                except E.Unsupported:
                    pass
        if ncases < (150 if ctx.quick else 1500) and len(k.co_code) < 400 and sum(len(x.co_code) for x in corpus.walk(k)) < 600:
            try:
                # premise and conclusion of the canonicity theorem (normal form = function of dis's view) on this object
                ctx.case("(let code := %s in match mapM (to_const cfg) (co_consts code) with OK ks => match decode_code cfg code ks with OK d => "
                         "ser_bool (view_wf cfg code ks) ++ ser_bool (zlist_eqb (ser_list (ser_list (ser_instr ser_const)) (cd_blocks (normalize d))) "
                         "(ser_list (ser_list (ser_instr ser_const)) (blocks_of_view (map_view normalize_const (dis_view cfg (co_code code) (co_names code) "
                         "(co_varnames code) (co_freevars code) (co_cellvars code) ks (raw_entries (co_linetable code)) (co_firstlineno code)))))) "
                         "| Err _ => [2] end | Err _ => [3] end)" % E.g_pycode(k), [1, 1], "nz_of_view on %s" % what, "wf-monitor")
                # premises and conclusion of the code-round-trip stability theorem on this object (one level)
                ctx.case("(let code := %s in match mapM (to_const cfg) (co_consts code) with OK ks => ser_bool (cfg_flags_ok cfg) ++ "
                         "ser_bool (roundtrip_check cfg code ks) | Err _ => [3] end)" % E.g_pycode(k), [1, 1],
                         "cfg_flags_ok and code round trip of the normal form of %s" % what, "wf-monitor")
                ncases += 1
            except E.Unsupported:
                pass
        ctx.sample({"code": what, "variants": [n for n, _ in variants]})

    # the thorough tier is bounded by time (histories of up to 20 steps on every nested code object are slow):
    # generated programs first, then as much of the corpus as fits; what was skipped is counted
    import time
    t_end = time.time() + (10 ** 9 if ctx.quick else 1500)
    for src, mode in progen.programs(ctx, 40 if ctx.quick else 600):
        try:
            top = compile(src, "<gen>", mode, dont_inherit=True)
        except (SyntaxError, ValueError, RecursionError, MemoryError, OverflowError):
            continue
        for k in corpus.walk(top):
            if time.time() < t_end - 700:
                check("gen", k)
            else:
                ctx.count("skipped-by-time-budget")
    for origin, k in corpus.code_objects(ctx.tier, rng, limit=6 if ctx.quick else 80):
        if len(k.co_code) < 3000 and (not ctx.quick or rng.random() < 0.5):
            if time.time() < t_end:
                check(origin, k)
            else:
                ctx.count("skipped-by-time-budget")
