# C13: blocks are exactly the jump-target partition of the instruction sequence.
import encdata as E
from enc import call, tres, tlist
from props import corpus, disview, progen


def work(ctx):
    from code_data import CodeData, Jump
    rng = ctx.rng
    ncases = 0
    max_cases = 250 if ctx.quick else 3000

    def check(origin, k):
        nonlocal ncases
        ctx.evaluated((k.co_code, k.co_name, k.co_firstlineno))
        r = call(CodeData.from_code, k)
        what = "%s:%s:%d" % (origin, k.co_name, k.co_firstlineno)
        data = {"origin": origin, "name": k.co_name, "firstlineno": k.co_firstlineno}
        if r[0] != "ok":
            ctx.violation("from_code-raises", "%s from_code raises %s" % (what, r[1]), data)
            return
        d = r[1]
        ins = disview.dis_instructions(k)
        index = {first: i for i, (first, _, _) in enumerate(ins)}
        targets = {0}
        stray = False
        for first, op, (kind, val) in ins:
            if kind == "jump":
                if val[0] in index:
                    targets.add(index[val[0]])
                else:
                    stray = True
        ctx.count("targets_are_starts:%s" % (not stray))
        if stray:
            return  # outside the monitored assumption about compiled code (counted, never seen so far)
        starts = []
        n = 0
        for b in d.blocks:
            if not b:
                ctx.violation("empty-block", "%s has an empty block" % what, data)
                return
            starts.append(n)
            n += len(b)
        if n != len(ins):
            ctx.violation("not-a-partition", "%s: blocks hold %d instructions, dis reports %d" % (what, n, len(ins)), data)
            return
        if set(starts) != targets:
            extra = sorted(set(starts) - targets)
            missing = sorted(targets - set(starts))
            ctx.violation("block-starts", "%s: blocks start at instructions %r but the jump-target set is %r (extra %r, missing %r)"
                          % (what, starts[:20], sorted(targets)[:20], extra[:5], missing[:5]), data)
            return
        for b in d.blocks:
            for i in b:
                if isinstance(i.arg, Jump) and not (0 <= i.arg.target < len(d.blocks)):
                    ctx.violation("target-out-of-range", "%s: jump target %d with %d blocks" % (what, i.arg.target, len(d.blocks)), data)
                    return
        ctx.count("blocks:%s" % (len(d.blocks) if len(d.blocks) < 8 else "8+"))
        if ncases < max_cases and len(k.co_code) <= 600 and not any(isinstance(x, type(k)) for x in k.co_consts):
            try:
                shape = tlist(d.blocks, lambda b: [len(b)]) + tlist([i for b in d.blocks for i in b],
                                                                    lambda i: [i.arg.target] if isinstance(i.arg, Jump) else [-1])
                ctx.case("ser_res (fun d => shape_of (cd_blocks d)) (to_code_data cfg %s)" % E.g_pycode(k), [0] + shape,
                         "shape %s" % what, "shape")
                ncases += 1
            except E.Unsupported:
                pass
        ctx.sample({"code": what, "block_lengths": [len(b) for b in d.blocks][:12]})

    for origin, k in corpus.code_objects(ctx.tier, rng):
        check(origin, k)
    for src, mode in progen.programs(ctx, 60 if ctx.quick else 1500):
        try:
            top = compile(src, "<gen>", mode, dont_inherit=True)
        except (SyntaxError, ValueError, RecursionError, MemoryError, OverflowError):
            continue
        for k in corpus.walk(top):
            check("gen", k)
