# Real code objects carrying line tables that CPython's own assembler produces for boundary line
# programs (the shapes source files rarely reach: ranges of exactly 254*k bytes, line deltas of exactly
# +-127/128/255/256/384, no-line ranges after full chunks).  Tables come from the transcribed assemblers
# (props/linetools.py, compared with the real readers by C10); the body is NOPs + RETURN_VALUE.
# Used by C01 (lossless round trip) and C02 (lines per instruction).  Python 3.7 compatible.
import sys

from props import linetools as LT

B = [2, 4, 252, 254, 256, 508, 510]
L = [1, -1, 2, 127, 128, -127, -128, -129, 254, 255, -255, -256, -257, -384, 0, None]


def _programs(rng, quick):
    for b in B:
        for l in L:
            yield [(b, l)]
    pairs = [((b1, l1), (b2, l2)) for b1 in B for l1 in L for b2 in B for l2 in L]
    if quick:
        pairs = rng.sample(pairs, 500)
    for p in pairs:
        yield list(p)
    for _ in range(150 if quick else 4000):
        yield [(rng.choice(B), rng.choice(L)) for _ in range(rng.randint(3, 6))]


def boundary_codes(rng, quick):
    """yields (description, code object)"""
    from props.C10 import make_code
    native_lt = sys.version_info >= (3, 10)
    v37 = sys.version_info < (3, 8)
    for p in _programs(rng, quick):
        if native_lt:
            ranges = []
            line = 0
            for (b, l) in p:
                new = None if l is None else line + l
                if ranges and ranges[-1][1] == new:
                    ranges[-1] = (ranges[-1][0] + b, new)
                else:
                    ranges.append((b, new))
                if new is not None:
                    line = new
            table = LT.asm_310(ranges)
            n = sum(b for b, _ in ranges)
        else:
            ev = [(b, l) for (b, l) in p if l is not None]
            if not ev:
                continue
            table = LT.asm_pre310(ev, v37)
            n = sum(b for b, _ in ev) + 2
        yield "lineprog%r" % (p,), make_code(table, n, native_lt)
