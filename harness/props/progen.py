# Grammar-based program generator aimed at the codec's corners (Python 3.7 compatible).
import sys

V38 = sys.version_info >= (3, 8)


def expr(rng, depth=0):
    c = rng.random()
    if depth > 2 or c < 0.3:
        return rng.choice(["a", "b", "x", "1", "2.5", "'s'", "None", "True", "b'y'", "...", "-0.0", "0.0", "1j",
                           "10**20", "(1, 2.0, 'z')", "(1e400 - 1e400)", "(1e400j - 1e400j)", "1e400", "'\\udc80'"])
    if c < 0.5:
        return "%s %s %s" % (expr(rng, depth + 1), rng.choice(["+", "-", "*", "and", "or", "<", "is", "in"]), expr(rng, depth + 1))
    if c < 0.6:
        return "f(%s, k=%s)" % (expr(rng, depth + 1), expr(rng, depth + 1))
    if c < 0.7:
        return "[%s for i in %s if %s]" % (expr(rng, depth + 1), expr(rng, depth + 1), expr(rng, depth + 1))
    if c < 0.78:
        return "(lambda p, *q, r=1, **s: %s)" % expr(rng, depth + 1)
    if c < 0.85:
        return "(%s if %s else %s)" % (expr(rng, depth + 1), expr(rng, depth + 1), expr(rng, depth + 1))
    if c < 0.9:
        return "{%s: %s}" % (expr(rng, depth + 1), expr(rng, depth + 1))
    if c < 0.95:
        return "x in {1, 2, %d}" % rng.randint(3, 9)
    return "(\n%s,\n\n%s)" % (expr(rng, depth + 1), expr(rng, depth + 1))


def signature(rng):
    parts = []
    if V38 and rng.random() < 0.3:
        parts += ["p%d" % i for i in range(rng.randint(1, 2))] + ["/"]
    parts += ["a%d%s" % (i, "=1" if rng.random() < 0.3 and i else "") for i in range(rng.randint(0, 3))]
    # defaults must be contiguous: simplify by dropping defaults before non-defaults
    seen_default = False
    fixed = []
    for p in parts:
        if "=" in p:
            seen_default = True
        elif seen_default and p != "/":
            p += "=0"
        fixed.append(p)
    parts = fixed
    if rng.random() < 0.4:
        parts.append("*va")
        parts += ["k%d%s" % (i, "=2" if rng.random() < 0.5 else "") for i in range(rng.randint(0, 2))]
    elif rng.random() < 0.3:
        parts.append("*")
        parts += ["k%d%s" % (i, "=2" if rng.random() < 0.5 else "") for i in range(rng.randint(1, 2))]
    if rng.random() < 0.3:
        parts.append("**kw")
    return ", ".join(parts)


def stmt(rng, depth, ind):
    pad = "    " * ind
    c = rng.random()
    if depth > 2 or c < 0.3:
        return pad + "%s = %s\n" % (rng.choice(["a", "b", "x", "y"]), expr(rng))
    if c < 0.4:
        return pad + "if %s:\n%s%selse:\n%s" % (expr(rng), block(rng, depth + 1, ind + 1), pad, block(rng, depth + 1, ind + 1))
    if c < 0.5:
        return pad + "while %s:\n%s%s    if a: break\n" % (expr(rng), block(rng, depth + 1, ind + 1), pad)
    if c < 0.58:
        return pad + "for i in %s:\n%s" % (expr(rng), block(rng, depth + 1, ind + 1))
    if c < 0.7:
        doc = rng.choice(["", "'''doc'''\n", "'\\ud800 lone'\n", "1\n", "b'not a doc'\n", "''\n"])
        kind = rng.choice(["def", "def", "async def"])
        body = block(rng, depth + 1, ind + 1)
        if rng.random() < 0.3:
            body += pad + "    yield a\n"
        if kind == "async def" and rng.random() < 0.5:
            body += pad + "    await b\n"
        return pad + "%s f%d(%s):\n%s%s" % (kind, rng.randint(0, 3), signature(rng),
                                              (pad + "    " + doc) if doc else "", body)
    if c < 0.76:
        return pad + "try:\n%s%sexcept E as e:\n%s%sfinally:\n%s" % (
            block(rng, depth + 1, ind + 1), pad, block(rng, depth + 1, ind + 1), pad, block(rng, depth + 1, ind + 1))
    if c < 0.8:
        return pad + "class C%d(B):\n%s    'cdoc'\n%s" % (rng.randint(0, 3), pad, block(rng, depth + 1, ind + 1))
    if c < 0.84:
        return pad + "with a as b:\n%s" % block(rng, depth + 1, ind + 1)
    if c < 0.88:
        return "\n" * rng.choice([1, 5, 126, 127, 128, 130, 254, 255, 256, 300]) + pad + "x = %s\n" % expr(rng)
    if c < 0.92:
        return pad + "return a\n" + pad + "def dead(): pass\n" if ind else pad + "del x\n"
    if c < 0.96:
        # long run of statements: operands >= 256, jumps over > 255 bytes
        n = rng.choice([60, 130, 270])
        return "".join(pad + "v%d = %d + a\n" % (i, i + 1000) for i in range(n))
    return pad + "import m.n as o\n" + pad + "from . import q\n"


def block(rng, depth, ind):
    return "".join(stmt(rng, depth, ind) for _ in range(rng.randint(1, 3)))


def programs(ctx, n):
    rng = ctx.rng
    for i in range(n):
        c = rng.random()
        if c < 0.8:
            src = ""
            if rng.random() < 0.15:
                src += "from __future__ import annotations\n"
            src += "".join(stmt(rng, 0, 0) for _ in range(rng.randint(1, 5)))
            if rng.random() < 0.25:
                src = "def outer(y):\n" + "".join("    " + l + "\n" for l in src.split("\n") if l.strip() and not l.startswith("from __future__")) + "    return y\n"
            yield src, "exec"
        elif c < 0.9:
            yield expr(rng), "eval"
        else:
            yield "%s\n" % expr(rng), "single"
