# C02: decoded instructions, operands, jumps and lines match CPython's own reading.
import sys

import encdata as E
from enc import call, tres, gz
from props import corpus, disview, linecodes, progen


def check_view(ctx, origin, k, d):
    """oracle: the decoded data's view against dis / CPython's line reader"""
    mine = disview.data_view(d)
    ref = disview.dis_view(k)
    what = "%s:%s:%d" % (origin, k.co_name, k.co_firstlineno)
    data = {"origin": origin, "name": k.co_name, "firstlineno": k.co_firstlineno}
    if len(mine) != len(ref):
        ctx.violation("instruction-count", "%s: %d instructions decoded, dis reports %d" % (what, len(mine), len(ref)), data)
        return
    for idx, ((op1, (k1, v1), l1), (op2, (k2, v2), l2)) in enumerate(zip(mine, ref)):
        if op1 != op2:
            ctx.violation("opcode-differs", "%s: instruction %d opcode %d, dis %d" % (what, idx, op1, op2), data)
            return
        if k1 != k2:
            ctx.violation("operand-kind", "%s: instruction %d operand kind %s, dis %s" % (what, idx, k1, k2), data)
            return
        ok = disview.same_const(v1, v2) if k1 == "const" else v1 == v2
        if not ok:
            ctx.violation("operand-differs" if k1 != "jump" else "jump-differs",
                          "%s: instruction %d (%s) %r, CPython reads %r" % (what, idx, k1, v1 if k1 != "const" else type(v1).__name__, v2 if k2 != "const" else type(v2).__name__), data)
            return
        if l1 != l2:
            ctx.violation("line-differs", "%s: instruction %d line %r, CPython assigns %r" % (what, idx, l1, l2), data)
            return
        ctx.count("operand:" + k1)


def work(ctx):
    from code_data import CodeData
    rng = ctx.rng
    ncases = 0
    max_cases = 200 if ctx.quick else 2500

    def check(origin, k):
        nonlocal ncases
        ctx.evaluated((k.co_code, k.co_name, k.co_firstlineno, E.table_of(k)))
        r = call(CodeData.from_code, k)
        if r[0] != "ok":
            ctx.violation("from_code-raises", "%s:%s from_code raises %s" % (origin, k.co_name, r[1]), {"origin": origin, "name": k.co_name})
            return
        check_view(ctx, origin, k, r[1])
        size = len(k.co_code) + sum(len(x.co_code) for x in corpus.walk(k))
        if ncases < max_cases and size <= 500:
            try:
                # pi_C02 of the model's decode against the implementation's
                ctx.case("ser_res (fun d => ser_view ser_const (data_view (cd_blocks d))) (to_code_data cfg %s)" % E.g_pycode(k),
                         tres(r, lambda d: disview.t_view(disview.data_view(d), E.t_const)), "view %s:%s" % (origin, k.co_name), "decode-view")
                # the Spec (Coq dis_view) against the real dis: validates the reference the theorem mentions
                ctx.case("ser_view ser_pyconst (dis_view cfg %s %s %s %s %s %s (raw_entries %s) %s)" % (
                    E.gzlist(k.co_code), E.gstrs(k.co_names), E.gstrs(k.co_varnames), E.gstrs(k.co_freevars), E.gstrs(k.co_cellvars),
                    E.glist([E.g_pyconst(x) for x in k.co_consts], "pyconst"), E.gzlist(E.table_of(k)), gz(k.co_firstlineno)),
                    disview.t_view(disview.dis_view(k), E.t_pyconst), "spec dis_view %s:%s" % (origin, k.co_name), "spec-dis")
                # the theorem's premise (view_wf) evaluated on this real code object, and its conclusion
                ctx.case("(let code := %s in match mapM (to_const cfg) (co_consts code) with OK ks => ser_bool (view_wf cfg code ks) ++ "
                         "match decode_code cfg code ks with OK d => ser_bool (zlist_eqb (ser_view ser_const (data_view (cd_blocks d))) "
                         "(ser_view ser_const (dis_view cfg (co_code code) (co_names code) (co_varnames code) (co_freevars code) (co_cellvars code) ks "
                         "(raw_entries (co_linetable code)) (co_firstlineno code)))) | Err _ => [2] end | Err _ => [3] end)" % E.g_pycode(k),
                         [1, 1], "view_wf and K1 conclusion on %s:%s" % (origin, k.co_name), "wf-monitor")
                ncases += 1
            except E.Unsupported:
                pass
        ctx.sample({"origin": origin, "name": k.co_name, "instructions": len(disview.dis_instructions(k))})

    for origin, k in corpus.code_objects(ctx.tier, rng, huge=True):
        check(origin, k)
    # line tables at the assembler's boundaries, on real code objects
    for what, k in linecodes.boundary_codes(rng, ctx.quick):
        ctx.count("boundary-line-tables")
        check("linetab", k)
    for src, mode in progen.programs(ctx, 50 if ctx.quick else 1500):
        try:
            top = compile(src, "<gen>", mode, dont_inherit=True)
        except (SyntaxError, ValueError, RecursionError, MemoryError, OverflowError):
            continue
        for k in corpus.walk(top):
            check("gen", k)
