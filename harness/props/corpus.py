# Corpus of real code objects for the interpreter the worker runs under (Python 3.7 compatible).
import glob
import os
import sys
import types
import warnings

REPO = os.environ.get("VERIF_REPO", "/repo")


def walk(code):
    yield code
    for k in code.co_consts:
        if isinstance(k, types.CodeType):
            for x in walk(k):
                yield x


def source_files(tier, rng=None, limit=None):
    mini = sorted(glob.glob(os.path.join(REPO, "code_data", "_test_minimized", "*.py")))
    lib = os.path.dirname(os.__file__)
    std = sorted(glob.glob(os.path.join(lib, "*.py")))
    more = sorted(glob.glob(os.path.join(lib, "*", "*.py")))
    tests = sorted(glob.glob(os.path.join(lib, "test", "test_*.py")))
    if tier == "quick":
        n = limit or 40
        pick = std[:: max(1, len(std) // n)][:n] + tests[:: max(1, len(tests) // 10)][:10]
        if rng is not None:
            pick += rng.sample(more, min(10, len(more)))
        return mini + pick
    return mini + std + more + tests


def compile_file(path, optimize=-1, mode="exec"):
    try:
        with open(path, "rb") as f:
            src = f.read()
        with warnings.catch_warnings():
            warnings.simplefilter("ignore")
            return compile(src, path, mode, dont_inherit=True, optimize=optimize)
    except (SyntaxError, ValueError, RecursionError, UnicodeDecodeError, MemoryError, OverflowError):
        return None


INLINE = [
    "x = 1\n", "def f(a, b=2, *c, d, e=5, **g):\n    '''doc'''\n    return a\n",
    "class A:\n    'doc'\n    def m(self):\n        return super().m()\n",
    "async def f():\n    async for x in y:\n        await z\n    async with a as b:\n        yield 1\n",
    "def f():\n    x = 1\n    def g():\n        nonlocal x\n        x += 1\n        return x\n    return g\n",
    "l = [i for i in range(3) if i]\ns = {i: j for i, j in z}\ng = (a for a in b)\n",
    "try:\n    pass\nexcept E as e:\n    raise\nfinally:\n    h = lambda: 1\n",
    "x = 1 if y else 2\nwhile x:\n    x -= 1\n    if x == 3: break\nelse:\n    pass\n",
    "f(1.0, -0.0, 0.0, 1, True, 1j, 'a', b'a', ..., None, (1, (2.0, 'x')), 2**70)\nx in {1, 2, 3}\n",
    "def f():\n    return 1\n    def g(): pass\n",
    "from __future__ import annotations\ndef f(a: int) -> str: pass\n",
    "def f():\n    'doc'\ndef g():\n    1\n    'notdoc'\ndef h():\n    return 'first const string'\n",
    "x = '\\ud800'\ndef f():\n    '\\udc00 lone'\n",
    # a lone surrogate next to characters first assigned in Unicode 12, 13, 14 and 15 (repr() of these depends on the host)
    "x = '\\ud800\\U0001F971\\U0001FAD0\\U0001FAE0\\U0001FAE8'\ndef f():\n    '\\U0001FAE0\\udc00 doc'\n    return '\\U0001FAE8'\n",
    "x = float('nan')\ny = (1e400, -1e400, 1e400 - 1e400)\n",
]


# shapes that once broke the round trip (kept so that the defects stay fixed)
INLINE.append("def outer():\n" + "".join("    v%d = %d\n" % (i, i) for i in range(256))
              + "    def inner(x):\n        g = lambda: x\n        for i in range(3):\n            if v99: x += 1\n        return ("
              + ", ".join("v%d" % i for i in range(256)) + ", g)\n    return inner\n")
INLINE.append("".join("v%d = %d\n" % (i, i + 1000) for i in range(200)) + "while True:\n    pass\n")
INLINE.append("def f():\n return 1\n" + "\n" * 125 + " [\n  x\n ]\n")
INLINE.append("def f(a, *args, b, **kw):\n    return a\n")
INLINE.append("def f(x):\n    try:\n        pass\n    finally:\n        h = lambda: x\n    return h\n")
INLINE.append("def f(x):\n    ''\n    return x.y(200, 'a')\nclass K:\n    ''\n    def m(self):\n        \"\"\n        return (1, 2)\nasync def g():\n    ''\n    yield 1\n")
INLINE.append("x = 1\n" + "\n" * 300 + "y = 2\n" + "z = (\n" + "\n" * 200 + "1,\n x)\n")


# Twins: two compilations decoded in the same process whose nested code objects are EQUAL for CPython's code.__eq__
# (which ignores co_filename, co_stacksize and the line table) but differ in exactly those attributes: the same
# file compiled again after a blank line / comment moved the inner lines, and one source compiled for two files.
# Anything that memoises decoding by code equality or hash hands the second one the first one's data.
TWINS = [
    ("def f(x):\n    y = x\n    return y\n", "def f(x):\n    y = x\n\n    return y\n", "<twin0>", "<twin0>"),
    ("h = lambda a: (a,\n  a)\n", "h = lambda a: (a,\n\n\n  a)\n", "<twin1>", "<twin1>"),
    ("class K:\n    def m(self):\n        a = 1\n        return a\n",
     "class K:\n    def m(self):\n        a = 1\n        # moved\n        return a\n", "<twin2>", "<twin2>"),
    ("def o():\n    def i(q):\n        r = q\n        return r\n    return i\n",
     "def o():\n    def i(q):\n        r = q\n\n\n        return r\n    return i\n", "<twin3>", "<twin3>"),
    ("def f(x):\n    return [k for k in x\n            if k]\n", "def f(x):\n    return [k for k in x\n\n            if k]\n", "<twin4>", "<twin4>"),
    ("def f(x):\n    return x + 1\ng = lambda: (f,\n 2)\n", "def f(x):\n    return x + 1\ng = lambda: (f,\n 2)\n", "<twin5a>", "<twin5b>"),
    ("async def c(a):\n    await a\n    return a\n", "async def c(a):\n    await a\n    # moved\n    return a\n", "<twin6>", "<twin6>"),
]


def boundary_sources():
    """functions whose forward jump lands around the one-byte operand boundary (256), with bodies the 3.7-3.9 peephole pass
    shortens AFTER the jump widths were chosen (a, b = b, a becomes ROT_TWO and a NOP is squeezed out; `not` tests are
    inverted; jumps to jumps are threaded): compiled code is then not at the least fixed point of the jump widths, so an
    EXTENDED_ARG prefix can be kept alive by nothing but its own width"""
    for n_swaps in (1, 2, 3):
        for n_padding in range(52, 70):
            body = "".join("        a, b = b, a\n" for _ in range(n_swaps)) + "".join("        x%d = a\n" % (i % 5) for i in range(n_padding))
            yield ("def f(a, b, c):\n    if c:\n" + body + "    return a\n")
    for n_padding in range(58, 68):
        body = "".join("        x%d = a\n" % (i % 5) for i in range(n_padding))
        yield ("def f(a, b, c):\n    while not c:\n        if not a:\n            a, b = b, a\n" + body.replace("        ", "            ") + "    return a\n")


def code_objects(tier, rng=None, limit=None, max_code=None, huge=False):
    """yields (origin, code) for every code object (nested included)"""
    seen = 0
    for i, src in enumerate(boundary_sources()):
        c = compile(src, "<boundary%d>" % i, "exec")
        for k in walk(c):
            if k.co_name != "<module>":
                yield ("boundary%d" % i, k)
    for i, (a, b, fa, fb) in enumerate(TWINS):
        for tag, src, fn in (("a", a, fa), ("b", b, fb)):
            c = compile(src, fn, "exec")
            for k in walk(c):
                yield ("twin%d%s" % (i, tag), k)
    for i, src in enumerate(INLINE):
        try:
            with warnings.catch_warnings():
                warnings.simplefilter("ignore")
                c = compile(src, "<inline%d>" % i, "exec")
        except SyntaxError:
            continue
        for k in walk(c):
            yield ("inline%d" % i, k)
    if huge and tier != "quick" and not max_code:
        # operands of 0x10000 and more (two EXTENDED_ARG prefixes): a module with more than 65536 names
        try:
            c = compile("".join("v%d = %d\n" % (i, i % 7) for i in range(65600)), "<huge-names>", "exec")
            yield ("huge-names", c)
        except (MemoryError, RecursionError, OverflowError):
            pass
    for path in source_files(tier, rng, limit):
        c = compile_file(path)
        if c is None:
            continue
        for k in walk(c):
            if max_code and len(k.co_code) > max_code:
                continue
            yield (os.path.basename(path), k)
