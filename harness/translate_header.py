# Translator for the header case analysis of code_data/_code_data.py:to_code_data (C04 / C11): the statements between
# the call of args_from_input and the call of bytes_to_blocks - the NOFREE consistency check, the removal of
# NOFREE / annotations / NESTED, the function / non-function split on {NEWLOCALS, OPTIMIZED}, the docstring rule, the
# kind flag, and the final "unknown flags" test - are re-translated on every run into Gallina (coq/Gen/SrcHeader.v) and
# proved equal to the model (Model/CodeData.decode_header) for all inputs.
# Sets of flag names are lists; assert -> Err AssertionError; raise ValueError -> Err ValueError.
# Fail-closed: statement shapes outside the ones read here make the translator decline.
import ast

from translate_src import Decline

FLAG_CTOR = {"annotations": "F_annotations"}


def flag_ctor(name):
    if name.isupper():
        return name
    if name in FLAG_CTOR:
        return FLAG_CTOR[name]
    raise Decline("flag name " + name)


def same(node, text, mode="eval"):
    want = ast.parse(text, mode=mode)
    want = want.body if mode == "eval" else want.body[0]
    return ast.dump(node) == ast.dump(want)


class H:
    def __init__(self):
        self.fl = 0           # version counter of the flags variable
        self.out = []         # list of (kind, text) lines, closed at the end
        self.vars = {}        # python name -> (gallina name, type)

    def cur(self):
        return "fl%d" % self.fl

    def bump(self, rhs):
        self.fl += 1
        self.out.append("let fl%d := %s in" % (self.fl, rhs))


def set_expr(h, e):
    """a set of flag names -> Gallina list of flags"""
    if isinstance(e, ast.Set) and all(isinstance(x, ast.Constant) and isinstance(x.value, str) for x in e.elts):
        return "[%s]" % "; ".join(flag_ctor(x.value) for x in e.elts)
    if isinstance(e, ast.Name) and e.id == "FN_FLAGS":
        return "PCD.Gen.Src.FN_FLAGS"
    if isinstance(e, ast.Name) and e.id == "FN_TYPE_FLAGS":
        return "PCD.Gen.Src.FN_TYPE_FLAGS"
    if isinstance(e, ast.BinOp) and isinstance(e.op, ast.BitOr):
        return "(%s ++ %s)" % (set_expr(h, e.left), set_expr(h, e.right))
    raise Decline("set expression " + ast.dump(e)[:60])


def uncast(e):
    if isinstance(e, ast.Call) and isinstance(e.func, ast.Name) and e.func.id == "cast" and len(e.args) == 2:
        return e.args[1]
    return e


def stmts(h, body, k):
    """continuation-passing translation of a statement list; k() gives what follows"""
    if not body:
        return k()
    s, rest = body[0], body[1:]
    nxt = lambda: stmts(h, rest, k)
    # assert ("NOFREE" in flags_data) == ((not code.co_freevars) and (not code.co_cellvars)), msg
    if isinstance(s, ast.Assert):
        t = s.test
        if same(t, '("NOFREE" in flags_data) == ((not code.co_freevars) and (not code.co_cellvars))'):
            return "if negb (Bool.eqb (flag_mem NOFREE %s) nofree_expected) then Err AssertionError else\n  %s" % (h.cur(), nxt())
        if same(t, "not args"):
            return "if negb (args_len a =? 0) then Err AssertionError else\n  %s" % nxt()
        if same(t, "len(fn_tp_flags) in {0, 1}") and "fn_tp_flags" in h.vars:
            v = h.vars["fn_tp_flags"][0]
            return "if negb ((zlen %s =? 0) || (zlen %s =? 1)) then Err AssertionError else\n  %s" % (v, v, nxt())
        raise Decline("assert " + ast.dump(t)[:60])
    # if args: raise ValueError(...)
    if isinstance(s, ast.If) and same(s.test, "args") and len(s.body) == 1 and isinstance(s.body[0], ast.Raise) and not s.orelse:
        return "if negb (args_len a =? 0) then Err %s else\n  %s" % (exn_of(s.body[0]), nxt())
    # if flags_data: raise ValueError(...)
    if isinstance(s, ast.If) and same(s.test, "flags_data") and len(s.body) == 1 and isinstance(s.body[0], ast.Raise) and not s.orelse:
        return "match %s with _ :: _ => Err %s | [] =>\n  %s end" % (h.cur(), exn_of(s.body[0]), nxt())
    # flags_data -= <set>
    if isinstance(s, ast.AugAssign) and isinstance(s.target, ast.Name) and s.target.id == "flags_data" and isinstance(s.op, ast.Sub):
        h.bump("fold_left (fun acc f => flag_remove f acc) %s %s" % (set_expr(h, s.value), h.cur()))
        return h.out.pop() + "\n  " + nxt()
    # flags_data.remove(fn_tp) under `if fn_tp:`
    if isinstance(s, ast.If) and same(s.test, "fn_tp") and not s.orelse and len(s.body) == 1 and same(s.body[0], "flags_data.remove(fn_tp)", "exec"):
        if h.vars.get("fn_tp", (None, None))[1] != "okind":
            raise Decline("fn_tp")
        h.bump("match %s with Some ft => flag_remove (fst ft) %s | None => %s end" % (h.vars["fn_tp"][0], h.cur(), h.cur()))
        return h.out.pop() + "\n  " + nxt()
    if isinstance(s, ast.Assign) and len(s.targets) == 1 and isinstance(s.targets[0], ast.Name):
        name, v = s.targets[0].id, uncast(s.value)
        # x = "NAME" in flags_data
        if (isinstance(v, ast.Compare) and len(v.ops) == 1 and isinstance(v.ops[0], ast.In) and isinstance(v.left, ast.Constant)
                and isinstance(v.left.value, str) and same(v.comparators[0], "flags_data")):
            h.vars[name] = ("v_" + name, "bool")
            return "let v_%s := flag_mem %s %s in\n  %s" % (name, flag_ctor(v.left.value), h.cur(), nxt())
        # fn_flags = flags_data & FN_FLAGS
        if isinstance(v, ast.BinOp) and isinstance(v.op, ast.BitAnd):
            l, r = v.left, v.right
            if same(r, "flags_data"):
                l, r = r, l
            if same(l, "flags_data") and isinstance(r, ast.Name) and r.id == "FN_FLAGS":
                h.vars[name] = ("v_" + name, "flags")
                return "let v_%s := filter (fun f => flag_mem f %s) PCD.Gen.Src.FN_FLAGS in\n  %s" % (name, h.cur(), nxt())
            if same(l, "flags_data") and isinstance(r, ast.Name) and r.id == "FN_TYPE_FLAGS":
                h.vars[name] = ("v_" + name, "kinds")
                return ("let v_%s := filter (fun ft : flag * fntype => flag_mem (fst ft) %s) (kinds_of PCD.Gen.Src.FN_TYPE_FLAGS) in\n  %s"
                        % (name, h.cur(), nxt()))
            raise Decline("intersection")
        # block_type = None
        if isinstance(v, ast.Constant) and v.value is None and name == "block_type":
            h.vars[name] = ("None", "ofunction")
            return nxt()
        # docstring = constants[0] if constants and isinstance(constants[0], str) else None
        if name == "docstring" and same(v, "constants[0] if constants and isinstance(constants[0], str) else None"):
            h.vars[name] = ("doc0", "ostr")
            return nxt()
        # fn_tp = fn_tp_flags.pop() if fn_tp_flags else None
        if name == "fn_tp" and same(v, "fn_tp_flags.pop() if fn_tp_flags else None") and h.vars.get("fn_tp_flags", (0, 0))[1] == "kinds":
            h.vars[name] = ("v_fn_tp", "okind")
            return "let v_fn_tp := hd_error %s in\n  %s" % (h.vars["fn_tp_flags"][0], nxt())
        # block_type = Function(args, docstring, fn_tp)
        if name == "block_type" and same(v, "Function(args, docstring, fn_tp)"):
            if h.vars.get("docstring", (0, 0))[1] != "ostr" or h.vars.get("fn_tp", (0, 0))[1] != "okind":
                raise Decline("Function(...) arguments")
            h.vars[name] = ("(Some (mkFunction a doc0 (option_map snd v_fn_tp)))", "ofunction")
            return nxt()
        raise Decline("assignment to " + name)
    # if len(fn_flags) == 0: ... elif len(fn_flags) == 2: ... else: raise
    if isinstance(s, ast.If) and isinstance(s.test, ast.Compare) and same(s.test.left, "len(fn_flags)") and "fn_flags" in h.vars:
        arms = []
        node = s
        final = None
        while True:
            t = node.test
            if not (isinstance(t, ast.Compare) and same(t.left, "len(fn_flags)") and len(t.ops) == 1 and isinstance(t.ops[0], ast.Eq)
                    and isinstance(t.comparators[0], ast.Constant) and isinstance(t.comparators[0].value, int)):
                raise Decline("test on len(fn_flags)")
            arms.append((t.comparators[0].value, node.body))
            if len(node.orelse) == 1 and isinstance(node.orelse[0], ast.If):
                node = node.orelse[0]
                continue
            final = node.orelse
            break
        if not (len(final) == 1 and isinstance(final[0], ast.Raise)):
            raise Decline("else branch of the function split")
        fl_before = h.fl
        outs = []
        for n, body in arms:
            h2 = H()
            h2.fl, h2.vars = fl_before, dict(h.vars)
            def fin(h2=h2):
                if h2.vars.get("block_type", (0, 0))[1] != "ofunction":
                    raise Decline("block_type not bound in a branch")
                return "OK (%s, %s)" % (h2.vars["block_type"][0], h2.cur())
            outs.append("if zlen %s =? %d then\n  %s\n  else" % (h.vars["fn_flags"][0], n, stmts(h2, body, fin)))
        # after the split: both block_type and the flags come out of the branch
        h.fl = fl_before + 100
        h.vars["block_type"] = ("v_block_type", "ofunction")
        return "bind (%s Err %s) (fun '(v_block_type, fl%d) =>\n  %s)" % (" ".join(outs), exn_of(final[0]), h.fl, nxt())
    raise Decline("statement " + type(s).__name__ + " " + ast.dump(s)[:50])


def exn_of(r):
    e = r.exc
    if isinstance(e, ast.Call) and isinstance(e.func, ast.Name) and e.func.id in ("ValueError", "AssertionError", "NotImplementedError", "TypeError"):
        return e.func.id
    raise Decline("raise of " + ast.dump(e)[:40])


def translate(tree):
    f = next((n for n in tree.body if isinstance(n, ast.FunctionDef) and n.name == "to_code_data"), None)
    if f is None or f.decorator_list:
        raise Decline("to_code_data")
    body = list(f.body)
    # the segment: after `args = args_from_input(...)`, before `blocks, additional_args = bytes_to_blocks(...)`
    start = end = None
    for i, s in enumerate(body):
        if isinstance(s, ast.Assign) and isinstance(s.value, ast.Call) and isinstance(s.value.func, ast.Name):
            if s.value.func.id == "args_from_input":
                start = i + 1
            if s.value.func.id == "bytes_to_blocks":
                end = i
    if start is None or end is None or not start < end:
        raise Decline("segment of to_code_data")
    # what precedes must produce flags_data from to_flags_data(code.co_flags) and what follows must use these names
    if not any(isinstance(s, ast.Assign) and same(s, "flags_data = to_flags_data(code.co_flags)", "exec") for s in body[:start]):
        raise Decline("flags_data = to_flags_data(code.co_flags)")
    ret = body[-1]
    if not (isinstance(ret, ast.Return) and isinstance(ret.value, ast.Call) and isinstance(ret.value.func, ast.Name) and ret.value.func.id == "CodeData"):
        raise Decline("return of to_code_data")
    kw = {k.arg: k.value for k in ret.value.keywords}
    for field, var in (("type", "block_type"), ("future_annotations", "annotations"), ("_nested", "nested")):
        if not (field in kw and isinstance(kw[field], ast.Name) and kw[field].id == var):
            raise Decline("CodeData(%s=...)" % field)
    h = H()
    def fin():
        for v, ty in (("annotations", "bool"), ("nested", "bool")):
            if h.vars.get(v, (0, 0))[1] != ty:
                raise Decline(v + " not bound")
        if h.vars.get("block_type", (0, 0))[1] != "ofunction":
            raise Decline("block_type not bound")
        return "OK (%s, %s, %s)" % (h.vars["block_type"][0], h.vars["annotations"][0], h.vars["nested"][0])
    text = stmts(h, body[start:end], fin)
    return ("Module Header.\n"
            "Definition kinds_of (names : list flag) : list (flag * fntype) :=\n"
            "  filter (fun ft : flag * fntype => flag_mem (fst ft) names) PCD.Model.CodeData.FN_TYPE_FLAGS.\n"
            "Definition header (a : args) (doc0 : option str) (nofree_expected : bool) (fl0 : list flag)\n"
            "  : res (option function * bool * bool) :=\n  %s.\nEnd Header.\n" % text)


# ---------------------------------------------------------------------------------------------------------
# from_code_data: how the flag set and the argument counts are assembled

def _is_fl(t):
    return isinstance(t, ast.Name) and t.id == "flags_data"


def translate_encode(tree):
    f = next((n for n in tree.body if isinstance(n, ast.FunctionDef) and n.name == "from_code_data"), None)
    if f is None or f.decorator_list or [a.arg for a in f.args.args] != ["code_data"]:
        raise Decline("from_code_data")
    body = [s for s in f.body if not (isinstance(s, ast.Expr) and isinstance(s.value, ast.Constant))]
    fl = [0]
    lines = []

    def cur():
        return "fl%d" % fl[0]

    def bump(rhs):
        fl[0] += 1
        lines.append("let fl%d := %s in" % (fl[0], rhs))

    def union(e, fn_var=None):
        """flags_data |= <set>"""
        if isinstance(e, ast.Name) and e.id == "FN_FLAGS":
            return "flags_union %s PCD.Gen.Src.FN_FLAGS" % cur()
        if isinstance(e, ast.Set) and len(e.elts) == 1:
            x = e.elts[0]
            if isinstance(x, ast.Constant) and isinstance(x.value, str):
                return "flag_add %s %s" % (flag_ctor(x.value), cur())
            if same(x, "code_data.type.type") and fn_var:
                return "flag_add (fntype_flag %s) %s" % (fn_var, cur())
        raise Decline("set added to the flags")

    i = 0
    # flags_data: FlagsData = set()
    st = body[i]
    if not (isinstance(st, (ast.AnnAssign, ast.Assign)) and same(st.value, "set()")
            and ast.dump(st.target if isinstance(st, ast.AnnAssign) else st.targets[0]) == ast.dump(ast.parse("flags_data = 0").body[0].targets[0])):
        raise Decline("flags_data = set()")
    lines.append("let fl0 := @nil flag in")
    i += 1
    # if isinstance(code_data.type, Function): flags_data |= FN_FLAGS ; if code_data.type.type is not None: flags_data |= {code_data.type.type}
    st = body[i]
    if not (isinstance(st, ast.If) and same(st.test, "isinstance(code_data.type, Function)") and not st.orelse):
        raise Decline("function flags")
    inner = []
    save = fl[0]
    for s2 in st.body:
        if isinstance(s2, ast.AugAssign) and isinstance(s2.op, ast.BitOr) and _is_fl(s2.target):
            inner.append(("u", s2.value))
        elif (isinstance(s2, ast.If) and same(s2.test, "code_data.type.type is not None") and not s2.orelse and len(s2.body) == 1
              and isinstance(s2.body[0], ast.AugAssign) and isinstance(s2.body[0].op, ast.BitOr) and _is_fl(s2.body[0].target)):
            inner.append(("k", s2.body[0].value))
        else:
            raise Decline("statement in the function flags block")
    text = cur()
    for kind, v in inner:
        if kind == "u":
            text = union(v).replace(cur(), text)
        else:
            text = "(match fn_type f with Some t => %s | None => %s end)" % (union(v, "t").replace(cur(), "(" + text + ")"), text)
    bump("match ty with Some f => %s | None => %s end" % (text, cur()))
    i += 1
    # opaque middle: blocks_to_bytes, consts, additional line
    while i < len(body) and not (isinstance(body[i], ast.If) and same(body[i].test, "isinstance(code_data.type, Function)")):
        st = body[i]
        ok = (isinstance(st, ast.Assign) and isinstance(st.value, ast.Call) and isinstance(st.value.func, ast.Name)
              and st.value.func.id in ("blocks_to_bytes", "tuple")) or \
             (isinstance(st, ast.If) and same(st.test, "code_data._additional_line") and not st.orelse and len(st.body) == 1
              and same(st.body[0], "line_mapping.add_additional_line(code_data._additional_line, len(code))", "exec"))
        if not ok:
            raise Decline("statement before the argument block: " + type(st).__name__)
        i += 1
    if i >= len(body):
        raise Decline("argument block")
    st = body[i]
    want_then = ["args_input = args_to_input(code_data.type.args, flags_data)", "argcount = args_input.argcount",
                 "posonlyargcount = args_input.posonlyargcount", "kwonlyargcount = args_input.kwonlyargcount",
                 "flags_data = args_input.flags_data"]
    then = [s2 for s2 in st.body]
    if not (len(then) == 6 and all(same(a, b, "exec") for a, b in zip(then[:5], want_then)) and isinstance(then[5], ast.Assert)
            and same(then[5].test, "varnames[:len(args_input.varnames)] == args_input.varnames")):
        raise Decline("then-branch of the argument block")
    want_else = ["argcount = 0", "posonlyargcount = 0", "kwonlyargcount = 0"]
    if not (len(st.orelse) == 3 and all(same(a, b, "exec") for a, b in zip(st.orelse, want_else))):
        raise Decline("else-branch of the argument block")
    prev = cur()
    fl[0] += 1
    lines.append("bind (match ty with\n    | Some f => let '(ac, pc, kc, vn, fl) := PCD.Gen.SrcArgs.Args.args_to_input (fn_args f) %s in\n"
                 "        if list_eqb str_eqb (take (zlen vn) varnames) vn then OK (ac, pc, kc, fl) else Err AssertionError\n"
                 "    | None => OK (0, 0, 0, %s)\n    end) (fun '(argcount, posonly, kwonly, fl%d) =>" % (prev, prev, fl[0]))
    i += 1
    # freevars = code_data.freevars
    if not same(body[i], "freevars = code_data.freevars", "exec"):
        raise Decline("freevars binding")
    i += 1
    for test, want_set, param in (("not freevars and not cellvars", None, "(freevars_empty && cellvars_empty)"),
                                  ("code_data.future_annotations", None, "future_annotations"), ("code_data._nested", None, "nested")):
        st = body[i]
        if not (isinstance(st, ast.If) and same(st.test, test) and not st.orelse and len(st.body) == 1
                and isinstance(st.body[0], ast.AugAssign) and isinstance(st.body[0].op, ast.BitOr) and _is_fl(st.body[0].target)):
            raise Decline("flag statement: " + test)
        bump("if %s then %s else %s" % (param, union(st.body[0].value), cur()))
        i += 1
    if not same(body[i], "flags = from_flags_data(flags_data)", "exec"):
        raise Decline("flags = from_flags_data(flags_data)")
    text = "\n  ".join(lines) + "\n  OK (argcount, posonly, kwonly, %s))" % cur()
    return ("Module EncodeHeader.\n"
            "Definition header (ty : option function) (varnames : list str) (freevars_empty cellvars_empty future_annotations nested : bool)\n"
            "  : res (Z * Z * Z * list flag) :=\n  %s.\nEnd EncodeHeader.\n" % text)


HEADER = ("(* generated by harness/translate_header.py from /repo/code_data/_code_data.py on every run; do not edit *)\n"
          "From PCD Require Import Base.PyBase Base.Cfg Model.Flags Model.Args Model.Data Model.Consts.\n"
          "From PCD Require Gen.Src Gen.SrcArgs Model.CodeData.\nImport PCD.Model.CodeData.\n\n")


def generate(repo, outpath, fallback_dir, write_fallback=False):
    import os
    from common import write_if_changed
    notes = {}
    fb = os.path.join(fallback_dir, "SrcHeader.v")
    try:
        with open(os.path.join(repo, "code_data", "_code_data.py")) as f:
            tree = ast.parse(f.read())
        text = translate(tree) + translate_encode(tree)
        notes["header"] = "translated"
        flag = "true"
        if write_fallback:
            with open(fb, "w") as f:
                f.write(text)
    except (Decline, OSError, SyntaxError, IndexError, KeyError, AttributeError) as e:
        notes["header"] = "declined: %s" % e
        with open(fb) as f:
            text = ("(* declined (%s): reference translation of the pinned source; tied by correspondence only *)\n"
                    % str(e).replace("*)", "* )")[:100]) + f.read()
        flag = "false"
    notes["changed"] = write_if_changed(outpath, HEADER + text + "Definition header_translated := %s.\n" % flag)
    return notes


if __name__ == "__main__":
    import sys
    import os
    here = os.path.dirname(os.path.abspath(__file__))
    sys.path.insert(0, here)
    print(generate("/repo", os.path.join(here, "..", "coq", "Gen", "SrcHeader.v"), os.path.join(here, "fallback"),
                   write_fallback="--write-fallback" in sys.argv))
