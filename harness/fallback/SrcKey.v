Fixpoint key (value : iconst) : pv :=
  match value with
  | INone => PNone
  | IBool b => (PTuple [(PType T_BOOL); (PBool b)])
  | IInt z => (PTuple [(PType T_INT); (PInt z)])
  | IFloat bits => (PTuple [(PType T_FLOAT); (replace_nan bits); (is_neg_zero bits)])
  | IComplex re im => (PTuple [(PType T_COMPLEX); (replace_nan re); (replace_nan im); (is_neg_zero re); (is_neg_zero im)])
  | IStr s => (PStr s)
  | IBytes b => (PBytes b)
  | IEllipsis => PEllipsis
  | ITuple l => (PTuple (map key l))
  | IFrozenset l => (PFrozenset (map key l))
  end.
