Definition tail (c : cfg) (d : code_data_ pconst) (code : list Z) (lm0 : linemap) (names varnames cellvars : list str)
    (constants : list pconst) (argcount posonly kwonly : Z) (fl : list flag) : res pycode :=
  let lm := match cd_addline d with Some al => PCD.Gen.SrcLineMap.add_additional_line lm0 (al_line al) (al_offs al) (zlen code) | None => lm0 end in
  match from_flags_data c fl with Err e => Err e | OK flags =>
  let lm := PCD.Gen.SrcLineMap.modify_line_offsets lm (- (cd_firstline d)) in
  match from_line_mapping (cfg_v310 c) lm with Err e => Err e | OK line_table =>
  if cfg_v38 c then pycode_new c argcount posonly kwonly (zlen varnames) (cd_stacksize d) flags code (map snd constants) names varnames (cd_filename d) (cd_name d) (cd_firstline d) line_table (cd_freevars d) cellvars else if negb (posonly =? 0) then Err NotImplementedError else pycode_new c argcount 0 kwonly (zlen varnames) (cd_stacksize d) flags code (map snd constants) names varnames (cd_filename d) (cd_name d) (cd_firstline d) line_table (cd_freevars d) cellvars end end.
Definition decode_code (c : cfg) (code : pycode) (constants : list const) : res code_data :=
  let v_posonlyargcount := if cfg_v38 c then (co_posonlyargcount code) else (0) in
  match to_line_mapping (cfg_v310 c) (co_linetable code) (zlen (co_code code)) with Err e => Err e | OK lm0 =>
  let lm := PCD.Gen.SrcLineMap.modify_line_offsets lm0 (co_firstlineno code) in
  match to_flags_data c (co_flags code) with Err e => Err e | OK fl0 =>
  match args_from_input (co_argcount code) v_posonlyargcount (co_kwonlyargcount code) (co_varnames code) fl0 with Err e => Err e | OK (a, fl1) =>
  match PCD.Gen.SrcHeader.Header.header a (match constants with KInner (IStr s) :: _ => Some s | _ => None end)
          (match co_freevars code, co_cellvars code with [], [] => true | _, _ => false end) fl1 with Err e => Err e
  | OK (block_type, annotations, nested) =>
  match bytes_to_blocks key_eqb c (co_code code) lm (co_names code) (co_varnames code) (co_freevars code) (co_cellvars code) constants block_type a with Err e => Err e | OK (blocks, additional, lm') =>
  match PCD.Gen.SrcLineMap.pop_additional_line lm' (zlen (co_code code)) with Err e => Err e | OK (next_line, _) =>
  OK (mkCD blocks (co_filename code) (co_firstlineno code) (co_name code) (co_stacksize code) block_type (co_freevars code) annotations nested (match next_line with Some (l, offs) => Some (mkAddline l offs) | None => None end) additional) end end end end end end.
