Module SplitBlocks.
Section S.
  Context {C : Type}.
  Definition targets_of (targets_set : list Z) : list Z := (sorted_set targets_set).
  (* blocks finished so far, and the block `block` is bound to (None before the first one) *)
  Definition step (targets : list Z) (st : list (list (instr_ C)) * option (list (instr_ C))) (oi : Z * instr_ C)
    : res (list (list (instr_ C)) * option (list (instr_ C))) :=
    let '(offset, instruction) := oi in
    let st1 := if zmem offset targets then (match snd st with Some b => fst st ++ [b] | None => fst st end, Some []) else st in
    bind (match i_arg instruction with
          | AJump t rel => match index_of Z.eqb t targets with
                           | Some k => OK (mkInstr (i_name instruction) (AJump k rel) (i_nargs instruction) (i_line instruction) (i_lineoffs instruction))
                           | None => Err ValueError
                           end
          | _ => OK instruction
          end) (fun instruction' =>
    match snd st1 with
    | Some b => OK (fst st1, Some (b ++ [instruction']))
    | None => Err NameError
    end).
  Definition run (targets_set : list Z) (ois : list (Z * instr_ C)) : res (list (list (instr_ C))) :=
    bind (foldM (step (targets_of targets_set)) ois ([], None))
         (fun st => OK (match snd st with Some b => fst st ++ [b] | None => fst st end)).
End S.
End SplitBlocks.
