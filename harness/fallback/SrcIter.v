Section B2C.
  Context {C : Type} (keq : C -> C -> bool) (is_str : C -> bool) (none_c : C) (str_c : str -> C).
  Definition blocks_to_constants (blocks : list (list (instr_ C))) (additional_args : list (arg_ C)) (block_type : option function) : res (list C) :=
    let step := fun (a : arg_ C) (st : encstate C) => match a with AConst _ _ => do r <- PCD.Gen.SrcFromArg.from_arg keq is_str none_c a block_type [] st; OK (snd r) | _ => OK st end in
    do constants <- (match block_type with Some f => match fn_doc f with Some d => fa_setitem keq fromargs_empty 0 (str_c d) | _ => OK fromargs_empty end | None => OK fromargs_empty end);
    let st := mkEnc (@fromargs_empty str) (@fromargs_empty str) (@fromargs_empty str) constants in
    do st <- foldM (fun st block => foldM (fun st instruction => step (i_arg instruction) st) block st) blocks st; do st <- foldM (fun st arg => step arg st) additional_args st; fa_to_tuple (e_consts st).
  Definition enc_init (block_type : option function) : res (encstate C) :=
    do varnames <- (match block_type with Some f => foldM (fun t ik => fa_setitem str_eqb t (fst ik) (snd ik)) (combine (map Z.of_nat (seq 0 (length (args_to_varnames (fn_args f))))) (args_to_varnames (fn_args f))) fromargs_empty | None => OK fromargs_empty end);
    do constants <- (match block_type with Some f => match fn_doc f with Some d => fa_setitem keq fromargs_empty 0 (str_c d) | _ => OK fromargs_empty end | None => OK fromargs_empty end);
    OK (mkEnc fromargs_empty varnames fromargs_empty constants).
  Definition dec_init (names varnames cellvars : list str) (constants : list C) (block_type : option function) (a : args) : res (decstate C) :=
    let st0 := mkDec (toargs_init names 0) (toargs_init varnames (args_len a)) (toargs_init cellvars 0) (toargs_init constants 0) in
    if (match block_type with Some f => match fn_doc f with Some _ => true | None => false end | None => false end) then match PCD.Gen.SrcTables.found_index keq (d_consts st0) 0 with
      | OK (_, _, t) => OK (mkDec (d_names st0) (d_varnames st0) (d_cellvars st0) t) | Err e => Err e end
    else OK st0.
  Definition additional_of (st2 : decstate C) : res (list (arg_ C)) :=
    do a0 <- PCD.Gen.SrcTables.additional_args str_eqb (d_names st2); do a1 <- PCD.Gen.SrcTables.additional_args str_eqb (d_varnames st2); do a2 <- PCD.Gen.SrcTables.additional_args str_eqb (d_cellvars st2); do a3 <- PCD.Gen.SrcTables.additional_args keq (d_consts st2);
    OK (map (fun p => AName (fst p) (snd p)) a0 ++ map (fun p => AVarname (fst p) (snd p)) a1 ++ map (fun p => ACellvar (fst p) (snd p)) a2 ++ map (fun p => AConst (fst p) (snd p)) a3).
  Definition first_pass (blocks : list (list (instr_ C))) (additional_args : list (arg_ C)) (freevars : list str) (block_type : option function)
      (st0 : encstate C) : res (list Z * encstate C) :=
    do r <- foldM (fun acc block => foldM (fun (acc : list Z * encstate C) instruction =>
              do v <- PCD.Gen.SrcFromArg.from_arg keq is_str none_c (i_arg instruction) block_type freevars (snd acc); OK (fst acc ++ [fst v], snd v)) block acc)
            blocks ([], st0);
    do st2 <- foldM (fun st arg => do v <- PCD.Gen.SrcFromArg.from_arg keq is_str none_c arg block_type freevars st; OK (snd v)) additional_args (snd r);
    OK (map (fun iv : instr_ C * Z => match i_arg (fst iv) with AFreevar _ => snd iv + zlen (fa_items (e_cellvars st2)) | _ => snd iv end) (combine (concat blocks) (fst r)), st2).
End B2C.
Definition iter_code_data (d : code_data) : res (list code_data) :=
  do ks <- blocks_to_constants key_eqb is_str_const (KInner INone) (fun s => KInner (IStr s)) (cd_blocks d) (cd_addargs d) (cd_type d);
  OK (flat_map (fun k => match k with KCode x => [x] | KInner _ => [] end) ks).
Fixpoint all_code_data (fuel : nat) (d : code_data) : res (list code_data) :=
  match fuel with O => Err OutOfFuel | S f =>
    do subs <- iter_code_data d;
    do ls <- mapM (all_code_data f) subs;
    OK ([d] ++ concat ls) end.
