  Definition blocks_to_constants (blocks : list (list (instr_ C))) (additional_args : list (arg_ C)) (block_type : option function) : res (list C) :=
    let step := fun (a : arg_ C) (st : encstate C) => match a with AConst _ _ => do r <- PCD.Gen.SrcFromArg.from_arg keq is_str none_c a block_type [] st; OK (snd r) | _ => OK st end in
    do constants <- (match block_type with Some f => match fn_doc f with Some d => fa_setitem keq fromargs_empty 0 (str_c d) | _ => OK fromargs_empty end | None => OK fromargs_empty end);
    let st := mkEnc (@fromargs_empty str) (@fromargs_empty str) (@fromargs_empty str) constants in
    do st <- foldM (fun st block => foldM (fun st instruction => step (i_arg instruction) st) block st) blocks st; do st <- foldM (fun st arg => step arg st) additional_args st; fa_to_tuple (e_consts st).
