(* each source: (given on the command line, value not empty) *)
Definition accepts (file cmd mod_ eval_ : bool * bool) : bool := zlen (filter fst [file; cmd; mod_; eval_]) =? 1.
Definition actions (show_dis show_source show_dis_after no_normalize json has_source : bool) : list action :=
  (if show_source && has_source then [APrintSource] else []) ++ (if show_dis then [ADis] else []) ++ [APrint (if negb no_normalize then VNormalized VDecoded else VDecoded)] ++ (if json then [AJson (if negb no_normalize then VNormalized VDecoded else VDecoded)] else []) ++ (if show_dis_after then [ADisAfter (if negb no_normalize then VNormalized VDecoded else VDecoded)] else []).
