Definition modify_line_offsets (m : linemap) (line_offset : Z) : linemap :=
  {| lm_lines := omap_values (fun v : option Z => match v with Some l => Some (l + line_offset) | None => None end) (lm_lines m);
     lm_adds := lm_adds m |}.
