Definition b2z' (b : bool) : Z := if b then 1 else 0.
Definition float_json (bits : Z) : json := (if float_is_inf bits then JObj [(lit "float", JStr (if bits =? 9218868437227405312 then lit "inf" else lit "-inf"))] else (if float_is_nan bits then JObj [(lit "float", JStr (lit "nan"))] else JFloat bits)).
Fixpoint to_json (value : iconst) : json :=
  match value with
  | INone => JNull
  | IBool b => (if ((b2z' b) <? PCD.Gen.Src.MIN_INTEGER) || ((b2z' b) >? PCD.Gen.Src.MAX_INTEGER) then JObj [(lit "int", JStr (if bit_length (b2z' b) >? PCD.Gen.Src.MAX_DECIMAL_BITS then hex_text (b2z' b) else decimal (b2z' b)))] else JBool b)
  | IInt z => (if (z <? PCD.Gen.Src.MIN_INTEGER) || (z >? PCD.Gen.Src.MAX_INTEGER) then JObj [(lit "int", JStr (if bit_length z >? PCD.Gen.Src.MAX_DECIMAL_BITS then hex_text z else decimal z))] else JInt z)
  | IFloat bits => (if float_is_inf bits then JObj [(lit "float", JStr (if bits =? 9218868437227405312 then lit "inf" else lit "-inf"))] else (if float_is_nan bits then JObj [(lit "float", JStr (lit "nan"))] else JFloat bits))
  | IComplex re im => JObj [(lit "real", float_json re); (lit "imag", float_json im)]
  | IStr s => (if has_surrogate s then JObj [(lit "string", JStr (py_repr s))] else JStr s)
  | IBytes bs => JObj [(lit "bytes", JStr (b64encode bs))]
  | IEllipsis => JObj [(lit "type", JStr (lit "ellipsis"))]
  | ITuple l => JList (map to_json l)
  | IFrozenset l => JObj [(lit "frozenset", JList (map to_json l))]
  end.
