  Definition enc_init (block_type : option function) : res (encstate C) :=
    do varnames <- (match block_type with Some f => foldM (fun t ik => fa_setitem str_eqb t (fst ik) (snd ik)) (combine (map Z.of_nat (seq 0 (length (args_to_varnames (fn_args f))))) (args_to_varnames (fn_args f))) fromargs_empty | None => OK fromargs_empty end);
    do constants <- (match block_type with Some f => match fn_doc f with Some d => fa_setitem keq fromargs_empty 0 (str_c d) | _ => OK fromargs_empty end | None => OK fromargs_empty end);
    OK (mkEnc fromargs_empty varnames fromargs_empty constants).
