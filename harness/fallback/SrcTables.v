Section Tables.
  Context {T : Type} (keq : T -> T -> bool).
  Definition found_index (st : toargs T) (index : Z) : res (T * option Z * toargs T) :=
    match py_index (ta_args st) index with
    | None => Err IndexError
    | Some a =>
        let st1 :=
          if negb (omem (ta_order st) index) then
            let order' := oset (ta_order st) index (zlen (ta_order st)) in
            let '(first, keys') := setdefault keq (ta_keys st) a index in
            mkToArgs (ta_args st) order' keys' (if negb (first =? index) then dup_add keq (ta_dups st) a else ta_dups st)
          else st in
        let wrong := (negb (order_at (ta_order st1) index =? index) || key_mem keq (ta_dups st1) a) in
        OK (a, (if wrong then Some index else None), st1)
    end.
  (* the generator is consumed to the end by its callers; the table it reads is the one found_index updates *)
  Definition additional_args (st : toargs T) : res (list (T * option Z)) :=
    match foldM (fun (acc : toargs T * list (T * option Z)) (i : Z) =>
                   if negb (omem (ta_order (fst acc)) i) then
                     match found_index (fst acc) i with
                     | OK (a, ov, st') => OK (st', snd acc ++ [(a, ov)])
                     | Err e => Err e
                     end
                   else OK acc)
                (map Z.of_nat (seq 0 (length (ta_args st)))) (st, []) with
    | OK acc => OK (snd acc)
    | Err e => Err e
    end.
  Definition fa_setitem (st : fromargs T) (i : Z) (a : T) : res (fromargs T) :=
    let clash := match oget (fa_items st) i with Some old => negb (keq old a) | None => false end in
    if clash then Err ValueError
    else OK (mkFromArgs (oset (fa_items st) i a) (key_set keq (fa_index st) a i)).
  Definition fa_add (st : fromargs T) (a : T) (ov : option Z) : res (Z * fromargs T) :=
    match ov with
    | Some i => match fa_setitem st i a with OK st' => OK (i, st') | Err e => Err e end
    | None =>
        match key_lookup keq (fa_index st) a with
        | Some i => OK (i, st)
        | None => let i := zlen (fa_items st) in match fa_setitem st i a with OK st' => OK (i, st') | Err e => Err e end
        end
    end.
  Definition fa_to_tuple (st : fromargs T) : res (list T) :=
    if negb (keys_are_range (fa_items st)) then Err ValueError else OK (map snd (isort_by_key (fa_items st))).
End Tables.
