  Definition additional_of (st2 : decstate C) : res (list (arg_ C)) :=
    do a0 <- PCD.Gen.SrcTables.additional_args str_eqb (d_names st2); do a1 <- PCD.Gen.SrcTables.additional_args str_eqb (d_varnames st2); do a2 <- PCD.Gen.SrcTables.additional_args str_eqb (d_cellvars st2); do a3 <- PCD.Gen.SrcTables.additional_args keq (d_consts st2);
    OK (map (fun p => AName (fst p) (snd p)) a0 ++ map (fun p => AVarname (fst p) (snd p)) a1 ++ map (fun p => ACellvar (fst p) (snd p)) a2 ++ map (fun p => AConst (fst p) (snd p)) a3).
