Module Norm.
Definition norm_arg (nk : const -> const) (a : arg_ const) : arg_ const :=
  match a with
  | AConst k ov => AConst (nk k) None
  | AName s ov => AName s None
  | AVarname s ov => AVarname s None
  | ACellvar s ov => ACellvar s None
  | AFreevar s => AFreevar s
  | AJump t r => AJump t r
  | ANoArg z => ANoArg 0
  | AInt z => AInt z
  end.
Definition norm_instr (nk : const -> const) (i : instr_ const) : instr_ const :=
  mkInstr (i_name i) (norm_arg nk (i_arg i)) None (i_line i) [].
Definition norm_cd (nk : const -> const) (d : code_data_ const) : code_data_ const :=
  mkCD (map (map (norm_instr nk)) (cd_blocks d)) (cd_filename d) (cd_firstline d) (cd_name d) (cd_stacksize d) (cd_type d) (cd_freevars d) (cd_future_annotations d) false None [].
End Norm.
