Module AssembleStep.
Record st := mk_st { v_offset : Z; v_arg_value : Z; v_n_args : Z; v_bytes_ : list Z; v_lines : odict (option Z); v_adds : odict (list Z) }.
Definition set_v_offset (s : st) (x : _) : st := mk_st x (v_arg_value s) (v_n_args s) (v_bytes_ s) (v_lines s) (v_adds s).
Definition set_v_arg_value (s : st) (x : _) : st := mk_st (v_offset s) x (v_n_args s) (v_bytes_ s) (v_lines s) (v_adds s).
Definition set_v_n_args (s : st) (x : _) : st := mk_st (v_offset s) (v_arg_value s) x (v_bytes_ s) (v_lines s) (v_adds s).
Definition set_v_bytes_ (s : st) (x : _) : st := mk_st (v_offset s) (v_arg_value s) (v_n_args s) x (v_lines s) (v_adds s).
Definition set_v_lines (s : st) (x : _) : st := mk_st (v_offset s) (v_arg_value s) (v_n_args s) (v_bytes_ s) x (v_adds s).
Definition set_v_adds (s : st) (x : _) : st := mk_st (v_offset s) (v_arg_value s) (v_n_args s) (v_bytes_ s) (v_lines s) x.
Definition init : st := mk_st 0 0 0 [] [] [].
Definition step (opcode_of : res Z) (EXTENDED_ARG : Z) (line : option Z) (lineoffs : list Z) (nargs : option Z) (v : Z) (s : st) : res st :=
  (bind (OK (set_v_offset s (zlen (v_bytes_ s)))) (fun s => (bind (OK (set_v_lines s (oset (v_lines s) (v_offset s) line))) (fun s => (bind (if (match lineoffs with [] => false | _ => true end) then (OK (set_v_adds s (oset (v_adds s) (v_offset s) lineoffs))) else (OK s)) (fun s => (bind (OK (set_v_arg_value s v)) (fun s => (bind (OK (set_v_n_args s (match nargs with Some n__ => if n__ =? 0 then (PCD.Gen.Src.instrsize (v_arg_value s)) else n__ | None => (PCD.Gen.Src.instrsize (v_arg_value s)) end))) (fun s => (bind (foldM (fun s i => (OK (set_v_lines s (oset (v_lines s) (Z.add (v_offset s) (Z.mul i (2))) line)))) (zrange (1) (v_n_args s)) s) (fun s => (foldM (fun s i => (bind (bind (ite_r (OK (Z.eqb i (0))) opcode_of (OK EXTENDED_ARG)) (fun x1 => (OK (set_v_bytes_ s (v_bytes_ s ++ [x1]))))) (fun s => (OK (set_v_bytes_ s (v_bytes_ s ++ [(Z.land (Z.shiftr (v_arg_value s) (Z.mul (8) i)) (255))])))))) (rev (zrange 0 (v_n_args s))) s))))))))))))).
End AssembleStep.
