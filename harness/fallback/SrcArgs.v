Module Args.
Definition args_from_input (in_argcount in_posonlyargcount in_kwonlyargcount : Z) (in_varnames : list str) (in_flags_data : list flag) : res (args * list flag) :=
  let argcount := in_argcount in
  let posonlyargcount := in_posonlyargcount in
  let kwonlyargcount := in_kwonlyargcount in
  let varnames := in_varnames in
  let flags_data := in_flags_data in
  let positional_only := (py_slice_to posonlyargcount varnames) in
  let varnames1 := (py_slice_from posonlyargcount varnames) in
  let pos_or_kw_count := (argcount - posonlyargcount) in
  let positional_or_keyword := (py_slice_to pos_or_kw_count varnames1) in
  let varnames2 := (py_slice_from pos_or_kw_count varnames1) in
  let keyword_only := (py_slice_to kwonlyargcount varnames2) in
  let varnames3 := (py_slice_from kwonlyargcount varnames2) in
  bind (if (flag_mem VARARGS flags_data) then
  bind (name_at varnames3 (0)) (fun var_positional_ => let var_positional := Some var_positional_ in
  let varnames4 := (py_slice_from (1) varnames3) in
  let flags_data1 := (flag_remove VARARGS flags_data) in
  OK (flags_data1, var_positional, varnames4))
  else let var_positional1 := None in
  OK (flags_data, var_positional1, varnames3)) (fun '(flags_data2, var_positional2, varnames5) =>
  bind (if (flag_mem VARKEYWORDS flags_data2) then
  bind (name_at varnames5 (0)) (fun var_keyword_ => let var_keyword := Some var_keyword_ in
  let varnames6 := (py_slice_from (1) varnames5) in
  let flags_data3 := (flag_remove VARKEYWORDS flags_data2) in
  OK (flags_data3, var_keyword, varnames6))
  else let var_keyword1 := None in
  OK (flags_data2, var_keyword1, varnames5)) (fun '(flags_data4, var_keyword2, varnames7) =>
  OK (Build_args positional_only positional_or_keyword var_positional2 keyword_only var_keyword2, flags_data4))).
Definition args_to_varnames (args : args) : list str :=
  ((a_posonly args) ++ (a_poskw args) ++ (a_kwonly args) ++ (if is_some (a_varpos args) then opt_list (a_varpos args) else []) ++ (if is_some (a_varkw args) then opt_list (a_varkw args) else [])).
Definition args_to_input (args : args) (flags_data : list flag) : Z * Z * Z * list str * list flag :=
  let flags_data2 := (if (is_some (a_varpos args)) then
  let flags_data1 := (flag_add VARARGS flags_data) in
  (flags_data1)
  else (flags_data)) in
  let flags_data4 := (if (is_some (a_varkw args)) then
  let flags_data3 := (flag_add VARKEYWORDS flags_data2) in
  (flags_data3)
  else (flags_data2)) in
  (((zlen (a_posonly args)) + (zlen (a_poskw args))), (zlen (a_posonly args)), (zlen (a_kwonly args)), (args_to_varnames args), flags_data4).
Definition args_to_parameters (args : args) : list (str * Z) :=
  od_of_pairs ((map (fun n => (n, K_POSONLY)) (a_posonly args)) ++ (map (fun n => (n, K_POSKW)) (a_poskw args)) ++ (if is_some (a_varpos args) then map (fun n => (n, K_VARPOS)) (opt_list (a_varpos args)) else []) ++ (map (fun n => (n, K_KWONLY)) (a_kwonly args)) ++ (if is_some (a_varkw args) then map (fun n => (n, K_VARKW)) (opt_list (a_varkw args)) else [])).
End Args.
