Module DecodeStep.
Record st := mk_st { v_n_args_override : option Z; v_targets_set : list Z }.
Definition set_v_n_args_override (s : st) (x : _) : st := mk_st x (v_targets_set s).
Definition set_v_targets_set (s : st) (x : _) : st := mk_st (v_n_args_override s) x.
Definition init : st := mk_st None [].
Definition size_and_targets (is_jump : bool) (jump_target n_args a offset next_offset : Z) (s : st) : res st :=
  (if is_jump then (bind (OK (set_v_targets_set s (jump_target :: v_targets_set s))) (fun s => (OK (set_v_n_args_override s (if (Z.gtb n_args (1)) then (Some n_args) else None))))) else (OK (set_v_n_args_override s None))).
(* the offset passed to to_arg, against which relative jumps are resolved *)
Definition jump_base (n_args offset next_offset : Z) : Z := next_offset.
End DecodeStep.
