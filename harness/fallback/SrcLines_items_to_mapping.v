Module ItemsToMappingLt.
Record st := mk_st { v_bytecode_offset : Z; v_current_item_offset : Z; v_current_line : Z; v_last_bytecode_offset : Z; v_offset_to_additional_line_offsets : odict (list Z); v_offset_to_line : odict (option Z) }.
Definition set_v_bytecode_offset (s : st) (x : _) : st := mk_st x (v_current_item_offset s) (v_current_line s) (v_last_bytecode_offset s) (v_offset_to_additional_line_offsets s) (v_offset_to_line s).
Definition set_v_current_item_offset (s : st) (x : _) : st := mk_st (v_bytecode_offset s) x (v_current_line s) (v_last_bytecode_offset s) (v_offset_to_additional_line_offsets s) (v_offset_to_line s).
Definition set_v_current_line (s : st) (x : _) : st := mk_st (v_bytecode_offset s) (v_current_item_offset s) x (v_last_bytecode_offset s) (v_offset_to_additional_line_offsets s) (v_offset_to_line s).
Definition set_v_last_bytecode_offset (s : st) (x : _) : st := mk_st (v_bytecode_offset s) (v_current_item_offset s) (v_current_line s) x (v_offset_to_additional_line_offsets s) (v_offset_to_line s).
Definition set_v_offset_to_additional_line_offsets (s : st) (x : _) : st := mk_st (v_bytecode_offset s) (v_current_item_offset s) (v_current_line s) (v_last_bytecode_offset s) x (v_offset_to_line s).
Definition set_v_offset_to_line (s : st) (x : _) : st := mk_st (v_bytecode_offset s) (v_current_item_offset s) (v_current_line s) (v_last_bytecode_offset s) (v_offset_to_additional_line_offsets s) x.
Definition init : st := mk_st (0) (0) (0) (0) [] [].
Definition loop1_body (fuel : nat) (items : list (option Z * Z)) (max_offset : Z) (item : (option Z * Z)) (s : st) (i : Z) : res st :=
  (OK (set_v_offset_to_line s (oset (v_offset_to_line s) i (if (is_none (fst item)) then None else (Some (v_current_line s)))))).
Definition loop2_body (fuel : nat) (items : list (option Z * Z)) (max_offset : Z) (s : st) (item : option Z * Z) : res st :=
  (bind (if (negb (is_none (fst item))) then (bind (bind (un_o (fst item)) (fun x1 => (OK (Z.add (v_current_line s) x1)))) (fun x2 => (OK (set_v_current_line s x2)))) else (OK s)) (fun s => (bind (foldM (loop1_body fuel items max_offset item) (range2 (v_bytecode_offset s) (Z.add (v_bytecode_offset s) (snd item))) s) (fun s => (OK (set_v_bytecode_offset s (Z.add (v_bytecode_offset s) (snd item)))))))).
Definition body (fuel : nat) (items : list (option Z * Z)) (max_offset : Z) (s : st) : res st :=
  (foldM (loop2_body fuel items max_offset) items s).
Definition run (fuel : nat) (items : list (option Z * Z)) (max_offset : Z) : res (odict (option Z) * odict (list Z)) :=
  bind (body fuel items max_offset init) (fun s => OK (v_offset_to_line s, [])).
End ItemsToMappingLt.
Module ItemsToMappingLnotab.
Record st := mk_st { v_bytecode_offset : Z; v_current_item_offset : Z; v_current_line : Z; v_last_bytecode_offset : Z; v_line_offset : option Z; v_offset_to_additional_line_offsets : odict (list Z); v_offset_to_line : odict (option Z) }.
Definition set_v_bytecode_offset (s : st) (x : _) : st := mk_st x (v_current_item_offset s) (v_current_line s) (v_last_bytecode_offset s) (v_line_offset s) (v_offset_to_additional_line_offsets s) (v_offset_to_line s).
Definition set_v_current_item_offset (s : st) (x : _) : st := mk_st (v_bytecode_offset s) x (v_current_line s) (v_last_bytecode_offset s) (v_line_offset s) (v_offset_to_additional_line_offsets s) (v_offset_to_line s).
Definition set_v_current_line (s : st) (x : _) : st := mk_st (v_bytecode_offset s) (v_current_item_offset s) x (v_last_bytecode_offset s) (v_line_offset s) (v_offset_to_additional_line_offsets s) (v_offset_to_line s).
Definition set_v_last_bytecode_offset (s : st) (x : _) : st := mk_st (v_bytecode_offset s) (v_current_item_offset s) (v_current_line s) x (v_line_offset s) (v_offset_to_additional_line_offsets s) (v_offset_to_line s).
Definition set_v_line_offset (s : st) (x : _) : st := mk_st (v_bytecode_offset s) (v_current_item_offset s) (v_current_line s) (v_last_bytecode_offset s) x (v_offset_to_additional_line_offsets s) (v_offset_to_line s).
Definition set_v_offset_to_additional_line_offsets (s : st) (x : _) : st := mk_st (v_bytecode_offset s) (v_current_item_offset s) (v_current_line s) (v_last_bytecode_offset s) (v_line_offset s) x (v_offset_to_line s).
Definition set_v_offset_to_line (s : st) (x : _) : st := mk_st (v_bytecode_offset s) (v_current_item_offset s) (v_current_line s) (v_last_bytecode_offset s) (v_line_offset s) (v_offset_to_additional_line_offsets s) x.
Definition init : st := mk_st (0) (0) (0) (0) None [] [].
Definition while1_cond (fuel : nat) (items : list (option Z * Z)) (max_offset : Z) (current_item : (option Z * Z)) (s : st) : res bool :=
  (and_r (OK (Z.ltb (v_current_item_offset s) (zlen items))) (bind (bind (name_at items (v_current_item_offset s)) (fun o__ => OK (snd o__))) (fun x3 => (OK (Z.eqb x3 (0)))))).
Definition while1_body (fuel : nat) (items : list (option Z * Z)) (max_offset : Z) (current_item : (option Z * Z)) (s : st) : res st :=
  (bind (bind (bind (name_at items (v_current_item_offset s)) (fun o__ => OK (fst o__))) (fun x4 => (OK (set_v_line_offset s x4)))) (fun s => (bind (bind (un_o (v_line_offset s)) (fun x5 => (OK (set_v_offset_to_additional_line_offsets s (adds_append (v_offset_to_additional_line_offsets s) (v_bytecode_offset s) x5))))) (fun s => (bind (OK (set_v_current_item_offset s (Z.add (v_current_item_offset s) (1)))) (fun s => (bind (bind (un_o (v_line_offset s)) (fun x6 => (OK (Z.add (v_current_line s) x6)))) (fun x7 => (OK (set_v_current_line s x7)))))))))).
Definition while2_cond (fuel : nat) (items : list (option Z * Z)) (max_offset : Z) (s : st) : res bool :=
  (OK ((Z.ltb (v_bytecode_offset s) max_offset) || (Z.ltb (v_current_item_offset s) (zlen items)))).
Definition while2_body (fuel : nat) (items : list (option Z * Z)) (max_offset : Z) (s : st) : res st :=
  (bind (if (Z.ltb (v_current_item_offset s) (zlen items)) then (bind (name_at items (v_current_item_offset s)) (fun current_item => (bind (if (Z.eqb (Z.sub (v_bytecode_offset s) (v_last_bytecode_offset s)) (snd current_item)) then (bind (bind (bind (un_o (fst current_item)) (fun x1 => (OK (Z.add (v_current_line s) x1)))) (fun x2 => (OK (set_v_current_line s x2)))) (fun s => (bind (OK (set_v_current_item_offset s (Z.add (v_current_item_offset s) (1)))) (fun s => (bind (OK (set_v_last_bytecode_offset s (v_bytecode_offset s))) (fun s => (if (opt_eqz (fst current_item) (0)) then (OK (set_v_offset_to_additional_line_offsets s (adds_append (v_offset_to_additional_line_offsets s) (v_bytecode_offset s) (0)))) else (OK s)))))))) else (OK s)) (fun s => (while_ fuel (while1_cond fuel items max_offset current_item) (while1_body fuel items max_offset current_item) s))))) else (OK s)) (fun s => (bind (OK (set_v_offset_to_line s (oset (v_offset_to_line s) (v_bytecode_offset s) (Some (v_current_line s))))) (fun s => (OK (set_v_bytecode_offset s (Z.add (v_bytecode_offset s) (2)))))))).
Definition body (fuel : nat) (items : list (option Z * Z)) (max_offset : Z) (s : st) : res st :=
  (while_ fuel (while2_cond fuel items max_offset) (while2_body fuel items max_offset) s).
Definition run (fuel : nat) (items : list (option Z * Z)) (max_offset : Z) : res (odict (option Z) * odict (list Z)) :=
  bind (body fuel items max_offset init) (fun s => OK (v_offset_to_line s, v_offset_to_additional_line_offsets s)).
End ItemsToMappingLnotab.
