Definition add_additional_line (m : linemap) (line : option Z) (offs : list Z) (len_code : Z) : linemap :=
  (let m := (let m := m in {| lm_lines := oset (lm_lines m) len_code line; lm_adds := lm_adds m |}) in {| lm_lines := lm_lines m; lm_adds := oset (lm_adds m) len_code offs |}).
