Definition iter_code_data (d : code_data) : res (list code_data) :=
  do ks <- blocks_to_constants key_eqb is_str_const (KInner INone) (fun s => KInner (IStr s)) (cd_blocks d) (cd_addargs d) (cd_type d);
  OK (flat_map (fun k => match k with KCode x => [x] | KInner _ => [] end) ks).
Fixpoint all_code_data (fuel : nat) (d : code_data) : res (list code_data) :=
  match fuel with O => Err OutOfFuel | S f =>
    do subs <- iter_code_data d;
    do ls <- mapM (all_code_data f) subs;
    OK ([d] ++ concat ls) end.
