Definition bytes_to_items (b : list Z) : res (list eitem) :=
  mapM (fun i : Z => do x0__ <- (byte_at b i); do x1__ <- (do y__ <- (byte_at b (i + (1))); OK (from_one_byte true y__)); OK (x1__, x0__)) (zrange_step (0) (zlen b) (2)).
