Module CollapseItems.
Definition to_citem (is_linetable : bool) (i : Z * Z) : res (option Z * Z) := (OK ((if (is_linetable && (Z.eqb (fst i) (- (128)))) then None else (Some (fst i))), (snd i))).
Definition bytecode_offset_split (is_linetable : bool) (prev_item item : option Z * Z) : res bool :=
  (OK ((opt_eqz (if is_linetable then (fst item) else (fst prev_item)) (0)) && (Z.geb (snd prev_item) (if is_linetable then (254) else (255))) && (negb (Z.eqb (snd item) (0))) && (negb (is_none (fst prev_item))))).
Definition line_offset_split (is_linetable : bool) (prev_item item : option Z * Z) : res bool :=
  (and_r (OK (Z.eqb (if is_linetable then (snd prev_item) else (snd item)) (0))) (and_r (OK (negb (is_none (fst prev_item)))) (and_r (or_r (bind (un_o (fst prev_item)) (fun x3 => (OK (Z.geb x3 (127))))) (bind (un_o (fst prev_item)) (fun x4 => (OK (Z.leb x4 (if is_linetable then (- (127)) else (- (128)))))))) (and_r (OK (negb (is_none (fst item)))) (ite_r (bind (un_o (fst prev_item)) (fun x5 => (OK (Z.gtb x5 (0))))) (bind (un_o (fst item)) (fun x6 => (OK (Z.gtb x6 (0))))) (bind (un_o (fst item)) (fun x7 => (OK (Z.ltb x7 (0)))))))))).
Record st := mk_st { v_prev_item_line_offset : option Z; v_prev_item_bytecode_offset : Z }.
Definition set_v_prev_item_line_offset (s : st) (x : _) : st := mk_st x (v_prev_item_bytecode_offset s).
Definition set_v_prev_item_bytecode_offset (s : st) (x : _) : st := mk_st (v_prev_item_line_offset s) x.
Definition init : st := mk_st None 0.
Definition merge (is_linetable : bool) (item : option Z * Z) (s : st) : res st :=
  (bind (if (truthy_o (fst item)) then (bind (bind (bind (un_o (v_prev_item_line_offset s)) (fun x1 => (bind (un_o (fst item)) (fun x2 => (OK (Z.add x1 x2)))))) (fun x3 => (OK (Some x3)))) (fun x4 => (OK (set_v_prev_item_line_offset s x4)))) else (OK s)) (fun s => (OK (set_v_prev_item_bytecode_offset s (Z.add (v_prev_item_bytecode_offset s) (snd item)))))).
Definition merge_items (is_linetable : bool) (prev_item item : option Z * Z) : res (option Z * Z) :=
  bind (merge is_linetable item (mk_st (fst prev_item) (snd prev_item))) (fun s => OK (v_prev_item_line_offset s, v_prev_item_bytecode_offset s)).
End CollapseItems.
