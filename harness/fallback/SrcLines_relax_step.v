Module RelaxPass1.
Record st := mk_st { v_current_instruction_offset : Z; v_arg_value : Z; v_n_instructions : Z }.
Definition set_v_current_instruction_offset (s : st) (x : _) : st := mk_st x (v_arg_value s) (v_n_instructions s).
Definition set_v_arg_value (s : st) (x : _) : st := mk_st (v_current_instruction_offset s) x (v_n_instructions s).
Definition set_v_n_instructions (s : st) (x : _) : st := mk_st (v_current_instruction_offset s) (v_arg_value s) x.
Definition init : st := mk_st 0 0 0.
Definition step (nargs : option Z) (v : Z) (v310 is_jump : bool) (target_offset : option Z) (relative : bool) (s : st) : res st :=
  (bind (OK (set_v_arg_value s v)) (fun s => (bind (OK (set_v_n_instructions s (match nargs with Some n__ => if n__ =? 0 then (PCD.Gen.Src.instrsize (v_arg_value s)) else n__ | None => (PCD.Gen.Src.instrsize (v_arg_value s)) end))) (fun s => (OK (set_v_current_instruction_offset s (Z.add (v_current_instruction_offset s) (v_n_instructions s)))))))).
End RelaxPass1.
Module RelaxPass2.
Record st := mk_st { v_current_instruction_offset : Z; v_arg_value : Z; v_n_instructions : Z; v_changed_instruction_lengths : bool; v_target_instruction_offset : Z; v_multiplier : Z; v_new_arg_value : Z; v_out_arg : option Z }.
Definition set_v_current_instruction_offset (s : st) (x : _) : st := mk_st x (v_arg_value s) (v_n_instructions s) (v_changed_instruction_lengths s) (v_target_instruction_offset s) (v_multiplier s) (v_new_arg_value s) (v_out_arg s).
Definition set_v_arg_value (s : st) (x : _) : st := mk_st (v_current_instruction_offset s) x (v_n_instructions s) (v_changed_instruction_lengths s) (v_target_instruction_offset s) (v_multiplier s) (v_new_arg_value s) (v_out_arg s).
Definition set_v_n_instructions (s : st) (x : _) : st := mk_st (v_current_instruction_offset s) (v_arg_value s) x (v_changed_instruction_lengths s) (v_target_instruction_offset s) (v_multiplier s) (v_new_arg_value s) (v_out_arg s).
Definition set_v_changed_instruction_lengths (s : st) (x : _) : st := mk_st (v_current_instruction_offset s) (v_arg_value s) (v_n_instructions s) x (v_target_instruction_offset s) (v_multiplier s) (v_new_arg_value s) (v_out_arg s).
Definition set_v_target_instruction_offset (s : st) (x : _) : st := mk_st (v_current_instruction_offset s) (v_arg_value s) (v_n_instructions s) (v_changed_instruction_lengths s) x (v_multiplier s) (v_new_arg_value s) (v_out_arg s).
Definition set_v_multiplier (s : st) (x : _) : st := mk_st (v_current_instruction_offset s) (v_arg_value s) (v_n_instructions s) (v_changed_instruction_lengths s) (v_target_instruction_offset s) x (v_new_arg_value s) (v_out_arg s).
Definition set_v_new_arg_value (s : st) (x : _) : st := mk_st (v_current_instruction_offset s) (v_arg_value s) (v_n_instructions s) (v_changed_instruction_lengths s) (v_target_instruction_offset s) (v_multiplier s) x (v_out_arg s).
Definition set_v_out_arg (s : st) (x : _) : st := mk_st (v_current_instruction_offset s) (v_arg_value s) (v_n_instructions s) (v_changed_instruction_lengths s) (v_target_instruction_offset s) (v_multiplier s) (v_new_arg_value s) x.
Definition init : st := mk_st 0 0 0 false 0 0 0 None.
Definition step (nargs : option Z) (v : Z) (v310 is_jump : bool) (target_offset : option Z) (relative : bool) (s : st) : res st :=
  (bind (OK (set_v_arg_value s v)) (fun s => (bind (OK (set_v_n_instructions s (match nargs with Some n__ => if n__ =? 0 then (PCD.Gen.Src.instrsize (v_arg_value s)) else n__ | None => (PCD.Gen.Src.instrsize (v_arg_value s)) end))) (fun s => (bind (OK (set_v_current_instruction_offset s (Z.add (v_current_instruction_offset s) (v_n_instructions s)))) (fun s => (if is_jump then (bind (bind (match target_offset with Some x => OK x | None => Err KeyError end) (fun x1 => (OK (set_v_target_instruction_offset s x1)))) (fun s => (bind (OK (set_v_multiplier s (if v310 then (1) else (2)))) (fun s => (bind (if relative then (OK (set_v_new_arg_value s (Z.mul (Z.sub (v_target_instruction_offset s) (v_current_instruction_offset s)) (v_multiplier s)))) else (OK (set_v_new_arg_value s (Z.mul (v_multiplier s) (v_target_instruction_offset s))))) (fun s => (bind (if ((negb (truthy_o nargs)) && (negb (Z.eqb (v_n_instructions s) (PCD.Gen.Src.instrsize (v_new_arg_value s))))) then (OK (set_v_changed_instruction_lengths s true)) else (OK s)) (fun s => (OK (set_v_out_arg s (Some (v_new_arg_value s)))))))))))) else (OK s)))))))).
End RelaxPass2.
