Section FromArg.
  Context {C : Type} (keq : C -> C -> bool) (is_str : C -> bool) (none_c : C).
  Definition from_arg (a : arg_ C) (block_type : option function) (freevars : list str) (st : encstate C)
    : res (Z * encstate C) :=
    match a with
    | ANoArg z => OK (z, st)
    | AJump t r => OK (1, st)
    | AName s ov => match fa_add str_eqb (e_names st) s ov with OK (i, t) => OK (i, mkEnc t (e_varnames st) (e_cellvars st) (e_consts st)) | Err e => Err e end
    | AVarname s ov => match fa_add str_eqb (e_varnames st) s ov with OK (i, t) => OK (i, mkEnc (e_names st) t (e_cellvars st) (e_consts st)) | Err e => Err e end
    | AFreevar s => match index_of str_eqb s freevars with Some i => OK (i, st) | None => Err ValueError end
    | ACellvar s ov => match fa_add str_eqb (e_cellvars st) s ov with OK (i, t) => OK (i, mkEnc (e_names st) (e_varnames st) t (e_consts st)) | Err e => Err e end
    | AConst k ov => match (if docstring_is_none block_type && (match fa_items (e_consts st) with [] => true | _ => false end) && is_str k && negb (opt_is_some ov) then fa_setitem keq (e_consts st) 0 none_c else OK (e_consts st)) with
      | Err e => Err e
      | OK cs => match fa_add keq cs k ov with OK (i, t) => OK (i, mkEnc (e_names st) (e_varnames st) (e_cellvars st) t) | Err e => Err e end
      end
    | AInt z => OK (z, st)
    end.
End FromArg.
