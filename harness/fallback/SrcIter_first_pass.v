  Definition first_pass (blocks : list (list (instr_ C))) (additional_args : list (arg_ C)) (freevars : list str) (block_type : option function)
      (st0 : encstate C) : res (list Z * encstate C) :=
    do r <- foldM (fun acc block => foldM (fun (acc : list Z * encstate C) instruction =>
              do v <- PCD.Gen.SrcFromArg.from_arg keq is_str none_c (i_arg instruction) block_type freevars (snd acc); OK (fst acc ++ [fst v], snd v)) block acc)
            blocks ([], st0);
    do st2 <- foldM (fun st arg => do v <- PCD.Gen.SrcFromArg.from_arg keq is_str none_c arg block_type freevars st; OK (snd v)) additional_args (snd r);
    OK (map (fun iv : instr_ C * Z => match i_arg (fst iv) with AFreevar _ => snd iv + zlen (fa_items (e_cellvars st2)) | _ => snd iv end) (combine (concat blocks) (fst r)), st2).
