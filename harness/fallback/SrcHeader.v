Module Header.
Definition kinds_of (names : list flag) : list (flag * fntype) :=
  filter (fun ft : flag * fntype => flag_mem (fst ft) names) PCD.Model.CodeData.FN_TYPE_FLAGS.
Definition header (a : args) (doc0 : option str) (nofree_expected : bool) (fl0 : list flag)
  : res (option function * bool * bool) :=
  if negb (Bool.eqb (flag_mem NOFREE fl0) nofree_expected) then Err AssertionError else
  let fl1 := fold_left (fun acc f => flag_remove f acc) [NOFREE] fl0 in
  let v_annotations := flag_mem F_annotations fl1 in
  let fl2 := fold_left (fun acc f => flag_remove f acc) [F_annotations] fl1 in
  let v_nested := flag_mem NESTED fl2 in
  let fl3 := fold_left (fun acc f => flag_remove f acc) [NESTED] fl2 in
  let v_fn_flags := filter (fun f => flag_mem f fl3) PCD.Gen.Src.FN_FLAGS in
  bind (if zlen v_fn_flags =? 0 then
  if negb (args_len a =? 0) then Err ValueError else
  OK (None, fl3)
  else if zlen v_fn_flags =? 2 then
  let v_fn_tp_flags := filter (fun ft : flag * fntype => flag_mem (fst ft) fl3) (kinds_of PCD.Gen.Src.FN_TYPE_FLAGS) in
  if negb ((zlen v_fn_tp_flags =? 0) || (zlen v_fn_tp_flags =? 1)) then Err AssertionError else
  let v_fn_tp := hd_error v_fn_tp_flags in
  let fl4 := match v_fn_tp with Some ft => flag_remove (fst ft) fl3 | None => fl3 end in
  let fl5 := fold_left (fun acc f => flag_remove f acc) PCD.Gen.Src.FN_FLAGS fl4 in
  OK ((Some (mkFunction a doc0 (option_map snd v_fn_tp))), fl5)
  else Err ValueError) (fun '(v_block_type, fl103) =>
  match fl103 with _ :: _ => Err ValueError | [] =>
  OK (v_block_type, v_annotations, v_nested) end).
End Header.
Module EncodeHeader.
Definition header (ty : option function) (varnames : list str) (freevars_empty cellvars_empty future_annotations nested : bool)
  : res (Z * Z * Z * list flag) :=
  let fl0 := @nil flag in
  let fl1 := match ty with Some f => (match fn_type f with Some t => flag_add (fntype_flag t) (flags_union fl0 PCD.Gen.Src.FN_FLAGS) | None => flags_union fl0 PCD.Gen.Src.FN_FLAGS end) | None => fl0 end in
  bind (match ty with
    | Some f => let '(ac, pc, kc, vn, fl) := PCD.Gen.SrcArgs.Args.args_to_input (fn_args f) fl1 in
        if list_eqb str_eqb (take (zlen vn) varnames) vn then OK (ac, pc, kc, fl) else Err AssertionError
    | None => OK (0, 0, 0, fl1)
    end) (fun '(argcount, posonly, kwonly, fl2) =>
  let fl3 := if (freevars_empty && cellvars_empty) then flag_add NOFREE fl2 else fl2 in
  let fl4 := if future_annotations then flag_add F_annotations fl3 else fl3 in
  let fl5 := if nested then flag_add NESTED fl4 else fl4 in
  OK (argcount, posonly, kwonly, fl5)).
End EncodeHeader.
