Definition items_to_bytes (items : list eitem) : res (list Z) :=
  bytes_of (concat (map (fun item : eitem => [(snd item); (Z.land (fst item) (255))]) items)).
