Module MappingToItemsLt.
Record st := mk_st { v_last_section_line_number : Z; v_section_bytecode_offset : option Z; v_section_line_number : option Z; v_section_line_number_diff : option Z; v_switching_sections : bool; v_bytecode_offset : option Z; v_items : list (option Z * Z) }.
Definition set_v_last_section_line_number (s : st) (x : _) : st := mk_st x (v_section_bytecode_offset s) (v_section_line_number s) (v_section_line_number_diff s) (v_switching_sections s) (v_bytecode_offset s) (v_items s).
Definition set_v_section_bytecode_offset (s : st) (x : _) : st := mk_st (v_last_section_line_number s) x (v_section_line_number s) (v_section_line_number_diff s) (v_switching_sections s) (v_bytecode_offset s) (v_items s).
Definition set_v_section_line_number (s : st) (x : _) : st := mk_st (v_last_section_line_number s) (v_section_bytecode_offset s) x (v_section_line_number_diff s) (v_switching_sections s) (v_bytecode_offset s) (v_items s).
Definition set_v_section_line_number_diff (s : st) (x : _) : st := mk_st (v_last_section_line_number s) (v_section_bytecode_offset s) (v_section_line_number s) x (v_switching_sections s) (v_bytecode_offset s) (v_items s).
Definition set_v_switching_sections (s : st) (x : _) : st := mk_st (v_last_section_line_number s) (v_section_bytecode_offset s) (v_section_line_number s) (v_section_line_number_diff s) x (v_bytecode_offset s) (v_items s).
Definition set_v_bytecode_offset (s : st) (x : _) : st := mk_st (v_last_section_line_number s) (v_section_bytecode_offset s) (v_section_line_number s) (v_section_line_number_diff s) (v_switching_sections s) x (v_items s).
Definition set_v_items (s : st) (x : _) : st := mk_st (v_last_section_line_number s) (v_section_bytecode_offset s) (v_section_line_number s) (v_section_line_number_diff s) (v_switching_sections s) (v_bytecode_offset s) x.
Definition init : st := mk_st 0 None None None false None [].
Definition loop1_body (mapping : linemap) (s : st) (kv : Z * option Z) : res st :=
  let '(bytecode_offset, line_number) := kv in (bind (OK (set_v_bytecode_offset s (Some bytecode_offset))) (fun s => (bind (if (is_none (v_section_bytecode_offset s)) then (bind (OK (set_v_section_bytecode_offset s (Some bytecode_offset))) (fun s => (bind (OK (set_v_section_line_number s line_number)) (fun s => (bind (if (negb (is_none line_number)) then (bind (un_o line_number) (fun x1 => (OK (set_v_last_section_line_number s x1)))) else (OK s)) (fun s => (OK (set_v_section_line_number_diff s line_number)))))))) else (OK s)) (fun s => (bind (OK (set_v_switching_sections s (negb (opt_eqo line_number (v_section_line_number s))))) (fun s => (if (v_switching_sections s) then (bind (bind (bind (bind (un_o (v_section_bytecode_offset s)) (fun x2 => (OK (Z.sub bytecode_offset x2)))) (fun x3 => (OK ((v_section_line_number_diff s), x3)))) (fun x4 => (OK (set_v_items s (v_items s ++ [x4]))))) (fun s => (bind (OK (set_v_section_bytecode_offset s (Some bytecode_offset))) (fun s => (bind (bind (ite_r (OK (is_none line_number)) (OK None) (bind (bind (un_o line_number) (fun x5 => (OK (Z.sub x5 (v_last_section_line_number s))))) (fun x6 => (OK (Some x6))))) (fun x7 => (OK (set_v_section_line_number_diff s x7)))) (fun s => (bind (OK (set_v_section_line_number s line_number)) (fun s => (if (negb (is_none line_number)) then (bind (un_o line_number) (fun x8 => (OK (set_v_last_section_line_number s x8)))) else (OK s)))))))))) else (OK s)))))))).
Definition pre (mapping : linemap) (s : st) : res st :=
  (bind (OK (set_v_section_bytecode_offset s None)) (fun s => (bind (OK (set_v_section_line_number s None)) (fun s => (bind (OK (set_v_last_section_line_number s (0))) (fun s => (OK (set_v_section_line_number_diff s None)))))))).
Definition loop (mapping : linemap) (s : st) : res st :=
  (foldM (loop1_body mapping) (lm_lines mapping) s).
Definition post (mapping : linemap) (s : st) : res st :=
  (bind (bind (bind (bound_z (v_bytecode_offset s)) (fun x9 => (OK false))) (fun x10 => (OK (negb x10)))) (fun c => if c then (bind (bind (bind (bind (bound_z (v_bytecode_offset s)) (fun x11 => (OK (Z.add x11 (2))))) (fun x12 => (bind (un_o (v_section_bytecode_offset s)) (fun x13 => (OK (Z.sub x12 x13)))))) (fun x14 => (OK ((v_section_line_number_diff s), x14)))) (fun x15 => (OK (set_v_items s (v_items s ++ [x15]))))) else (OK s))).
Definition run (mapping : linemap) : res (list (option Z * Z)) :=
  bind (pre mapping init) (fun s => bind (loop mapping s) (fun s => bind (post mapping s) (fun s => OK (v_items s)))).
End MappingToItemsLt.
Module MappingToItemsLnotab.
Record st := mk_st { v_additional_line_offsets : list Z; v_all_line_offsets : list Z; v_first_line_offset : Z; v_last_bytecode_offset : Z; v_last_line_number : Z; v_items : list (option Z * Z) }.
Definition set_v_additional_line_offsets (s : st) (x : _) : st := mk_st x (v_all_line_offsets s) (v_first_line_offset s) (v_last_bytecode_offset s) (v_last_line_number s) (v_items s).
Definition set_v_all_line_offsets (s : st) (x : _) : st := mk_st (v_additional_line_offsets s) x (v_first_line_offset s) (v_last_bytecode_offset s) (v_last_line_number s) (v_items s).
Definition set_v_first_line_offset (s : st) (x : _) : st := mk_st (v_additional_line_offsets s) (v_all_line_offsets s) x (v_last_bytecode_offset s) (v_last_line_number s) (v_items s).
Definition set_v_last_bytecode_offset (s : st) (x : _) : st := mk_st (v_additional_line_offsets s) (v_all_line_offsets s) (v_first_line_offset s) x (v_last_line_number s) (v_items s).
Definition set_v_last_line_number (s : st) (x : _) : st := mk_st (v_additional_line_offsets s) (v_all_line_offsets s) (v_first_line_offset s) (v_last_bytecode_offset s) x (v_items s).
Definition set_v_items (s : st) (x : _) : st := mk_st (v_additional_line_offsets s) (v_all_line_offsets s) (v_first_line_offset s) (v_last_bytecode_offset s) (v_last_line_number s) x.
Definition init : st := mk_st [] [] 0 0 0 [].
Definition loop1_body (mapping : linemap) (bytecode_offset : Z) (line_number : option Z) (s : st) (line_offset : Z) : res st :=
  (bind (OK (set_v_items s (v_items s ++ [((Some line_offset), (Z.sub bytecode_offset (v_last_bytecode_offset s)))]))) (fun s => (OK (set_v_last_bytecode_offset s bytecode_offset)))).
Definition loop2_body (mapping : linemap) (s : st) (kv : Z * option Z) : res st :=
  let '(bytecode_offset, line_number) := kv in (bind (OK (set_v_additional_line_offsets s (match oget (lm_adds mapping) bytecode_offset with Some l => l | None => [] end))) (fun s => (bind (bind (bind (bind (un_o line_number) (fun x1 => (OK (Z.sub x1 (v_last_line_number s))))) (fun x2 => (OK (Z.sub x2 (sumZ (v_additional_line_offsets s)))))) (fun x3 => (OK (set_v_first_line_offset s x3)))) (fun s => (bind (OK (set_v_all_line_offsets s (v_additional_line_offsets s))) (fun s => (bind (if (truthy_z (v_first_line_offset s)) then (OK (set_v_all_line_offsets s ((v_first_line_offset s) :: v_all_line_offsets s))) else (OK s)) (fun s => (bind (foldM (loop1_body mapping bytecode_offset line_number) (v_all_line_offsets s) s) (fun s => (bind (un_o line_number) (fun x4 => (OK (set_v_last_line_number s x4)))))))))))))).
Definition pre (mapping : linemap) (s : st) : res st :=
  (bind (OK (set_v_last_line_number s (0))) (fun s => (OK (set_v_last_bytecode_offset s (0))))).
Definition loop (mapping : linemap) (s : st) : res st :=
  (foldM (loop2_body mapping) (lm_lines mapping) s).
Definition post (mapping : linemap) (s : st) : res st :=
  (OK s).
Definition run (mapping : linemap) : res (list (option Z * Z)) :=
  bind (pre mapping init) (fun s => bind (loop mapping s) (fun s => bind (post mapping s) (fun s => OK (v_items s)))).
End MappingToItemsLnotab.
