  Definition dec_init (names varnames cellvars : list str) (constants : list C) (block_type : option function) (a : args) : res (decstate C) :=
    let st0 := mkDec (toargs_init names 0) (toargs_init varnames (args_len a)) (toargs_init cellvars 0) (toargs_init constants 0) in
    if (match block_type with Some f => match fn_doc f with Some _ => true | None => false end | None => false end) then match PCD.Gen.SrcTables.found_index keq (d_consts st0) 0 with
      | OK (_, _, t) => OK (mkDec (d_names st0) (d_varnames st0) (d_cellvars st0) t) | Err e => Err e end
    else OK st0.
