Definition to_flags_data (c : cfg) (flags : Z) : res (list flag) :=
  if flags =? 0 then OK [] else
    let '(members, not_covered) := decompose c flags in
    if negb (not_covered =? 0) then Err ValueError else
    OK (fold_left (fun acc fv => acc ++ [fst fv]) members []).
Definition from_flags_data (c : cfg) (flags_data : list flag) : res Z :=
  foldM (fun flags f => match flag_value (cfg_flags c) f with Some v => OK (Z.lor flags v) | None => Err AttributeError end)
        flags_data 0.
