Module ParseBytes.
Record st := mk_st { v_arg : Z; v_first_offset : Z; v_n_args : Z; v_next_offset : Z; v_opcode : Z; v_out : list (Z * Z * Z * Z * Z) }.
Definition set_v_arg (s : st) (x : _) : st := mk_st x (v_first_offset s) (v_n_args s) (v_next_offset s) (v_opcode s) (v_out s).
Definition set_v_first_offset (s : st) (x : _) : st := mk_st (v_arg s) x (v_n_args s) (v_next_offset s) (v_opcode s) (v_out s).
Definition set_v_n_args (s : st) (x : _) : st := mk_st (v_arg s) (v_first_offset s) x (v_next_offset s) (v_opcode s) (v_out s).
Definition set_v_next_offset (s : st) (x : _) : st := mk_st (v_arg s) (v_first_offset s) (v_n_args s) x (v_opcode s) (v_out s).
Definition set_v_opcode (s : st) (x : _) : st := mk_st (v_arg s) (v_first_offset s) (v_n_args s) (v_next_offset s) x (v_out s).
Definition set_v_out (s : st) (x : _) : st := mk_st (v_arg s) (v_first_offset s) (v_n_args s) (v_next_offset s) (v_opcode s) x.
Definition init : st := mk_st (0) (0) (0) (0) (0) [].
Definition body (EXTENDED_ARG : Z) (b : list Z) (s : st) (i : Z) : res st :=
  (bind (bind (byte_at b i) (fun x1 => (OK (set_v_opcode s x1)))) (fun s => (bind (bind (bind (byte_at b (Z.add i (1))) (fun x2 => (OK (Z.lor (v_arg s) x2)))) (fun x3 => (OK (set_v_arg s x3)))) (fun s => (bind (OK (set_v_n_args s (Z.add (v_n_args s) (1)))) (fun s => (if (Z.eqb (v_opcode s) EXTENDED_ARG) then (bind (OK (set_v_arg s (Z.shiftl (v_arg s) (8)))) (fun s => (if (Z.gtb (v_arg s) PCD.Gen.Src.c_int_upper_limit) then (OK (set_v_arg s (Z.sub (v_arg s) PCD.Gen.Src.c_int_length))) else (OK s)))) else (bind (OK (set_v_first_offset s (Z.sub i (Z.mul (Z.sub (v_n_args s) (1)) (2))))) (fun s => (bind (OK (set_v_next_offset s (Z.add i (2)))) (fun s => (bind (OK (set_v_out s (v_out s ++ [((v_opcode s), (v_arg s), (v_n_args s), (v_first_offset s), (v_next_offset s))]))) (fun s => (bind (OK (set_v_n_args s (0))) (fun s => (OK (set_v_arg s (0)))))))))))))))))).
Definition parse_bytes (EXTENDED_ARG : Z) (b : list Z) : res (list (Z * Z * Z * Z * Z)) :=
  bind (foldM (body EXTENDED_ARG b) (range2 0 (zlen b)) init) (fun s => OK (v_out s)).
End ParseBytes.
