Section ToArg.
  Context {C : Type} (keq : C -> C -> bool).
  Definition to_arg (c : cfg) (opcode a next_offset : Z) (freevars : list str) (st : decstate C)
    : res (arg_ C * decstate C) :=
    (if (zmem opcode (cfg_hasjabs c)) then OK (AJump ((if cfg_v310 c then (2) else (1)) * a) false, st)
   else (if (zmem opcode (cfg_hasjrel c)) then OK (AJump (next_offset + ((if cfg_v310 c then (2) else (1)) * a)) true, st)
   else (if (zmem opcode (cfg_hasname c)) then match found_index str_eqb (d_names st) a with OK (x, ov, t) => OK (AName x ov, mkDec t (d_varnames st) (d_cellvars st) (d_consts st)) | Err e => Err e end
   else (if (zmem opcode (cfg_haslocal c)) then match found_index str_eqb (d_varnames st) a with OK (x, ov, t) => OK (AVarname x ov, mkDec (d_names st) t (d_cellvars st) (d_consts st)) | Err e => Err e end
   else (if (zmem opcode (cfg_hasfree c)) then (if (a <? (zlen (ta_args (d_cellvars st)))) then match found_index str_eqb (d_cellvars st) a with OK (x, ov, t) => OK (ACellvar x ov, mkDec (d_names st) (d_varnames st) t (d_consts st)) | Err e => Err e end
   else match py_index freevars (a - (zlen (ta_args (d_cellvars st)))) with Some s => OK (AFreevar s, st) | None => Err IndexError end)
   else (if (zmem opcode (cfg_hasconst c)) then match found_index keq (d_consts st) a with OK (x, ov, t) => OK (AConst x ov, mkDec (d_names st) (d_varnames st) (d_cellvars st) t) | Err e => Err e end
   else (if (opcode <? cfg_have_argument c) then OK (ANoArg a, st)
   else OK (AInt a, st)))))))).
End ToArg.
