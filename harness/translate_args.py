# Translator for code_data/_args.py (C04): the four functions that slice co_varnames into parameter kinds and back are
# re-translated into Gallina on every run (coq/Gen/SrcArgs.v) and proved equal to Model/Args.v for all inputs
# (coq/Proofs/SrcArgsTie.v).  Functional fragment: straight-line code with rebinding (each assignment is a `let`),
# parallel tuple assignment, slices x[:n] / x[n:], x[0] (raises IndexError on an empty tuple), len, + and -,
# `"NAME" in flags` / flags.remove("NAME") / flags |= {"NAME"}, `x is not None`, if / else that assign the same
# variables, conditional expressions, tuple displays with starred parts, generator expressions `((n, KIND) for n in xs)`,
# and a final `return Record(field=..., ...)`.  Anything else: Decline (the stored reference translation is used and
# the functions are tied by the correspondence run only).
import ast

from translate_src import Decline

ARGS_FIELDS = {"positional_only": ("a_posonly", "names"), "positional_or_keyword": ("a_poskw", "names"),
               "var_positional": ("a_varpos", "oname"), "keyword_only": ("a_kwonly", "names"), "var_keyword": ("a_varkw", "oname")}
ARGS_ORDER = ["positional_only", "positional_or_keyword", "var_positional", "keyword_only", "var_keyword"]
INPUT_FIELDS = {"argcount": "Z", "posonlyargcount": "Z", "kwonlyargcount": "Z", "varnames": "names", "flags_data": "flags"}
INPUT_ORDER = ["argcount", "posonlyargcount", "kwonlyargcount", "varnames", "flags_data"]
KINDS = {"POSITIONAL_ONLY": "K_POSONLY", "POSITIONAL_OR_KEYWORD": "K_POSKW", "VAR_POSITIONAL": "K_VARPOS",
         "KEYWORD_ONLY": "K_KWONLY", "VAR_KEYWORD": "K_VARKW"}
FLAGS = {"VARARGS", "VARKEYWORDS"}


class V:
    def __init__(self, text, ty, pure=True):
        self.text, self.ty, self.pure = text, ty, pure


class Env:
    monadic = True         # the function being translated returns in res (it can raise)

    def __init__(self):
        self.vars = {}     # python name -> V (current Gallina name)
        self.n = {}

    def fresh(self, name):
        k = self.n.get(name, 0)
        self.n[name] = k + 1
        return name if k == 0 else "%s%d" % (name, k)


def flag_const(e):
    if isinstance(e, ast.Constant) and e.value in FLAGS:
        return e.value
    raise Decline("flag name")


def expr(env, e):
    if isinstance(e, ast.Constant):
        if e.value is None:
            return V("None", "oname")
        if isinstance(e.value, int) and not isinstance(e.value, bool):
            return V("(%d)" % e.value, "Z")
        raise Decline("constant %r" % (e.value,))
    if isinstance(e, ast.Name):
        if e.id in env.vars:
            return env.vars[e.id]
        raise Decline("name " + e.id)
    if isinstance(e, ast.Attribute) and isinstance(e.value, ast.Name) and e.value.id in env.vars:
        base = env.vars[e.value.id]
        if base.ty == "args" and e.attr in ARGS_FIELDS:
            proj, ty = ARGS_FIELDS[e.attr]
            return V("(%s %s)" % (proj, base.text), ty)
        if base.ty == "input" and e.attr in INPUT_FIELDS:
            return V("in_" + e.attr, INPUT_FIELDS[e.attr])
        raise Decline("attribute " + e.attr)
    if isinstance(e, ast.Subscript):
        x = expr(env, e.value)
        if x.ty != "names" or not x.pure:
            raise Decline("subscript of " + x.ty)
        sl = e.slice.value if isinstance(e.slice, ast.Index) else e.slice
        if isinstance(sl, ast.Slice):
            if sl.step is not None:
                raise Decline("slice step")
            if sl.lower is None and sl.upper is not None:
                n = expr(env, sl.upper)
                fn = "py_slice_to"
            elif sl.upper is None and sl.lower is not None:
                n = expr(env, sl.lower)
                fn = "py_slice_from"
            else:
                raise Decline("slice shape")
            if n.ty != "Z" or not n.pure:
                raise Decline("slice bound")
            return V("(%s %s %s)" % (fn, n.text, x.text), "names")
        i = expr(env, sl)
        if i.ty != "Z" or not i.pure:
            raise Decline("index")
        return V("(name_at %s %s)" % (x.text, i.text), "name", False)
    if isinstance(e, ast.BinOp) and isinstance(e.op, (ast.Add, ast.Sub)):
        a, b = expr(env, e.left), expr(env, e.right)
        if a.ty != "Z" or b.ty != "Z" or not (a.pure and b.pure):
            raise Decline("arithmetic operands")
        return V("(%s %s %s)" % (a.text, "+" if isinstance(e.op, ast.Add) else "-", b.text), "Z")
    if isinstance(e, ast.Call) and isinstance(e.func, ast.Name) and e.func.id == "len" and len(e.args) == 1:
        x = expr(env, e.args[0])
        if x.ty != "names" or not x.pure:
            raise Decline("len of " + x.ty)
        return V("(zlen %s)" % x.text, "Z")
    if isinstance(e, ast.Compare) and len(e.ops) == 1:
        op, l, r = e.ops[0], e.left, e.comparators[0]
        if isinstance(op, ast.In):
            fl = expr(env, r)
            if fl.ty != "flags":
                raise Decline("membership in " + fl.ty)
            return V("(flag_mem %s %s)" % (flag_const(l), fl.text), "bool")
        if isinstance(op, (ast.IsNot, ast.Is)) and isinstance(r, ast.Constant) and r.value is None:
            x = expr(env, l)
            if x.ty != "oname" or not x.pure:
                raise Decline("is None on " + x.ty)
            return V("(%s %s)" % ("is_some" if isinstance(op, ast.IsNot) else "is_none", x.text), "bool")
        raise Decline("comparison")
    if isinstance(e, ast.IfExp):
        c = truth(expr(env, e.test))
        # ((x,) if x is not None else ()) : the guarded one-element tuple of an optional name
        guard = guarded_name(env, e)
        if guard is not None:
            return guard
        a, b = expr(env, e.body), expr(env, e.orelse)
        if a.ty != b.ty or not (a.pure and b.pure):
            raise Decline("conditional expression")
        return V("(if %s then %s else %s)" % (c.text, a.text, b.text), a.ty)
    if isinstance(e, ast.Tuple):
        return tuple_display(env, e)
    if isinstance(e, ast.GeneratorExp):
        return genexp(env, e)
    raise Decline("expression " + type(e).__name__)


def truth(c):
    """truth value of a condition: a bool, or an Optional[str] (None and the empty string are false)"""
    if c.ty == "bool":
        return c
    if c.ty == "oname" and c.pure:
        return V("(name_truthy %s)" % c.text, "bool")
    raise Decline("condition of type " + c.ty)


def guarded_name(env, e):
    """((x,) if x is not None else ())  ->  opt_list x ;  (((x, KIND),) if x is not None else ()) -> pairs"""
    t = e.test
    if not (isinstance(t, ast.Compare) and len(t.ops) == 1 and isinstance(t.ops[0], ast.IsNot)
            and isinstance(t.comparators[0], ast.Constant) and t.comparators[0].value is None):
        return None
    if not (isinstance(e.orelse, ast.Tuple) and not e.orelse.elts and isinstance(e.body, ast.Tuple) and len(e.body.elts) == 1):
        return None
    x = expr(env, t.left)
    if x.ty != "oname":
        return None
    el = e.body.elts[0]
    if ast.dump(el) == ast.dump(t.left):
        return V("(if is_some %s then opt_list %s else [])" % (x.text, x.text), "names")
    if isinstance(el, ast.Tuple) and len(el.elts) == 2 and ast.dump(el.elts[0]) == ast.dump(t.left):
        return V("(if is_some %s then map (fun n => (n, %s)) (opt_list %s) else [])" % (x.text, kind_of(el.elts[1]), x.text), "pairs")
    return None


def kind_of(e):
    if isinstance(e, ast.Attribute) and isinstance(e.value, ast.Name) and e.value.id == "_ParameterKind" and e.attr in KINDS:
        return KINDS[e.attr]
    raise Decline("parameter kind")


def genexp(env, e):
    if len(e.generators) != 1 or e.generators[0].ifs or not isinstance(e.generators[0].target, ast.Name):
        raise Decline("generator expression")
    xs = expr(env, e.generators[0].iter)
    n = e.generators[0].target.id
    if xs.ty != "names" or not xs.pure:
        raise Decline("generator over " + xs.ty)
    el = e.elt
    if isinstance(el, ast.Tuple) and len(el.elts) == 2 and isinstance(el.elts[0], ast.Name) and el.elts[0].id == n:
        return V("(map (fun n => (n, %s)) %s)" % (kind_of(el.elts[1]), xs.text), "pairs")
    raise Decline("generator element")


def tuple_display(env, e):
    parts, ty = [], None
    for el in e.elts:
        if not isinstance(el, ast.Starred):
            raise Decline("tuple element that is not starred")
        p = expr(env, el.value)
        if p.ty not in ("names", "pairs") or not p.pure or (ty and p.ty != ty):
            raise Decline("starred part of type " + p.ty)
        ty = p.ty
        parts.append(p.text)
    if not parts:
        raise Decline("empty tuple display")
    return V("(" + " ++ ".join(parts) + ")", ty)


def targets_of(t):
    if isinstance(t, ast.Name):
        return [t.id]
    if isinstance(t, ast.Tuple) and all(isinstance(x, ast.Name) for x in t.elts):
        return [x.id for x in t.elts]
    raise Decline("assignment target")


def values_of(env, v, n):
    if n == 1:
        return [expr(env, v)]
    if isinstance(v, ast.Tuple) and len(v.elts) == n and not any(isinstance(x, ast.Starred) for x in v.elts):
        return [expr(env, x) for x in v.elts]
    raise Decline("right-hand side of a tuple assignment")


COQ_TY = {"Z": "Z", "names": "list str", "oname": "option str", "flags": "list flag", "name": "str", "bool": "bool"}


def block(env, stmts, k):
    """translate statements in continuation-passing style: k(env) gives the text of what follows"""
    if not stmts:
        return k(env)
    s, rest = stmts[0], stmts[1:]
    if isinstance(s, ast.Expr) and isinstance(s.value, ast.Constant):
        return block(env, rest, k)
    if isinstance(s, ast.Assign) and len(s.targets) == 1:
        names = targets_of(s.targets[0])
        vals = values_of(env, s.value, len(names))    # evaluated in the old environment (parallel assignment)
        binds = []
        new = {}
        for n, v in zip(names, vals):
            g = env.fresh(n)
            ty = "oname" if v.ty == "name" else v.ty
            new[n] = V(g, ty)
            binds.append((g, v))
        env.vars.update(new)
        body = block(env, rest, k)
        for g, v in reversed(binds):
            if v.pure:
                body = "let %s := %s in\n  %s" % (g, v.text, body)
            elif not env.monadic:
                raise Decline("an expression that can raise in a function translated as total")
            else:
                # x = t[0] : the name found (None-able variables hold Some name)
                body = "bind %s (fun %s_ => let %s := Some %s_ in\n  %s)" % (v.text, g, g, g, body)
        return body
    if isinstance(s, ast.AugAssign) and isinstance(s.op, ast.BitOr) and isinstance(s.target, ast.Name):
        fl = expr(env, s.target)
        if fl.ty != "flags" or not (isinstance(s.value, ast.Set) and len(s.value.elts) == 1):
            raise Decline("augmented assignment")
        g = env.fresh(s.target.id)
        text = "(flag_add %s %s)" % (flag_const(s.value.elts[0]), fl.text)
        env.vars[s.target.id] = V(g, "flags")
        return "let %s := %s in\n  %s" % (g, text, block(env, rest, k))
    if (isinstance(s, ast.Expr) and isinstance(s.value, ast.Call) and isinstance(s.value.func, ast.Attribute)
            and s.value.func.attr == "remove" and isinstance(s.value.func.value, ast.Name) and len(s.value.args) == 1):
        nm = s.value.func.value.id
        fl = expr(env, s.value.func.value)
        if fl.ty != "flags":
            raise Decline("remove on " + fl.ty)
        g = env.fresh(nm)
        text = "(flag_remove %s %s)" % (flag_const(s.value.args[0]), fl.text)
        env.vars[nm] = V(g, "flags")
        return "let %s := %s in\n  %s" % (g, text, block(env, rest, k))
    if isinstance(s, ast.If):
        c = truth(expr(env, s.test))
        # variables (re)bound by either branch
        assigned = []
        for n in ast.walk(s):
            if isinstance(n, ast.Name) and isinstance(n.ctx, ast.Store) and n.id not in assigned:
                assigned.append(n.id)
            if (isinstance(n, ast.Call) and isinstance(n.func, ast.Attribute) and n.func.attr == "remove"
                    and isinstance(n.func.value, ast.Name) and n.func.value.id not in assigned):
                assigned.append(n.func.value.id)
        outs = []

        def branch(body):
            e2 = Env()
            e2.vars = dict(env.vars)
            e2.n = env.n       # shared counters: names stay unique
            e2.monadic = env.monadic
            def fin(e3):
                vals = []
                for a in assigned:
                    if a not in e3.vars:
                        raise Decline("variable %s bound in one branch only" % a)
                    vals.append(e3.vars[a])
                outs.append([v.ty for v in vals])
                return ("OK (%s)" if env.monadic else "(%s)") % ", ".join(v.text for v in vals)
            return block(e2, body, fin)
        tb = branch(s.body)
        eb = branch(s.orelse) if s.orelse else branch([])
        if outs[0] != outs[1]:
            raise Decline("branches bind different types")
        gs = []
        for a, ty in zip(assigned, outs[0]):
            g = env.fresh(a)
            env.vars[a] = V(g, ty)
            gs.append(g)
        pat = gs[0] if len(gs) == 1 else "'(" + ", ".join(gs) + ")"
        if not env.monadic:
            return "let %s := (if %s then\n  %s\n  else %s) in\n  %s" % (pat, c.text, tb, eb, block(env, rest, k))
        return "bind (if %s then\n  %s\n  else %s) (fun %s =>\n  %s)" % (c.text, tb, eb, pat, block(env, rest, k))
    if isinstance(s, ast.Return):
        return ret(env, s.value)
    raise Decline("statement " + type(s).__name__)


def ret(env, v):
    if isinstance(v, ast.Call) and isinstance(v.func, ast.Name) and not v.args:
        kw = {k.arg: k.value for k in v.keywords}
        if v.func.id == "Args" and set(kw) == set(ARGS_ORDER):
            vals = [expr(env, kw[f]) for f in ARGS_ORDER]
            for f, x in zip(ARGS_ORDER, vals):
                if x.ty != ARGS_FIELDS[f][1] or not x.pure:
                    raise Decline("field %s of type %s" % (f, x.ty))
            fl = env.vars.get("flags_data")
            return "OK (Build_args %s, %s)" % (" ".join(x.text for x in vals), fl.text)
        if v.func.id == "ArgsInput" and set(kw) == set(INPUT_ORDER):
            vals = [expr(env, kw[f]) for f in INPUT_ORDER]
            for f, x in zip(INPUT_ORDER, vals):
                if x.ty != INPUT_FIELDS[f] or not x.pure:
                    raise Decline("field %s of type %s" % (f, x.ty))
            return "(%s)" % ", ".join(x.text for x in vals)
        if v.func.id == "OrderedDict" and not v.keywords:
            raise Decline("OrderedDict call shape")
    if isinstance(v, ast.Call) and isinstance(v.func, ast.Name) and v.func.id == "OrderedDict" and len(v.args) == 1:
        x = expr(env, v.args[0])
        if x.ty != "pairs":
            raise Decline("OrderedDict of " + x.ty)
        return "od_of_pairs %s" % x.text
    x = expr(env, v)
    if not x.pure:
        raise Decline("returned expression")
    return x.text


def find(tree, name):
    for n in tree.body:
        if isinstance(n, ast.FunctionDef) and n.name == name:
            if n.decorator_list:
                raise Decline("decorated function " + name)
            return n
    raise Decline("no function " + name)


def translate(tree):
    out = ["Module Args."]
    # args_from_input(input)
    f = find(tree, "args_from_input")
    if [a.arg for a in f.args.args] != ["input"]:
        raise Decline("signature of args_from_input")
    env = Env()
    env.vars["input"] = V("input", "input")
    for n in INPUT_ORDER:
        env.n["in_" + n] = 1
    out.append("Definition args_from_input (in_argcount in_posonlyargcount in_kwonlyargcount : Z) (in_varnames : list str) "
               "(in_flags_data : list flag) : res (args * list flag) :=\n  %s." % block(env, f.body, lambda e: (_ for _ in ()).throw(Decline("no return"))))
    # args_to_varnames(args)
    f = find(tree, "args_to_varnames")
    env = Env()
    env.monadic = False
    env.vars["args"] = V("args", "args")
    if [a.arg for a in f.args.args] != ["args"]:
        raise Decline("signature of args_to_varnames")
    out.append("Definition args_to_varnames (args : args) : list str :=\n  %s." % block(env, f.body, lambda e: (_ for _ in ()).throw(Decline("no return"))))
    # args_to_input(args, flags_data)
    f = find(tree, "args_to_input")
    if [a.arg for a in f.args.args] != ["args", "flags_data"]:
        raise Decline("signature of args_to_input")
    env = Env()
    env.monadic = False
    env.vars["args"] = V("args", "args")
    env.vars["flags_data"] = V("flags_data", "flags")
    env.n["flags_data"] = 1
    body = f.body
    # the call of args_to_varnames inside: bind it as a variable first
    class Sub(ast.NodeTransformer):
        def visit_Call(self, node):
            self.generic_visit(node)
            if isinstance(node.func, ast.Name) and node.func.id == "args_to_varnames" and len(node.args) == 1 \
                    and isinstance(node.args[0], ast.Name) and node.args[0].id == "args":
                return ast.copy_location(ast.Name(id="__varnames", ctx=ast.Load()), node)
            return node
    body = [Sub().visit(s) for s in body]
    env.vars["__varnames"] = V("(args_to_varnames args)", "names")
    out.append("Definition args_to_input (args : args) (flags_data : list flag) : Z * Z * Z * list str * list flag :=\n  %s."
               % block(env, body, lambda e: (_ for _ in ()).throw(Decline("no return"))))
    # args_to_parameters(args)
    f = find(tree, "args_to_parameters")
    if [a.arg for a in f.args.args] != ["args"]:
        raise Decline("signature of args_to_parameters")
    env = Env()
    env.monadic = False
    env.vars["args"] = V("args", "args")
    out.append("Definition args_to_parameters (args : args) : list (str * Z) :=\n  %s." % block(env, f.body, lambda e: (_ for _ in ()).throw(Decline("no return"))))
    out.append("End Args.")
    return "\n".join(out) + "\n"


HEADER = ("(* generated by harness/translate_args.py from /repo/code_data/_args.py on every run; do not edit *)\n"
          "From PCD Require Import Base.PyBase Base.PyImp Base.Cfg Model.Flags Model.Args.\n\n")


def generate(repo, outpath, fallback_dir, write_fallback=False):
    import os
    from common import write_if_changed
    notes = {}
    fb = os.path.join(fallback_dir, "SrcArgs.v")
    try:
        with open(os.path.join(repo, "code_data", "_args.py")) as f:
            tree = ast.parse(f.read())
        text = translate(tree)
        notes["args"] = "translated"
        flag = "true"
        if write_fallback:
            with open(fb, "w") as f:
                f.write(text)
    except (Decline, OSError, SyntaxError, IndexError, KeyError, AttributeError) as e:
        notes["args"] = "declined: %s" % e
        with open(fb) as f:
            text = ("(* declined (%s): reference translation of the pinned source; tied by correspondence only *)\n"
                    % str(e).replace("*)", "* )")[:100]) + f.read()
        flag = "false"
    notes["changed"] = write_if_changed(outpath, HEADER + text + "Definition args_translated := %s.\n" % flag)
    return notes


if __name__ == "__main__":
    import sys
    import os
    here = os.path.dirname(os.path.abspath(__file__))
    sys.path.insert(0, here)
    print(generate("/repo", os.path.join(here, "..", "coq", "Gen", "SrcArgs.v"), os.path.join(here, "fallback"),
                   write_fallback="--write-fallback" in sys.argv))
