# Secondary tie: regenerates coq/Gen/Src.v from /repo's sources with `ast` (fail-closed:
# anything outside the supported fragment is declined and recorded, never guessed).
import ast
import os


class Decline(Exception):
    pass


def expr_z(e, env):
    """integer expression over names in env -> Gallina Z expression"""
    if isinstance(e, ast.Constant) and isinstance(e.value, int) and not isinstance(e.value, bool):
        return "(%d)" % e.value
    if isinstance(e, ast.Name) and e.id in env:
        return env[e.id]
    if isinstance(e, ast.UnaryOp) and isinstance(e.op, ast.USub):
        return "(- %s)" % expr_z(e.operand, env)
    if isinstance(e, ast.BinOp):
        ops = {ast.Add: "+", ast.Sub: "-", ast.Mult: "*", ast.FloorDiv: "/", ast.Mod: "mod"}
        a, b = expr_z(e.left, env), expr_z(e.right, env)
        if type(e.op) in ops:
            return "(%s %s %s)" % (a, ops[type(e.op)], b)
        if isinstance(e.op, ast.Pow):
            return "(%s ^ %s)" % (a, b)
        if isinstance(e.op, ast.LShift):
            return "(Z.shiftl %s %s)" % (a, b)
        if isinstance(e.op, ast.RShift):
            return "(Z.shiftr %s %s)" % (a, b)
        if isinstance(e.op, ast.BitAnd):
            return "(Z.land %s %s)" % (a, b)
        if isinstance(e.op, ast.BitOr):
            return "(Z.lor %s %s)" % (a, b)
    if isinstance(e, ast.IfExp):
        return "(if %s then %s else %s)" % (expr_b(e.test, env), expr_z(e.body, env), expr_z(e.orelse, env))
    raise Decline("integer expression: " + ast.dump(e)[:80])


def expr_b(e, env):
    if isinstance(e, ast.Compare) and len(e.ops) == 1:
        ops = {ast.Lt: "<?", ast.LtE: "<=?", ast.Gt: ">?", ast.GtE: ">=?", ast.Eq: "=?"}
        if type(e.ops[0]) in ops:
            return "(%s %s %s)" % (expr_z(e.left, env), ops[type(e.ops[0])], expr_z(e.comparators[0], env))
    if isinstance(e, ast.BoolOp):
        op = "&&" if isinstance(e.op, ast.And) else "||"
        return "(" + (" %s " % op).join(expr_b(v, env) for v in e.values) + ")"
    raise Decline("boolean expression: " + ast.dump(e)[:80])


def body_z(stmts, env):
    """if/return chains -> Gallina"""
    if not stmts:
        raise Decline("function falls off the end")
    s = stmts[0]
    if isinstance(s, ast.Expr) and isinstance(s.value, ast.Constant) and isinstance(s.value.value, str):
        return body_z(stmts[1:], env)  # docstring
    if isinstance(s, ast.Return) and s.value is not None:
        return expr_z(s.value, env)
    if isinstance(s, ast.If):
        then = body_z(s.body, env)
        rest = body_z(s.orelse, env) if s.orelse else body_z(stmts[1:], env)
        return "(if %s then %s else %s)" % (expr_b(s.test, env), then, rest)
    raise Decline("statement: " + ast.dump(s)[:80])


def find_func(tree, name):
    for n in tree.body:
        if isinstance(n, ast.FunctionDef) and n.name == name:
            return n
    raise Decline("no function " + name)


def find_assign(tree, name):
    for n in tree.body:
        if isinstance(n, ast.Assign):
            for t in n.targets:
                if isinstance(t, ast.Name) and t.id == name:
                    return n.value
                if isinstance(t, ast.Tuple):
                    for i, el in enumerate(t.elts):
                        if isinstance(el, ast.Name) and el.id == name and isinstance(n.value, ast.Tuple):
                            return n.value.elts[i]
    raise Decline("no assignment to " + name)


def str_set(e):
    if isinstance(e, ast.Set) and all(isinstance(x, ast.Constant) and isinstance(x.value, str) for x in e.elts):
        return sorted(x.value for x in e.elts)
    raise Decline("set of strings: " + ast.dump(e)[:80])


def generate(repo, outpath):
    from common import write_if_changed
    notes = {}
    items = []

    def parse(rel):
        with open(os.path.join(repo, "code_data", rel)) as f:
            return ast.parse(f.read())

    def attempt(label, fn):
        try:
            items.append(fn())
            notes[label] = "translated"
        except (Decline, OSError, SyntaxError) as e:
            notes[label] = "declined: %s" % e
            items.append("(* %s declined: tied by correspondence only *)\nDefinition %s_translated := false.\n" % (label, label))

    def instrsize():
        f = find_func(parse("_blocks.py"), "_instrsize")
        arg = f.args.args[0].arg
        return ("Definition instrsize (%s : Z) : Z := %s.\nDefinition instrsize_translated := true.\n"
                % (arg, body_z(f.body, {arg: arg})))

    def int_bounds():
        t = parse("_json_data.py")
        lo = expr_z(find_assign(t, "MIN_INTEGER"), {})
        hi = expr_z(find_assign(t, "MAX_INTEGER"), {})
        return "Definition MIN_INTEGER : Z := %s.\nDefinition MAX_INTEGER : Z := %s.\nDefinition int_bounds_translated := true.\n" % (lo, hi)

    def fn_flags():
        t = parse("_code_data.py")
        a = str_set(find_assign(t, "FN_FLAGS"))
        b = str_set(find_assign(t, "FN_TYPE_FLAGS"))
        ctor = lambda n: n if n.isupper() else "F_" + n
        return ("Definition FN_FLAGS : list flag := [%s].\nDefinition FN_TYPE_FLAGS : list flag := [%s].\n"
                "Definition fn_flags_translated := true.\n" % ("; ".join(map(ctor, a)), "; ".join(map(ctor, b))))

    def c_int():
        t = parse("_blocks.py")
        env = {"_c_int_bit_size": "32"}  # ctypes.sizeof(c_int) * 8 on every supported platform
        hi = expr_z(find_assign(t, "_c_int_upper_limit"), env)
        ln = expr_z(find_assign(t, "_c_int_length"), env)
        return "Definition c_int_upper_limit : Z := %s.\nDefinition c_int_length : Z := %s.\nDefinition c_int_translated := true.\n" % (hi, ln)

    attempt("instrsize", instrsize)
    attempt("int_bounds", int_bounds)
    attempt("fn_flags", fn_flags)
    attempt("c_int", c_int)
    text = ("(* generated by harness/translate_src.py from /repo/code_data/*.py on every run; do not edit *)\n"
            "From PCD Require Import Base.PyBase Base.Cfg.\n\n" + "\n".join(items))
    notes["changed"] = write_if_changed(outpath, text)
    return notes
