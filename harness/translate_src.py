# Secondary tie: regenerates coq/Gen/Src.v from /repo's sources with `ast` (fail-closed:
# anything outside the supported fragment is declined and recorded, never guessed).
import ast
import os


class Decline(Exception):
    pass


def expr_z(e, env):
    """integer expression over names in env -> Gallina Z expression"""
    if isinstance(e, ast.Constant) and isinstance(e.value, int) and not isinstance(e.value, bool):
        return "(%d)" % e.value
    if isinstance(e, ast.Name) and e.id in env:
        return env[e.id]
    if isinstance(e, ast.UnaryOp) and isinstance(e.op, ast.USub):
        return "(- %s)" % expr_z(e.operand, env)
    if isinstance(e, ast.BinOp):
        ops = {ast.Add: "+", ast.Sub: "-", ast.Mult: "*", ast.FloorDiv: "/", ast.Mod: "mod"}
        a, b = expr_z(e.left, env), expr_z(e.right, env)
        if type(e.op) in ops:
            return "(%s %s %s)" % (a, ops[type(e.op)], b)
        if isinstance(e.op, ast.Pow):
            return "(%s ^ %s)" % (a, b)
        if isinstance(e.op, ast.LShift):
            return "(Z.shiftl %s %s)" % (a, b)
        if isinstance(e.op, ast.RShift):
            return "(Z.shiftr %s %s)" % (a, b)
        if isinstance(e.op, ast.BitAnd):
            return "(Z.land %s %s)" % (a, b)
        if isinstance(e.op, ast.BitOr):
            return "(Z.lor %s %s)" % (a, b)
    if isinstance(e, ast.IfExp):
        return "(if %s then %s else %s)" % (expr_b(e.test, env), expr_z(e.body, env), expr_z(e.orelse, env))
    raise Decline("integer expression: " + ast.dump(e)[:80])


def expr_b(e, env):
    if isinstance(e, ast.Compare) and len(e.ops) == 1:
        ops = {ast.Lt: "<?", ast.LtE: "<=?", ast.Gt: ">?", ast.GtE: ">=?", ast.Eq: "=?"}
        if type(e.ops[0]) in ops:
            return "(%s %s %s)" % (expr_z(e.left, env), ops[type(e.ops[0])], expr_z(e.comparators[0], env))
    if isinstance(e, ast.BoolOp):
        op = "&&" if isinstance(e.op, ast.And) else "||"
        return "(" + (" %s " % op).join(expr_b(v, env) for v in e.values) + ")"
    raise Decline("boolean expression: " + ast.dump(e)[:80])


def body_z(stmts, env):
    """if/return chains -> Gallina"""
    if not stmts:
        raise Decline("function falls off the end")
    s = stmts[0]
    if isinstance(s, ast.Expr) and isinstance(s.value, ast.Constant) and isinstance(s.value.value, str):
        return body_z(stmts[1:], env)  # docstring
    if isinstance(s, ast.Return) and s.value is not None:
        return expr_z(s.value, env)
    if isinstance(s, ast.If):
        then = body_z(s.body, env)
        rest = body_z(s.orelse, env) if s.orelse else body_z(stmts[1:], env)
        return "(if %s then %s else %s)" % (expr_b(s.test, env), then, rest)
    raise Decline("statement: " + ast.dump(s)[:80])


def find_func(tree, name):
    for n in tree.body:
        if isinstance(n, ast.FunctionDef) and n.name == name:
            return n
    raise Decline("no function " + name)


def find_assign(tree, name):
    for n in tree.body:
        if isinstance(n, ast.Assign):
            for t in n.targets:
                if isinstance(t, ast.Name) and t.id == name:
                    return n.value
                if isinstance(t, ast.Tuple):
                    for i, el in enumerate(t.elts):
                        if isinstance(el, ast.Name) and el.id == name and isinstance(n.value, ast.Tuple):
                            return n.value.elts[i]
    raise Decline("no assignment to " + name)


def str_set(e):
    if isinstance(e, ast.Set) and all(isinstance(x, ast.Constant) and isinstance(x.value, str) for x in e.elts):
        return sorted(x.value for x in e.elts)
    raise Decline("set of strings: " + ast.dump(e)[:80])


# ---------------------------------------------------------------------------------------------
# C12: the statements of the loaders that touch mutable containers, as programs of coq/Model/HeapOps.v

MUTATORS = {"pop", "update", "append", "setdefault", "clear", "remove", "insert", "extend", "sort", "reverse",
            "popitem", "add", "discard", "__setitem__", "__delitem__", "difference_update", "intersection_update",
            "symmetric_difference_update"}
PURE_CALLS = {"copy", "tuple", "list", "dict", "set", "frozenset", "int", "float", "complex", "str", "bytes", "bool", "repr", "ascii", "hex", "oct", "bin", "abs", "ord", "chr", "format", "round", "divmod", "reversed",
              "isinstance", "len", "map", "filter", "sorted", "enumerate", "zip", "range", "iter", "next", "getattr", "hasattr",
              "literal_eval", "b64decode", "b64encode", "isinf", "isnan", "cast", "fields", "is_dataclass", "replace", "type",
              "ValueError", "NotImplementedError", "TypeError", "print", "any", "all", "sum", "min", "max", "hash", "id"}


class HeapTranslator(object):
    def __init__(self, local_functions):
        self.local = set(local_functions)
        self.vars = {}

    def var(self, name):
        if name not in self.vars:
            self.vars[name] = len(self.vars)
        return self.vars[name]

    def base_name(self, e):
        while isinstance(e, (ast.Subscript, ast.Attribute, ast.Starred)):
            e = e.value
        if isinstance(e, ast.Call) and isinstance(e.func, ast.Attribute):
            return self.base_name(e.func.value)
        return e.id if isinstance(e, ast.Name) else None

    def calls(self, node):
        """mutations hidden in the calls of an expression / statement"""
        ops = []
        for n in ast.walk(node):
            if isinstance(n, (ast.FunctionDef, ast.Lambda, ast.AsyncFunctionDef, ast.NamedExpr if hasattr(ast, "NamedExpr") else ast.Lambda)) and n is not node:
                if not isinstance(n, ast.Lambda):
                    raise Decline("nested function / walrus")
            if isinstance(n, ast.Call):
                f = n.func
                if isinstance(f, ast.Attribute):
                    b = self.base_name(f.value)
                    if f.attr in MUTATORS and b is not None:
                        ops.append("HMutate %d" % self.var(b))
                elif isinstance(f, ast.Name):
                    known = f.id in PURE_CALLS or f.id in self.local or f.id[:1].isupper()
                    if not known:
                        for a in list(n.args) + [k.value for k in n.keywords]:
                            b = self.base_name(a)
                            if b is not None:
                                ops.append("HMutate %d" % self.var(b))
                else:
                    raise Decline("call of a computed function")
        return ops

    def assign(self, name, e):
        x = self.var(name)
        if isinstance(e, ast.Name):
            return ["HAlias %d %d" % (x, self.var(e.id))]
        if isinstance(e, ast.Call) and isinstance(e.func, ast.Name) and (
                e.func.id in PURE_CALLS or e.func.id in self.local or e.func.id[:1].isupper()):
            return ["HFresh %d" % x]
        if isinstance(e, (ast.Dict, ast.List, ast.Set, ast.Tuple, ast.ListComp, ast.DictComp, ast.SetComp, ast.GeneratorExp,
                          ast.Constant, ast.JoinedStr, ast.BinOp, ast.Compare, ast.UnaryOp)):
            return ["HFresh %d" % x]
        # subscripts, attributes, method calls, conditional / boolean expressions: may be an object of the input
        return ["HGet %d %d" % (x, x)]

    def block(self, stmts):
        ops = []
        for st in stmts:
            ops += self.stmt(st)
        return ops

    def stmt(self, st):
        if isinstance(st, (ast.Pass, ast.Import, ast.ImportFrom, ast.Break, ast.Continue)):
            return []
        if isinstance(st, ast.Expr):
            return self.calls(st)
        if isinstance(st, (ast.Return, ast.Raise, ast.Assert)):
            return self.calls(st)
        if isinstance(st, ast.Assign):
            ops = self.calls(st.value)
            for t in st.targets:
                if isinstance(t, ast.Name):
                    ops += self.assign(t.id, st.value)
                elif isinstance(t, (ast.Subscript, ast.Attribute)):
                    b = self.base_name(t)
                    if b is None:
                        raise Decline("assignment through a computed object")
                    ops.append("HMutate %d" % self.var(b))
                elif isinstance(t, (ast.Tuple, ast.List)):
                    for el in t.elts:
                        if isinstance(el, ast.Name):
                            ops.append("HGet %d %d" % (self.var(el.id), self.var(el.id)))
                        else:
                            b = self.base_name(el)
                            if b is None:
                                raise Decline("assignment target")
                            ops.append("HMutate %d" % self.var(b))
                else:
                    raise Decline("assignment target")
            return ops
        if isinstance(st, ast.AnnAssign):
            if st.value is None:
                return []
            return self.stmt(ast.Assign(targets=[st.target], value=st.value))
        if isinstance(st, ast.AugAssign):
            b = self.base_name(st.target)
            if b is None:
                raise Decline("augmented assignment target")
            return self.calls(st.value) + ["HMutate %d" % self.var(b)]
        if isinstance(st, ast.Delete):
            ops = []
            for t in st.targets:
                if isinstance(t, ast.Name):
                    continue
                b = self.base_name(t)
                if b is None:
                    raise Decline("del target")
                ops.append("HMutate %d" % self.var(b))
            return ops
        if isinstance(st, ast.If):
            return self.calls(st.test) + ["HIf %s %s" % (self.render(self.block(st.body)), self.render(self.block(st.orelse)))]
        if isinstance(st, (ast.For, ast.While)):
            pre = self.calls(st.iter if isinstance(st, ast.For) else st.test)
            body = []
            if isinstance(st, ast.For):
                for n in ast.walk(st.target):
                    if isinstance(n, ast.Name):
                        body.append("HGet %d %d" % (self.var(n.id), self.var(n.id)))
            body += self.block(st.body)
            return pre + ["HLoop %s" % self.render(body)] + self.block(st.orelse)
        if isinstance(st, ast.Try):
            ops = ["HIf %s []" % self.render(self.block(st.body))]
            for h in st.handlers:
                ops.append("HIf %s []" % self.render(self.block(h.body)))
            ops.append("HIf %s []" % self.render(self.block(st.orelse)))
            return ops + self.block(st.finalbody)
        if isinstance(st, ast.With):
            ops = []
            for it in st.items:
                ops += self.calls(it.context_expr)
                if it.optional_vars is not None:
                    for n in ast.walk(it.optional_vars):
                        if isinstance(n, ast.Name):
                            ops.append("HGet %d %d" % (self.var(n.id), self.var(n.id)))
            return ops + self.block(st.body)
        raise Decline("statement " + type(st).__name__)

    @staticmethod
    def render(ops):
        return "[" + "; ".join(ops) + "]" if ops else "[]"


def heap_programs(repo, files):
    """[(module.function, n_params, rendered program or None, note)]"""
    out = []
    trees = []
    names = []
    for rel in files:
        try:
            with open(os.path.join(repo, "code_data", rel)) as f:
                tree = ast.parse(f.read())
        except (OSError, SyntaxError) as e:
            out.append((rel, 0, None, "declined: %s" % e))
            continue
        trees.append((rel, tree))
        # every function translated here is itself checked with its parameters as input objects,
        # so a call to one of them cannot mutate what it is given
        names += [n.name for n in tree.body if isinstance(n, ast.FunctionDef)]
    for rel, tree in trees:
        fns = [n for n in tree.body if isinstance(n, ast.FunctionDef)]
        for fn in fns:
            tr = HeapTranslator(names)
            try:
                a = fn.args
                params = [x.arg for x in getattr(a, "posonlyargs", []) + a.args + a.kwonlyargs] + (
                    [a.vararg.arg] if a.vararg else []) + ([a.kwarg.arg] if a.kwarg else [])
                for pn in params:
                    tr.var(pn)
                body = [s2 for s2 in fn.body]
                prog = tr.render(tr.block(body))
                out.append(("%s.%s" % (rel[:-3], fn.name), len(params), prog, "translated"))
            except Decline as e:
                out.append(("%s.%s" % (rel[:-3], fn.name), 0, None, "declined: %s" % e))
    return out


def generate_heap(repo, outpath):
    from common import write_if_changed
    progs = heap_programs(repo, ["_json_data.py", "_normalize.py", "dataclass_hide_default.py"])
    lines = ["(* generated by harness/translate_src.py from /repo/code_data on every run; do not edit.\n"
             "   One program of Model/HeapOps.v per function: which statements allocate, alias, read from or mutate\n"
             "   containers; parameters are variables 0..n-1. *)\n"
             "From Coq Require Import List.\nImport ListNotations.\nFrom PCD Require Import Model.HeapOps.\n"]
    items = []
    notes = {}
    for name, nparams, prog, note in progs:
        notes[name] = note
        if prog is None:
            lines.append("(* %s: %s *)" % (name, note))
            continue
        ident = "prog_" + name.replace(".", "_")
        lines.append("Definition %s : list var * list hop := (%s, %s)." % (
            ident, "[" + "; ".join(str(i) for i in range(nparams)) + "]", prog))
        items.append(ident)
    lines.append("Definition loader_programs : list (list var * list hop) := [%s]." % "; ".join(items))
    lines.append("Definition loader_programs_declined : nat := %d." % sum(1 for _, _, p2, _ in progs if p2 is None))
    notes["changed"] = write_if_changed(outpath, "\n".join(lines) + "\n")
    return notes


# ---------------------------------------------------------------------------------------------
# C12 (sharing): what a function can return, as expressions of coq/Model/FreshDoc.v

IMM_CALLS = {"str", "repr", "ascii", "hex", "oct", "bin", "int", "float", "bool", "len", "isinstance", "isinf", "isnan", "is_dataclass",
             "field_is_default", "b64encode", "b64decode", "type", "abs", "hash", "ord", "chr", "min", "max", "sum",
             "literal_eval", "complex", "bytes"}
NEW_CALLS = {"list", "tuple", "dict", "set", "frozenset", "sorted", "copy", "map", "filter", "reversed", "replace", "cast"}


class FreshTranslator:
    def __init__(self, funcs, order):
        self.funcs = funcs          # name -> ast.FunctionDef
        self.order = order          # analysed function names, index = FCall number

    def function(self, name):
        f = self.funcs[name]
        params = [a.arg for a in f.args.args]
        if f.args.vararg or f.args.kwarg or f.args.kwonlyargs or f.args.defaults:
            raise Decline("signature of " + name)
        env = {p: "FParam" for p in params}
        rets = []
        self.block(f.body, env, rets)
        if not rets:
            rets.append("FImm")
        return rets

    def block(self, body, env, rets):
        for st in body:
            if isinstance(st, ast.Return):
                rets.append(self.expr(st.value, env) if st.value is not None else "FImm")
            elif isinstance(st, (ast.Assign, ast.AnnAssign)):
                targets = st.targets if isinstance(st, ast.Assign) else [st.target]
                if st.value is None:
                    continue
                v = self.expr(st.value, env)
                for t in targets:
                    if not isinstance(t, ast.Name):
                        raise Decline("assignment target " + type(t).__name__)
                    env[t.id] = "(FChoice %s %s)" % (env[t.id], v) if t.id in env and env[t.id] != v else v
            elif isinstance(st, ast.If):
                self.block(st.body, env, rets)
                self.block(st.orelse, env, rets)
            elif isinstance(st, ast.For):
                self.bind(st.target, self.items(st.iter, env), env)
                self.block(st.body, env, rets)
                self.block(st.orelse, env, rets)
            elif isinstance(st, ast.Try):
                self.block(st.body, env, rets)
                for h in st.handlers:
                    self.block(h.body, env, rets)
                self.block(st.orelse, env, rets)
                self.block(st.finalbody, env, rets)
            elif isinstance(st, (ast.Raise, ast.Pass, ast.Assert)):
                continue
            elif isinstance(st, ast.Expr) and isinstance(st.value, (ast.Constant, ast.Call)):
                continue            # docstring; a call for effect is the business of the HeapOps check
            else:
                raise Decline("statement " + type(st).__name__)

    def bind(self, target, cls, env):
        if isinstance(target, ast.Name):
            env[target.id] = cls
        elif isinstance(target, (ast.Tuple, ast.List)):
            for t in target.elts:
                self.bind(t, cls, env)
        else:
            raise Decline("loop target " + type(target).__name__)

    def items(self, e, env):
        """class of the items obtained by iterating e"""
        if isinstance(e, ast.Call) and isinstance(e.func, ast.Name) and e.func.id == "map" and len(e.args) == 2:
            return self.call_of(e.args[0], self.items(e.args[1], env), env)
        if isinstance(e, ast.Call) and isinstance(e.func, ast.Name) and e.func.id in ("fields", "range", "enumerate", "zip"):
            return "FGlobal" if e.func.id == "fields" else "FImm"
        if isinstance(e, ast.Call) and isinstance(e.func, ast.Attribute) and e.func.attr in ("items", "values", "keys"):
            return self.proj(self.expr(e.func.value, env))
        if isinstance(e, ast.GeneratorExp):
            return self.comp(e, e.elt, env, inner=True)
        return self.proj(self.expr(e, env))

    def proj(self, cls):
        """a projection (attribute, item) of a value of class cls"""
        if cls in ("FParam", "FImm", "FGlobal"):
            return cls
        if cls.startswith("(FNew ["):
            raise Decline("projection of a new container")
        raise Decline("projection of " + cls[:20])

    def call_of(self, fn, argcls, env):
        if isinstance(fn, ast.Name) and fn.id in self.order:
            if argcls in ("FParam", "FImm"):
                return "(FCall %d)" % self.order.index(fn.id)
            if argcls == "FGlobal":
                return "FGlobal"
            raise Decline("argument of analysed call")
        if isinstance(fn, ast.Name) and fn.id in IMM_CALLS:
            return "FImm"
        raise Decline("mapped function")

    def comp(self, e, elt, env, inner=False):
        env = dict(env)
        for g in e.generators:
            self.bind(g.target, self.items(g.iter, env), env)
        c = self.expr(elt, env)
        return c if inner else "(FNew [%s])" % c

    def expr(self, e, env):
        if isinstance(e, (ast.Constant, ast.JoinedStr, ast.Compare, ast.BinOp, ast.UnaryOp)):
            return "FImm"
        if isinstance(e, ast.BoolOp):
            out = self.expr(e.values[0], env)
            for v in e.values[1:]:
                out = "(FChoice %s %s)" % (out, self.expr(v, env))
            return out
        if isinstance(e, ast.IfExp):
            return "(FChoice %s %s)" % (self.expr(e.body, env), self.expr(e.orelse, env))
        if isinstance(e, ast.Name):
            if e.id in env:
                return env[e.id]
            if e.id in ("None", "True", "False", "Ellipsis"):
                return "FImm"
            return "FGlobal"
        if isinstance(e, (ast.Attribute, ast.Subscript)):
            return self.proj(self.expr(e.value, env))
        if isinstance(e, ast.Dict):
            vals = []
            for k, v in zip(e.keys, e.values):
                vals.append(self.proj(self.expr(v, env)) if k is None else self.expr(v, env))
            return "(FNew [%s])" % "; ".join(vals)
        if isinstance(e, (ast.List, ast.Tuple, ast.Set)):
            return "(FNew [%s])" % "; ".join(self.proj(self.expr(x.value, env)) if isinstance(x, ast.Starred) else self.expr(x, env)
                                             for x in e.elts)
        if isinstance(e, (ast.ListComp, ast.SetComp, ast.GeneratorExp)):
            return self.comp(e, e.elt, env)
        if isinstance(e, ast.DictComp):
            return self.comp(e, e.value, env)
        if isinstance(e, ast.Call):
            if any(kw.arg is None for kw in e.keywords):
                kwcls = [self.proj(self.expr(kw.value, env)) for kw in e.keywords if kw.arg is None]
            else:
                kwcls = []
            kwcls += [self.expr(kw.value, env) for kw in e.keywords if kw.arg is not None]
            if isinstance(e.func, ast.Name):
                n = e.func.id
                if n in self.order:
                    if len(e.args) != 1 or e.keywords:
                        raise Decline("call shape of " + n)
                    return self.call_of(e.func, self.expr(e.args[0], env), env)
                if n == "getattr":
                    return self.proj(self.expr(e.args[0], env))
                if n == "cast" and len(e.args) == 2:
                    return self.expr(e.args[1], env)
                if n in IMM_CALLS:
                    return "FImm"
                if n in NEW_CALLS:
                    if n == "map":
                        return "(FNew [%s])" % self.call_of(e.args[0], self.items(e.args[1], env), env)
                    if n == "replace":
                        return "(FNew [%s])" % "; ".join([self.proj(self.expr(e.args[0], env))] + kwcls)
                    its = [self.items(a, env) for a in e.args]
                    return "(FNew [%s])" % "; ".join(its + kwcls)
                if n[:1].isupper() and n not in env:
                    # a class of the package: the constructor allocates, its arguments become items
                    return "(FNew [%s])" % "; ".join([self.expr(a, env) for a in e.args] + kwcls)
                raise Decline("call of " + n)
            if isinstance(e.func, ast.Attribute):
                base = self.expr(e.func.value, env)
                if base == "FImm" and e.func.attr in ("decode", "encode", "hex", "format", "join", "lower", "upper", "real", "imag",
                                                         "bit_length", "startswith", "endswith", "strip", "lstrip", "rstrip"):
                    return "FImm"
                if e.func.attr in ("get",):
                    return self.proj(base)
                raise Decline("method call ." + e.func.attr)
            raise Decline("call")
        raise Decline("expression " + type(e).__name__)


FRESH_FUNCS = [("_json_data.py", "value_to_json"), ("_json_data.py", "code_data_to_json"), ("_normalize.py", "normalize")]


def generate_fresh(repo, outpath):
    from common import write_if_changed
    notes = {}
    head = ("(* generated by harness/translate_src.py from /repo/code_data on every run; do not edit.\n"
            "   For each function: the expressions it can return, in the language of Model/FreshDoc.v. *)\n"
            "From Coq Require Import List.\nImport ListNotations.\nFrom PCD Require Import Model.FreshDoc.\n")
    try:
        funcs = {}
        for rel, name in FRESH_FUNCS:
            with open(os.path.join(repo, "code_data", rel)) as f:
                funcs[name] = find_func(ast.parse(f.read()), name)
        order = [n for _, n in FRESH_FUNCS]
        tr = FreshTranslator(funcs, order)
        bodies = []
        for n in order:
            bodies.append("  (* %s *) [%s]" % (n, "; ".join(tr.function(n))))
        text = head + "Definition fresh_prog : prog :=\n  [\n%s\n  ].\nDefinition fresh_translated := true.\n" % ";\n".join(bodies)
        notes["fresh"] = "translated (%d functions)" % len(order)
    except (Decline, OSError, SyntaxError, KeyError, IndexError) as e:
        # fall back to the accepted shape of the pinned source: tied by the aliasing oracle only
        text = head + ("(* declined: %s *)\nDefinition fresh_prog : prog := [[FImm]].\nDefinition fresh_translated := false.\n"
                       % str(e).replace("*)", "* )")[:120])
        notes["fresh"] = "declined: %s" % e
    notes["changed"] = write_if_changed(outpath, text)
    return notes


# ---------------------------------------------------------------------------------------------
# C07: the published JSON_SCHEMA (pure literal data) as a term of coq/Model/Json.v

def schema_term(e, env):
    if isinstance(e, ast.Dict):
        items = []
        for k, v in zip(e.keys, e.values):
            if not (isinstance(k, ast.Constant) and isinstance(k.value, str)):
                raise Decline("schema key")
            items.append("(%s, %s)" % (coq_lit(k.value), schema_term(v, env)))
        return "(JObj [%s])" % "; ".join(items) if items else "(JObj [])"
    if isinstance(e, (ast.List, ast.Tuple)):
        return "(JList [%s])" % "; ".join(schema_term(x, env) for x in e.elts) if e.elts else "(JList [])"
    if isinstance(e, ast.Constant):
        v = e.value
        if v is None:
            return "JNull"
        if isinstance(v, bool):
            return "(JBool %s)" % ("true" if v else "false")
        if isinstance(v, int):
            return "(JInt (%d))" % v
        if isinstance(v, str):
            return "(JStr %s)" % coq_lit(v)
        raise Decline("schema constant %r" % (v,))
    if isinstance(e, ast.Attribute) and e.attr == "__doc__":
        return "(JStr %s)" % coq_lit("doc")      # docstrings are annotations (description)
    if isinstance(e, ast.Name) and e.id in env:
        return env[e.id]
    raise Decline("schema expression " + type(e).__name__)


def coq_lit(text):
    if any(ord(ch) > 126 or ord(ch) < 32 for ch in text):
        raise Decline("non-printable character in schema string")
    return '(lit "%s")' % text.replace('"', '""')


def generate_schema(repo, outpath):
    from common import write_if_changed
    notes = {}
    try:
        with open(os.path.join(repo, "code_data", "__init__.py")) as f:
            tree = ast.parse(f.read())
        defs = schema_term(find_assign(tree, "_definitions"), {})
        schema = schema_term(find_assign(tree, "JSON_SCHEMA"), {"_definitions": "schema_definitions"})
        text = ("(* generated by harness/translate_src.py from code_data/__init__.py on every run; do not edit *)\n"
                "From Coq Require Import String List.\nImport ListNotations.\n"
                "From PCD Require Import Base.PyBase Model.Json.\nOpen Scope Z_scope.\n\n"
                "Definition schema_definitions : json := %s.\n\nDefinition JSON_SCHEMA : json := %s.\n"
                "Definition schema_translated := true.\n" % (defs, schema))
        notes["schema"] = "translated"
    except (Decline, OSError, SyntaxError) as e:
        text = ("(* JSON_SCHEMA declined: %s *)\nFrom PCD Require Import Base.PyBase Model.Json.\n"
                "Definition schema_definitions : json := JObj nil.\nDefinition JSON_SCHEMA : json := JObj nil.\n"
                "Definition schema_translated := false.\n" % e)
        notes["schema"] = "declined: %s" % e
    notes["changed"] = write_if_changed(outpath, text)
    return notes


# ---------------------------------------------------------------------------------------------
# C07/C15: the dataclass fields and their defaults (what to_json_data may omit), as data

def default_kind(v):
    if v is None:
        return "D_required"
    if isinstance(v, ast.Constant):
        if v.value is None:
            return "D_None"
        if v.value is False:
            return "D_False"
        if v.value == 0 and not isinstance(v.value, bool):
            return "D_zero"
        raise Decline("default constant %r" % (v.value,))
    if isinstance(v, ast.Tuple) and not v.elts:
        return "D_empty_tuple"
    if isinstance(v, ast.Call) and isinstance(v.func, ast.Name) and v.func.id == "tuple" and not v.args:
        return "D_empty_tuple"
    if isinstance(v, ast.Call) and isinstance(v.func, ast.Name) and v.func.id == "field":
        kw = {k.arg: k.value for k in v.keywords}
        if "default" in kw:
            return default_kind(kw["default"])
        if "default_factory" in kw:
            f = kw["default_factory"]
            if isinstance(f, ast.Lambda) and isinstance(f.body, ast.Call) and isinstance(f.body.func, ast.Name) and not f.body.args:
                return "(D_factory %s)" % coq_lit(f.body.func.id)
            if isinstance(f, ast.Name):
                return "(D_factory %s)" % coq_lit(f.id)
            raise Decline("default_factory")
        return "D_required"
    raise Decline("default expression " + type(v).__name__)


def generate_fields(repo, outpath):
    from common import write_if_changed
    notes = {}
    try:
        with open(os.path.join(repo, "code_data", "__init__.py")) as f:
            tree = ast.parse(f.read())
        classes = []
        frozen = []
        mutable = []
        for n in tree.body:
            if isinstance(n, ast.ClassDef) and any(
                    (isinstance(d, ast.Call) and getattr(d.func, "id", "") == "dataclass") or getattr(d, "id", "") == "dataclass"
                    for d in n.decorator_list):
                fields = []
                is_frozen = any(isinstance(d, ast.Call) and getattr(d.func, "id", "") == "dataclass"
                                and any(kw.arg == "frozen" and isinstance(kw.value, ast.Constant) and kw.value.value is True
                                        for kw in d.keywords) for d in n.decorator_list)
                frozen.append("(%s, %s)" % (coq_lit(n.name), "true" if is_frozen else "false"))
                for st in n.body:
                    if isinstance(st, ast.AnnAssign) and isinstance(st.target, ast.Name):
                        fields.append("(%s, %s)" % (coq_lit(st.target.id), default_kind(st.value)))
                        # a field typed with a mutable container would make a frozen instance deeply mutable
                        for sub in ast.walk(st.annotation):
                            nm = getattr(sub, "id", None) or getattr(sub, "attr", None)
                            if nm in ("list", "List", "dict", "Dict", "set", "Set", "MutableSequence", "MutableMapping",
                                      "MutableSet", "bytearray", "DefaultDict", "OrderedDict", "Deque", "deque"):
                                mutable.append("(%s, %s)" % (coq_lit(n.name), coq_lit(st.target.id)))
                classes.append("(%s, [%s])" % (coq_lit(n.name), "; ".join(fields)))
        text = ("(* generated by harness/translate_src.py from code_data/__init__.py on every run; do not edit *)\n"
                "From Coq Require Import String List.\nImport ListNotations.\n"
                "From PCD Require Import Base.PyBase Model.Json Model.JsonFields.\n\n"
                "Definition source_fields : list (str * list (str * field_default)) :=\n  [%s].\n"
                "Definition fields_translated := true.\n"
                "(* @dataclass(frozen=True) on each class; fields annotated with a mutable container type *)\n"
                "Definition source_frozen : list (str * bool) :=\n  [%s].\n"
                "Definition source_mutable_fields : list (str * str) :=\n  [%s].\n"
                % (";\n   ".join(classes), "; ".join(frozen), "; ".join(mutable)))
        notes["fields"] = "translated (%d classes)" % len(classes)
    except (Decline, OSError, SyntaxError) as e:
        text = ("(* dataclass fields declined: %s *)\nFrom PCD Require Import Base.PyBase Model.Json Model.JsonFields.\n"
                "Definition source_fields : list (str * list (str * field_default)) := model_fields.\n"
                "Definition fields_translated := false.\n"
                "Definition source_frozen : list (str * bool) := map (fun cf => (fst cf, true)) model_fields.\n"
                "Definition source_mutable_fields : list (str * str) := nil.\n" % e)
        notes["fields"] = "declined: %s" % e
    notes["changed"] = write_if_changed(outpath, text)
    return notes


FALLBACK = {
    "instrsize": "Definition instrsize := PCD.Model.Blocks.instrsize.\n",
    "int_bounds": "Definition MIN_INTEGER := PCD.Model.Json.MIN_INTEGER.\nDefinition MAX_INTEGER := PCD.Model.Json.MAX_INTEGER.\nDefinition MAX_DECIMAL_BITS := PCD.Model.Json.MAX_DECIMAL_BITS.\n",
    "fn_flags": "Definition FN_FLAGS := PCD.Model.CodeData.FN_FLAGS.\nDefinition FN_TYPE_FLAGS := map fst PCD.Model.CodeData.FN_TYPE_FLAGS.\n",
    "c_int": "Definition c_int_upper_limit := PCD.Model.Blocks.c_int_upper_limit.\nDefinition c_int_length := PCD.Model.Blocks.c_int_length.\n",
}


def generate(repo, outpath):
    from common import write_if_changed
    notes = {}
    items = []

    def parse(rel):
        with open(os.path.join(repo, "code_data", rel)) as f:
            return ast.parse(f.read())

    def attempt(label, fn):
        try:
            items.append(fn())
            notes[label] = "translated"
        except (Decline, OSError, SyntaxError) as e:
            notes[label] = "declined: %s" % e
            # fall back to the model's own definition: the item is then tied by correspondence only,
            # and a harmless rewrite into unsupported syntax breaks no proof obligation
            items.append("(* %s declined (%s): tied by correspondence only *)\n%sDefinition %s_translated := false.\n"
                         % (label, str(e).replace("*)", "* )")[:100], FALLBACK[label], label))

    def instrsize():
        f = find_func(parse("_blocks.py"), "_instrsize")
        arg = f.args.args[0].arg
        return ("Definition instrsize (%s : Z) : Z := %s.\nDefinition instrsize_translated := true.\n"
                % (arg, body_z(f.body, {arg: arg})))

    def int_bounds():
        t = parse("_json_data.py")
        lo = expr_z(find_assign(t, "MIN_INTEGER"), {})
        hi = expr_z(find_assign(t, "MAX_INTEGER"), {})
        bits = expr_z(find_assign(t, "MAX_DECIMAL_BITS"), {})
        return ("Definition MIN_INTEGER : Z := %s.\nDefinition MAX_INTEGER : Z := %s.\nDefinition MAX_DECIMAL_BITS : Z := %s.\n"
                "Definition int_bounds_translated := true.\n" % (lo, hi, bits))

    def fn_flags():
        t = parse("_code_data.py")
        a = str_set(find_assign(t, "FN_FLAGS"))
        b = str_set(find_assign(t, "FN_TYPE_FLAGS"))
        ctor = lambda n: n if n.isupper() else "F_" + n
        return ("Definition FN_FLAGS : list flag := [%s].\nDefinition FN_TYPE_FLAGS : list flag := [%s].\n"
                "Definition fn_flags_translated := true.\n" % ("; ".join(map(ctor, a)), "; ".join(map(ctor, b))))

    def c_int():
        t = parse("_blocks.py")
        env = {"_c_int_bit_size": "32"}  # ctypes.sizeof(c_int) * 8 on every supported platform
        hi = expr_z(find_assign(t, "_c_int_upper_limit"), env)
        ln = expr_z(find_assign(t, "_c_int_length"), env)
        return "Definition c_int_upper_limit : Z := %s.\nDefinition c_int_length : Z := %s.\nDefinition c_int_translated := true.\n" % (hi, ln)

    attempt("instrsize", instrsize)
    attempt("int_bounds", int_bounds)
    attempt("fn_flags", fn_flags)
    attempt("c_int", c_int)
    text = ("(* generated by harness/translate_src.py from /repo/code_data/*.py on every run; do not edit *)\n"
            "From PCD Require Import Base.PyBase Base.Cfg.\nFrom PCD Require Model.Blocks Model.Json Model.CodeData.\n\n" + "\n".join(items))
    notes["changed"] = write_if_changed(outpath, text)
    return notes
