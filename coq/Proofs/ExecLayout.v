(* The execution clause of C05 (statements in Proofs/C05e_Statements.v):
   1. exec_code    : CPython's byte-offset machine on a code object is the index machine on dis's
                     symbolic view (no premise on the code object);
   2. exec_related : views related instruction by instruction run in lock step;
   3. C05_exec     : the original code object and the code object re-encoded from the normal form
                     execute alike for every interpreter that respects normalize_const and key_eqb. *)
From Coq Require Import ZArith List Bool Lia ZifyBool Sorted.
From PCD Require Import Base.PyBase Base.Cfg Model.Flags Model.Args Model.Data Model.Consts
  Model.LineTable Model.Blocks Model.CodeData Spec.Lnotab Spec.Dis Spec.Exec Model.ViewSer
  Proofs.C02_Statements Proofs.C11_Statements Proofs.C01_Statements Proofs.C03_Statements
  Proofs.C03b_Statements Proofs.C03c_Statements Proofs.C06_Statements Proofs.NormalFormWf
  Proofs.C05e_Statements.
From PCD Require Proofs.NormalizePreserves.
Import ListNotations. Open Scope Z_scope.

(* ------------------------------------------------------------------ *)
(** * 0. lists *)

Lemma znth_of_nat {A} (l : list A) (i : nat) : znth l (Z.of_nat i) = nth_error l i.
Proof.
  unfold znth. destruct (Z.of_nat i <? 0) eqn:E; [lia|]. now rewrite Nat2Z.id.
Qed.

Lemma index_of_some : forall (l : list Z) t k,
  index_of Z.eqb t l = Some k -> 0 <= k /\ nth_error l (Z.to_nat k) = Some t.
Proof.
  induction l as [|y r IH]; intros t k H; cbn [index_of] in H; [discriminate|].
  destruct (t =? y) eqn:E.
  - inversion H; subst. apply Z.eqb_eq in E. subst. split; [lia|reflexivity].
  - destruct (index_of Z.eqb t r) as [j|] eqn:Ej; [|discriminate]. inversion H; subst.
    destruct (IH t j Ej) as [Hj Hn]. split; [lia|].
    replace (Z.to_nat (j + 1)) with (Datatypes.S (Z.to_nat j)) by lia. exact Hn.
Qed.

Lemma index_of_none : forall (l : list Z) t, index_of Z.eqb t l = None -> ~ In t l.
Proof.
  induction l as [|y r IH]; intros t H Hin; cbn [index_of] in H; [exact Hin|].
  destruct (t =? y) eqn:E; [discriminate|].
  destruct (index_of Z.eqb t r) eqn:Ej; [discriminate|].
  destruct Hin as [Hy|Hr]; [lia|]. exact (IH t Ej Hr).
Qed.

Lemma ss_nodup (l : list Z) : StronglySorted Z.lt l -> NoDup l.
Proof.
  induction 1 as [|a l _ IH Hf]; constructor; [|exact IH].
  intros Hin. rewrite Forall_forall in Hf. specialize (Hf _ Hin). lia.
Qed.

Lemma list_ind2 {A} (P : list A -> Prop) :
  P [] -> (forall x, P [x]) -> (forall x y r, P r -> P (x :: y :: r)) -> forall l, P l.
Proof.
  intros H0 H1 H2. fix go 1. intros [|x [|y r]]; [exact H0 | apply H1 | apply H2, go].
Qed.

(* ------------------------------------------------------------------ *)
(** * 1. the two machines on a folded list with distinct first offsets *)

Section Layout.
  Context {K St : Type}.
  Variable sem : Z -> dval K -> option Z -> St -> St * ctl.
  Variable line : Z -> option Z.

  Definition offs (l : list (Z * Z * dval K)) : list Z := map (fun x => fst (fst x)) l.

  Definition vw (l : list (Z * Z * dval K)) (x : Z * Z * dval K) : vinstr K :=
    let '(first, op, v) := x in
    mkV op (match v with DJump t rel => DJump (index_of_offset l t) rel | _ => v end) (line first).

  Definition view_of (l : list (Z * Z * dval K)) : list (vinstr K) := map (vw l) l.

  Lemma zlen_view l : zlen (view_of l) = zlen l.
  Proof. unfold zlen, view_of. now rewrite map_length. Qed.

  Lemma znth_view l i x : nth_error l i = Some x -> znth (view_of l) (Z.of_nat i) = Some (vw l x).
  Proof. intros H. rewrite znth_of_nat. unfold view_of. now rewrite nth_error_map, H. Qed.

  Lemma erase_view (l : list (Z * Z * dval K)) (v : dval K) :
    erase_target (match v with DJump t rel => DJump (index_of_offset l t) rel | _ => v end)
    = erase_target v.
  Proof. destruct v; reflexivity. Qed.

  Lemma fetch_at_nth : forall l, NoDup (offs l) -> forall i x, nth_error l i = Some x ->
    fetch_at l (fst (fst x))
    = Some (x, option_map (fun y : Z * Z * dval K => fst (fst y)) (nth_error l (Datatypes.S i))).
  Proof.
    induction l as [|y r IH]; intros Hnd i x Hx.
    - destruct i; discriminate.
    - cbn [offs map] in Hnd. inversion Hnd as [|? ? Hnin Hnd']; subst.
      destruct i as [|i]; cbn [nth_error] in Hx.
      + inversion Hx; subst. cbn [fetch_at]. rewrite Z.eqb_refl. destruct r; reflexivity.
      + cbn [fetch_at]. destruct (fst (fst y) =? fst (fst x)) eqn:E.
        * apply Z.eqb_eq in E. exfalso. apply Hnin. rewrite E. apply in_map_iff.
          exists x. split; [reflexivity|]. eapply nth_error_In; eauto.
        * rewrite (IH Hnd' i x Hx). reflexivity.
  Qed.

  Lemma fetch_at_none : forall l t, ~ In t (offs l) -> fetch_at l t = None.
  Proof.
    induction l as [|y r IH]; intros t H; [reflexivity|]. cbn [fetch_at].
    destruct (fst (fst y) =? t) eqn:E.
    - apply Z.eqb_eq in E. exfalso. apply H. cbn [offs map In]. left. exact E.
    - apply IH. intros H'. apply H. cbn [offs map In]. right. exact H'.
  Qed.

  Lemma jump_sim l f :
    (forall i x s, nth_error l i = Some x ->
       run_offsets sem f l line (fst (fst x)) s = run_index sem f (view_of l) (Z.of_nat i) s) ->
    forall t s, run_offsets sem f l line t s = run_index sem f (view_of l) (index_of_offset l t) s.
  Proof.
    intros IH t s. unfold index_of_offset.
    destruct (index_of Z.eqb t (map (fun x : Z * Z * dval K => fst (fst x)) l)) as [k|] eqn:E.
    - apply index_of_some in E as [Hk Hn]. rewrite nth_error_map in Hn.
      destruct (nth_error l (Z.to_nat k)) as [x|] eqn:Ex; cbn [option_map] in Hn; [|discriminate].
      inversion Hn as [Ht].
      replace k with (Z.of_nat (Z.to_nat k)) by lia.
      rewrite <- (IH _ x s Ex). reflexivity.
    - apply index_of_none in E. destruct f; [reflexivity|].
      cbn [run_offsets run_index]. rewrite (fetch_at_none l t E). reflexivity.
  Qed.

  Lemma sim l : NoDup (offs l) -> forall fuel i x s, nth_error l i = Some x ->
    run_offsets sem fuel l line (fst (fst x)) s = run_index sem fuel (view_of l) (Z.of_nat i) s.
  Proof.
    intros Hnd. induction fuel as [|f IH]; intros i x s Hx; [reflexivity|].
    cbn [run_offsets run_index].
    rewrite (fetch_at_nth l Hnd i x Hx), (znth_view l i x Hx).
    destruct x as [[off op] v]. cbn [vw fst snd v_op v_val v_line]. rewrite erase_view.
    destruct (sem op (erase_target v) (line off) s) as [s' k].
    destruct k.
    - (* CNext *)
      rewrite zlen_view.
      destruct (nth_error l (Datatypes.S i)) as [y|] eqn:Ey; cbn [option_map].
      + assert (Hlt : (Datatypes.S i < length l)%nat) by (apply nth_error_Some; congruence).
        destruct (Z.of_nat i + 1 <? zlen l) eqn:E; [|unfold zlen in E; lia].
        replace (Z.of_nat i + 1) with (Z.of_nat (Datatypes.S i)) by lia.
        rewrite (IH _ y s' Ey). reflexivity.
      + apply nth_error_None in Ey.
        destruct (Z.of_nat i + 1 <? zlen l) eqn:E; [unfold zlen in E; lia|]. reflexivity.
    - (* CTake *)
      destruct v; try reflexivity.
      f_equal. apply jump_sim. exact IH.
    - reflexivity.
  Qed.
End Layout.

(* ------------------------------------------------------------------ *)
(** * 2. the first offsets of dis's folded list are strictly increasing and start at 0 *)

Definition uoffs (u : list (Z * Z * option Z)) : list Z := map (fun x => fst (fst x)) u.

Lemma unpack_sorted c : forall b i ext,
  StronglySorted Z.lt (uoffs (dis_unpack c b i ext)) /\
  Forall (fun o => i <= o) (uoffs (dis_unpack c b i ext)).
Proof.
  induction b as [|x|op byte r IH] using list_ind2; intros i ext.
  - cbn. split; constructor.
  - cbn. split; constructor.
  - cbn [dis_unpack]. cbv zeta.
    destruct (op >=? cfg_have_argument c); cbn [uoffs map fst];
      match goal with |- context [dis_unpack c r (i + 2) ?e] => destruct (IH (i + 2) e) as [S1 F1] end;
      (split; constructor;
       [exact S1 | eapply Forall_impl; [|exact F1]; cbn beta; intros; lia
       | lia | eapply Forall_impl; [|exact F1]; cbn beta; intros; lia]).
Qed.

Lemma unpack_head c b i ext u r : dis_unpack c b i ext = u :: r -> fst (fst u) = i.
Proof.
  destruct b as [|op [|byte b']]; cbn [dis_unpack]; try discriminate. cbv zeta.
  destruct (op >=? cfg_have_argument c); intros H; inversion H; reflexivity.
Qed.

Section Fold.
  Context {K : Type}.
  Variables (c : cfg) (names varnames freevars cellvars : list str) (consts : list K).
  Notation fold := (dis_fold c names varnames freevars cellvars consts).

  Lemma fold_sorted : forall units start lo,
    StronglySorted Z.lt (uoffs units) -> Forall (fun o => lo <= o) (uoffs units) ->
    (forall s, start = Some s -> lo <= s /\ Forall (fun o => s < o) (uoffs units)) ->
    StronglySorted Z.lt (offs (fold units start)) /\
    Forall (fun o => lo <= o) (offs (fold units start)).
  Proof.
    induction units as [|[[off op] a] r IH]; intros start lo Hs Hlo Hst.
    - cbn. split; constructor.
    - cbn [uoffs map fst] in Hs, Hlo.
      inversion Hs as [|? ? Hs' Hgt]; subst. inversion Hlo as [|? ? Hoff Hlo']; subst.
      assert (Hf : lo <= match start with Some s => s | None => off end /\
                   Forall (fun o => match start with Some s => s | None => off end < o) (uoffs r)).
      { destruct start as [s|].
        - destruct (Hst s eq_refl) as [H1 H2]. cbn [uoffs map] in H2. inversion H2; subst.
          split; assumption.
        - split; [exact Hoff|exact Hgt]. }
      destruct Hf as [Hf1 Hf2].
      cbn [dis_fold]. cbv zeta.
      set (first := match start with Some s => s | None => off end) in *.
      destruct (op =? cfg_extended_arg c).
      + apply IH; try assumption. intros s Es. inversion Es; subst. split; assumption.
      + destruct (IH None (first + 1) Hs') as [S1 F1].
        * eapply Forall_impl; [|exact Hf2]. cbn beta; intros; lia.
        * intros s Es; discriminate.
        * cbn [offs map fst]. split; constructor.
          -- exact S1.
          -- eapply Forall_impl; [|exact F1]. cbn beta; intros; lia.
          -- exact Hf1.
          -- eapply Forall_impl; [|exact F1]. cbn beta; intros; lia.
  Qed.

  Lemma fold_head : forall units start x r, fold units start = x :: r ->
    fst (fst x) = match start with
                  | Some s => s
                  | None => match units with u :: _ => fst (fst u) | [] => 0 end
                  end.
  Proof.
    induction units as [|[[off op] a] u IH]; intros start x r H; [cbn in H; discriminate|].
    cbn [dis_fold] in H. cbv zeta in H. destruct (op =? cfg_extended_arg c).
    - rewrite (IH _ _ _ H). destruct start; reflexivity.
    - inversion H; subst. cbn [fst]. destruct start; reflexivity.
  Qed.
End Fold.

Theorem exec_code : S_exec_code.
Proof.
  intros K St sem fuel c code names varnames freevars cellvars consts table firstlineno s.
  set (ln := dis_line c table firstlineno).
  pose (l := dis_fold c names varnames freevars cellvars consts (dis_unpack c code 0 0) None).
  change (run_offsets sem fuel l ln 0 s = run_index sem fuel (view_of ln l) 0 s).
  assert (Hnd : NoDup (offs l)).
  { apply ss_nodup. destruct (unpack_sorted c code 0 0) as [U1 U2].
    apply (fold_sorted c names varnames freevars cellvars consts _ None 0 U1 U2).
    intros s0 E; discriminate. }
  assert (Hhd : forall x r, l = x :: r -> fst (fst x) = 0).
  { intros x r E. unfold l in E. rewrite (fold_head _ _ _ _ _ _ _ _ _ _ E).
    destruct (dis_unpack c code 0 0) as [|u us] eqn:Eu; [reflexivity|].
    exact (unpack_head _ _ _ _ _ _ Eu). }
  clearbody l. destruct l as [|x r].
  - destruct fuel; reflexivity.
  - pose proof (sim sem ln (x :: r) Hnd fuel 0%nat x s eq_refl) as Hs.
    rewrite (Hhd x r eq_refl) in Hs. exact Hs.
Qed.

(* ------------------------------------------------------------------ *)
(** * 3. lock step *)

Lemma Forall2_znth {A B} (R : A -> B -> Prop) : forall a b, Forall2 R a b -> forall i,
  match znth a i, znth b i with
  | Some x, Some y => R x y
  | None, None => True
  | _, _ => False
  end.
Proof.
  intros a b H i. unfold znth. destruct (i <? 0); [exact I|]. generalize (Z.to_nat i) as n.
  induction H as [|x y a b Hxy _ IH]; intros [|n]; cbn [nth_error]; auto.
  apply IH.
Qed.

Theorem exec_related : S_exec_related.
Proof.
  intros K1 K2 St sem1 sem2 v1 v2 HF.
  assert (Hlen : zlen v1 = zlen v2).
  { unfold zlen. f_equal. eapply Forall2_length_eq; eauto. }
  induction fuel as [|f IH]; intros pc s.
  - cbn. auto.
  - cbn [run_index].
    pose proof (Forall2_znth _ _ _ HF pc) as Hz.
    destruct (znth v1 pc) as [x|]; destruct (znth v2 pc) as [y|]; try contradiction.
    2: { cbn. auto. }
    destruct Hz as (Hop & Hline & Hj & Hsem).
    rewrite Hsem. clear Hsem. rewrite Hop, Hline.
    destruct (sem2 (v_op y) (erase_target (v_val y)) (v_line y) s) as [s' k].
    destruct k.
    + rewrite Hlen. destruct (pc + 1 <? zlen v2).
      * generalize (IH (pc + 1) s').
        destruct (run_index sem1 f v1 (pc + 1) s') as [[t1 s1] o1].
        destruct (run_index sem2 f v2 (pc + 1) s') as [[t2 s2] o2].
        intros (A & B & C). cbn [push map]. repeat split; try assumption.
        f_equal. exact C.
      * cbn. repeat split.
    + revert Hj. destruct (v_val x), (v_val y); cbn beta iota; intros Hj; try contradiction;
        try (cbn; repeat split; fail).
      destruct Hj as [<- <-].
      generalize (IH target s').
      destruct (run_index sem1 f v1 target s') as [[t1 s1] o1].
      destruct (run_index sem2 f v2 target s') as [[t2 s2] o2].
      intros (A & B & C). cbn [push map]. repeat split; try assumption.
      f_equal. exact C.
    + cbn. repeat split.
Qed.

(* ------------------------------------------------------------------ *)
(** * 4. C05 *)

Lemma map_view_dval {K L} (f : K -> L) v :
  map_view f v = map (fun x => mkV (v_op x) (map_dval f (v_val x)) (v_line x)) v.
Proof. reflexivity. Qed.

(* the view of data whose constants were mapped (in the exception monad) by a function with a
   left inverse is the image of the view *)
Section Pair.
  Context {C D : Type} (g : C -> res D) (f : D -> C).
  Hypothesis Hg : forall k k', g k = OK k' -> f k' = k.

  Lemma instr_pair firsts i j : mapM_instr g i = OK j ->
    mkV (i_name i) (data_val firsts (i_arg i)) (i_line i)
    = mkV (i_name j) (map_dval f (data_val firsts (i_arg j))) (i_line j).
  Proof.
    unfold mapM_instr. destruct (mapM_arg g (i_arg i)) as [a|] eqn:E; [|discriminate].
    intros H; inversion H; subst; clear H. cbn [i_name i_arg i_line]. f_equal.
    destruct (i_arg i) as [z|t rel|s ov|s ov|k ov|s|s ov|z]; cbn [mapM_arg] in E;
      try (inversion E; subst; reflexivity).
    destruct (g k) as [k'|] eqn:Ek; [|discriminate]. inversion E; subst.
    cbn [data_val map_dval]. rewrite (Hg _ _ Ek). reflexivity.
  Qed.

  Let R (i : instr_ C) (j : instr_ D) : Prop := mapM_instr g i = OK j.

  Lemma bfi_F2 : forall bl bl', Forall2 (Forall2 R) bl bl' ->
    forall i, block_first_indices bl i = block_first_indices bl' i.
  Proof.
    induction 1 as [|b b' bl bl' Hb _ IH]; intros i; cbn [block_first_indices]; [reflexivity|].
    f_equal. unfold zlen. rewrite (Forall2_length_eq _ _ _ Hb). apply IH.
  Qed.

  Lemma concat_F2 : forall bl bl', Forall2 (Forall2 R) bl bl' -> Forall2 R (concat bl) (concat bl').
  Proof.
    induction 1 as [|b b' bl bl' Hb _ IH]; cbn [concat]; [constructor|].
    apply Forall2_app; assumption.
  Qed.

  Lemma map_F2 {X Y Z'} (Q : X -> Y -> Prop) (p : X -> Z') (q : Y -> Z') : forall a b,
    Forall2 Q a b -> (forall x y, Q x y -> p x = q y) -> map p a = map q b.
  Proof.
    induction 1 as [|x y a b Hxy _ IH]; intros H; cbn [map]; [reflexivity|].
    rewrite (H _ _ Hxy), (IH H). reflexivity.
  Qed.

  Lemma blocks_pair bl bl' : mapM (mapM (mapM_instr g)) bl = OK bl' ->
    data_view bl = map_view f (data_view bl').
  Proof.
    intros H. apply mapM_F2 in H.
    assert (Hb : Forall2 (Forall2 R) bl bl').
    { induction H as [|b b' bl bl' Hbb _ IH]; constructor; [|exact IH].
      apply mapM_F2 in Hbb. exact Hbb. }
    rewrite map_view_dval. unfold data_view. rewrite map_map.
    apply (map_F2 R); [apply concat_F2; exact Hb|].
    intros i j Hij. cbn [v_op v_val v_line]. rewrite (bfi_F2 _ _ Hb 0).
    apply instr_pair. exact Hij.
  Qed.
End Pair.

Section C05.
  Context {St : Type}.
  Variable sem : Z -> dval const -> option Z -> St -> St * ctl.
  Hypothesis Ha : forall op v line s, sem op (map_dval normalize_const v) line s = sem op v line s.
  Hypothesis Hb : forall op v v' line s, val_match key_eqb v v' = true -> sem op v line s = sem op v' line s.

  Let sem2 := fun op (v : dval pconst) => sem op (map_dval fst v).

  Lemma vrel_elem (x : vinstr const) (z y : vinstr pconst) :
    v_op x = v_op z -> map_dval normalize_const (v_val x) = map_dval fst (v_val z) ->
    v_line x = v_line z ->
    (v_op z =? v_op y) && val_match pkey_eqb (v_val z) (v_val y)
      && option_eqb Z.eqb (v_line z) (v_line y) = true ->
    vrel sem sem2 x y.
  Proof.
    destruct x as [ox vx lx], z as [oz vz lz], y as [oy vy ly]. cbn [v_op v_val v_line].
    intros -> Hv -> H. apply andb_true_iff in H as [H Hl]. apply andb_true_iff in H as [Ho Hm].
    apply Z.eqb_eq in Ho. subst oy.
    assert (El : lz = ly).
    { destruct lz, ly; cbn [option_eqb] in Hl; try discriminate;
        [apply Z.eqb_eq in Hl; subst|]; reflexivity. }
    subst ly. clear Hl.
    unfold vrel, sem2. cbn [v_op v_val v_line].
    split; [reflexivity|]. split; [reflexivity|]. split.
    - destruct vx, vz; cbn [map_dval] in Hv; try discriminate;
        destruct vy; cbn [val_match] in Hm; try discriminate; try exact I.
      inversion Hv; subst. apply andb_true_iff in Hm as [A B].
      apply Z.eqb_eq in A. apply eqb_prop in B. split; assumption.
    - intros s. rewrite <- (Ha oz (erase_target vx)). apply Hb.
      destruct vx, vz; cbn [map_dval] in Hv; try discriminate;
        destruct vy; cbn [val_match] in Hm; try discriminate;
        cbn [erase_target map_dval val_match]; inversion Hv; subst;
        try reflexivity; try assumption.
      + (* DConst *)
        unfold pkey_eqb in Hm.
        match goal with H : normalize_const _ = fst _ |- _ => rewrite H end. exact Hm.
      + (* DJump *)
        apply andb_true_iff in Hm as [_ B]. rewrite B. reflexivity.
  Qed.

  Lemma chain : forall (V1 : list (vinstr const)) (D' V2 : list (vinstr pconst)),
    map_view normalize_const V1 = map_view fst D' ->
    view_agrees pkey_eqb D' V2 = true ->
    Forall2 (vrel sem sem2) V1 V2.
  Proof.
    unfold view_agrees. intros V1 D' V2. rewrite !map_view_dval. revert D' V2.
    induction V1 as [|x V1 IH]; intros [|z D'] [|y V2] H1 H2;
      cbn [map list_eqb] in H1, H2; try discriminate; constructor.
    - apply andb_true_iff in H2 as [H2 _]. injection H1 as Ho Hv Hl _.
      exact (vrel_elem x z y Ho Hv Hl H2).
    - apply andb_true_iff in H2 as [_ H2]. injection H1 as _ _ _ Ht.
      exact (IH D' V2 Ht H2).
  Qed.
End C05.

Theorem C05_exec : S_C05_exec.
Proof.
  intros St sem c code ks d d' code' Ha Hb Hwf Hne Hfv Hvn Hnd Hext Hdec Hpair Henc Hlen.
  destruct (NormalizePreserves.C05_view c code ks d d' code' Hwf Hne Hfv Hvn Hnd Hext Hdec Hpair Henc Hlen)
    as (Hdn & kst & Hk & Hview & _).
  exists kst. split; [exact Hk|]. intros fuel s.
  pose proof exec_code as EC. unfold S_exec_code in EC. rewrite !EC. clear EC.
  set (g := fun k' : const => match from_const c k' with OK p => OK (k', p) | Err e => Err e end) in *.
  assert (Hg : forall k k', g k = OK k' -> fst k' = k).
  { intros k k'. unfold g. destruct (from_const c k); intros H; inversion H; reflexivity. }
  unfold mapM_cd in Hpair.
  destruct (mapM (mapM (mapM_instr g)) (cd_blocks (normalize d))) as [bl|] eqn:Eb; [|discriminate].
  destruct (mapM (mapM_arg g) (cd_addargs (normalize d))) as [aa|]; [|discriminate].
  inversion Hpair; subst d'. cbn [cd_blocks] in Hview.
  pose proof (blocks_pair g fst Hg _ _ Eb) as Hp. rewrite Hdn in Hp.
  pose proof (chain sem Ha Hb _ _ _ Hp Hview) as HF.
  exact (exec_related _ _ _ sem _ _ _ HF fuel 0 s).
Qed.

Print Assumptions exec_code.
Print Assumptions exec_related.
Print Assumptions C05_exec.
