(* C03 (K2), lines carried: the table written by from_line_mapping for an instruction layout, read by
   CPython's readers (addr2line / co_lines), gives every instruction its line; and the conversion
   never fails on such layouts. *)
From Coq Require Import ZArith List Bool Lia ZifyBool.
From PCD Require Import Base.PyBase Base.Cfg Model.LineTable Spec.Lnotab Spec.Dis Model.ViewSer
  Proofs.C10_Statements Proofs.C03_Statements.
From PCD Require Proofs.LT_ExpandCollapse Proofs.LT_310 Proofs.LT_Lnotab.
Import ListNotations. Open Scope Z_scope.
Ltac Zify.zify_post_hook ::= Z.to_euclidean_division_equations.

Ltac split_andb :=
  repeat match goal with
         | H : _ && _ = true |- _ => apply andb_true_iff in H; destruct H
         end.

(** * 1. The mapping of a layout is the mapping of a list of ranges *)

Definition shift (d : Z) (v : option Z) : option Z :=
  match v with Some l => Some (l + d) | None => None end.

Definition rawp (d : Z) (l : list layout_item) : list (Z * option Z) :=
  map (fun x : layout_item => (2 * snd (fst x), shift d (snd x))) l.

Lemma modify_layout d : forall l a,
  layout_ok l a = true ->
  map (fun kv : Z * option Z =>
         (fst kv, match snd kv with Some l => Some (l + d) | None => None end))
      (lines_of_layout l) = mapping_of_ranges (rawp d l) a.
Proof.
  induction l as [|[[f n] line] r IH]; intros a H; [reflexivity|].
  cbn [layout_ok] in H. split_andb.
  assert (f = a) by lia. subst f.
  cbn [lines_of_layout rawp map mapping_of_ranges fst snd]. fold (rawp d r).
  rewrite map_app, map_map. cbn [fst snd]. f_equal.
  apply IH. assumption.
Qed.

Definition pe (x : Z * option Z) : Prop := 0 < fst x /\ (fst x) mod 2 = 0.

Lemma rawp_pe d : forall l a, layout_ok l a = true -> Forall pe (rawp d l).
Proof.
  induction l as [|[[f n] line] r IH]; intros a H; [constructor|].
  cbn [layout_ok] in H. split_andb.
  cbn [rawp map fst snd]. constructor.
  - unfold pe. cbn [fst]. lia.
  - eapply IH. eassumption.
Qed.

Lemma layout_lower : forall l a o n line,
  layout_ok l a = true -> In (o, n, line) l -> a <= o /\ (o - a) mod 2 = 0.
Proof.
  induction l as [|[[f n0] line0] r IH]; intros a o n line H Hin; [destruct Hin|].
  cbn [layout_ok] in H. split_andb.
  destruct Hin as [E|Hin].
  - inversion E; subst. lia.
  - destruct (IH _ _ _ _ H0 Hin). lia.
Qed.

Lemma oget_layout d : forall l a o n line,
  layout_ok l a = true -> In (o, n, line) l ->
  oget (mapping_of_ranges (rawp d l) a) o = Some (shift d line).
Proof.
  induction l as [|[[f n0] line0] r IH]; intros a o n line H Hin; [destruct Hin|].
  cbn [layout_ok] in H. split_andb.
  assert (f = a) by lia. subst f.
  cbn [rawp map mapping_of_ranges fst snd]. fold (rawp d r).
  rewrite LT_310.oget_app.
  assert (W : LT_310.wfw (2 * n0)) by (unfold LT_310.wfw; lia).
  destruct Hin as [E|Hin].
  - inversion E; subst.
    rewrite LT_310.oget_map_in; [reflexivity|].
    apply LT_310.In_range2; [assumption | lia].
  - destruct (layout_lower _ _ _ _ _ H0 Hin).
    rewrite LT_310.oget_map_notin by (rewrite LT_310.In_range2 by assumption; lia).
    eapply IH; eassumption.
Qed.

(** * 2. Bytes *)

Lemma items_to_bytes_even : forall t b, items_to_bytes t = OK b -> Nat.even (length b) = true.
Proof.
  induction t as [|[ln bc] r IH]; intros b H.
  - cbn in H. inversion H. reflexivity.
  - cbn [items_to_bytes] in H. destruct (byte_ok bc); [|discriminate].
    destruct (items_to_bytes r) as [rest|e] eqn:E; [|discriminate].
    inversion H; subst. cbn [length Nat.even]. eapply IH. reflexivity.
Qed.

Lemma bytes_of_raw t :
  raw_ok false t = true ->
  exists b, items_to_bytes t = OK b /\ forallb byte_ok b = true /\
            Nat.even (length b) = true /\ raw_entries b = t.
Proof.
  intros H. destruct (LT_ExpandCollapse.items_bytes t H) as (b & E1 & E2 & E3).
  exists b. split; [assumption|]. split; [assumption|]. split.
  - eapply items_to_bytes_even; eassumption.
  - unfold raw_entries. rewrite E3. reflexivity.
Qed.

(** * 3. co_linetable (3.10) *)

(* merge neighbouring ranges with equal lines *)
Fixpoint merge (p : list (Z * option Z)) : list (Z * option Z) :=
  match p with
  | [] => []
  | (bd, line) :: r =>
      match merge r with
      | [] => [(bd, line)]
      | (bd', line') :: r' =>
          if option_eqb Z.eqb line line' then (bd + bd', line) :: r'
          else (bd, line) :: (bd', line') :: r'
      end
  end.

Lemma option_eqb_true a b : option_eqb Z.eqb a b = true -> a = b.
Proof.
  destruct a, b; cbn [option_eqb]; intros H; try discriminate; try reflexivity.
  f_equal. lia.
Qed.

Lemma ranges_ok_unfold bd line bd' line' r :
  ranges_ok ((bd, line) :: (bd', line') :: r) =
  (0 <? bd) && Z.even bd && negb (option_eqb Z.eqb line line') && ranges_ok ((bd', line') :: r).
Proof. reflexivity. Qed.

Lemma merge_spec p : Forall pe p ->
  ranges_ok (merge p) = true /\
  (forall a, mapping_of_ranges (merge p) a = mapping_of_ranges p a) /\
  (p <> [] -> merge p <> []).
Proof.
  induction 1 as [|[bd line] r Hx Hr (IH1 & IH2 & IH3)].
  - split; [reflexivity|]. split; [reflexivity|congruence].
  - unfold pe in Hx. cbn [fst] in Hx. destruct Hx as [Hbd Hev].
    assert (Hev' : Z.even bd = true) by (apply LT_310.even_mod2; assumption).
    cbn [merge]. destruct (merge r) as [|[bd' line'] r'] eqn:E.
    + split; [|split].
      * cbn [ranges_ok]. rewrite Hev'. lia.
      * intros a. cbn [mapping_of_ranges]. rewrite <- IH2. reflexivity.
      * discriminate.
    + pose proof IH1 as IH1'.
      apply LT_310.ranges_ok_cons in IH1 as (Hbd' & Hev2 & Hr' & Hne').
      destruct (option_eqb Z.eqb line line') eqn:Eo.
      * apply option_eqb_true in Eo. subst line'. split; [|split].
        -- assert (Hev3 : Z.even (bd + bd') = true) by (apply LT_310.even_mod2; lia).
           destruct r' as [|[b2 l2] r2].
           ++ cbn [ranges_ok]. rewrite Hev3. lia.
           ++ rewrite ranges_ok_unfold, Hev3, Hne', Hr'. lia.
        -- intros a. cbn [mapping_of_ranges]. rewrite <- IH2. cbn [mapping_of_ranges].
           rewrite LT_310.range2_split by (unfold LT_310.wfw; lia).
           rewrite map_app, <- app_assoc, Z.add_assoc. reflexivity.
        -- discriminate.
      * split; [|split].
        -- rewrite ranges_ok_unfold, Hev', Eo, IH1'. lia.
        -- intros a. cbn [mapping_of_ranges]. rewrite <- IH2. reflexivity.
        -- discriminate.
Qed.

(* converse of LT_310.sem_colines: where the denotation has an entry, co_lines() reports it *)
Lemma sem_colines_conv t : forall a line o x,
  raw_ok true t = true -> raw_even t = true ->
  a mod 2 = 0 -> o mod 2 = 0 ->
  oget (LT_310.sem (map (to_citem true) t) line a) o = Some x ->
  colines_from t a line o = Some x.
Proof.
  induction t as [|[ld bd] t IH]; intros a line o x H1 H2 Ha Ho Hc.
  - discriminate Hc.
  - unfold raw_ok in H1. unfold raw_even in H2. cbn [forallb] in H1, H2.
    apply andb_true_iff in H1. destruct H1 as [H1 H1'].
    apply andb_true_iff in H2. destruct H2 as [H2 H2'].
    cbn [snd] in H2. apply LT_310.even_mod2 in H2.
    unfold raw_entry_ok in H1. cbn [fst snd] in H1.
    assert (Hw : LT_310.wfw bd) by (unfold LT_310.wfw; lia).
    cbn [colines_from]. cbn [map to_citem LT_310.sem andb] in Hc.
    rewrite LT_310.oget_app in Hc. unfold LT_310.cells in Hc.
    destruct ((a <=? o) && (o <? a + bd)) eqn:E2.
    + rewrite LT_310.oget_map_in in Hc by (apply LT_310.In_range2; [assumption | lia]).
      destruct (ld =? -128); congruence.
    + rewrite LT_310.oget_map_notin in Hc by (rewrite LT_310.In_range2 by assumption; lia).
      destruct (ld =? -128); apply IH; try assumption; lia.
Qed.

Lemma K2_310_core l d :
  layout_ok l 0 = true -> l <> [] ->
  exists table,
    from_line_mapping true
      (modify_line_offsets {| lm_lines := lines_of_layout l; lm_adds := [] |} d) = OK table /\
    forallb byte_ok table = true /\ Nat.even (length table) = true /\
    forall o n line, In (o, n, line) l -> colines (raw_entries table) o = Some (shift d line).
Proof.
  intros Hl Hne.
  destruct (merge_spec (rawp d l) (rawp_pe d l 0 Hl)) as (Hok & Hmap & Hnn).
  set (p := merge (rawp d l)) in *.
  assert (Hp : p <> []).
  { apply Hnn. destruct l; [congruence|discriminate]. }
  destruct (LT_310.asm_310_raw p 0 Hok) as [R1 R2].
  destruct (bytes_of_raw (asm_310 p 0) (LT_310.raw_ok_true_false _ R1)) as (b & B1 & B2 & B3 & B4).
  exists b. split; [|split; [assumption|split; [assumption|]]].
  - unfold modify_line_offsets. cbn [lm_lines lm_adds].
    rewrite (modify_layout d l 0 Hl). rewrite <- (Hmap 0).
    unfold from_line_mapping.
    rewrite (LT_310.items_of_mapping_310 p Hok Hp).
    rewrite (LT_310.expand_deltas p 0 Hok). exact B1.
  - intros o n line Hin. rewrite B4. unfold colines.
    destruct (layout_lower _ _ _ _ _ Hl Hin) as [Ho1 Ho2].
    apply sem_colines_conv; try assumption; try reflexivity.
    + rewrite Z.sub_0_r in Ho2. exact Ho2.
    + rewrite LT_310.sem_asm by assumption. rewrite Hmap.
      eapply oget_layout; eassumption.
Qed.

(** * 4. co_lnotab (<= 3.9) *)

(** ** 4.1 a block of raw entries that CPython's reader cannot tell from a single entry (l, b) *)

Definition P (t : list eitem) (b l : Z) : Prop :=
  forall r a line addr, a <= addr ->
    addr2line_from (t ++ r) a line addr =
    if a + b >? addr then line else addr2line_from r (a + b) (line + l) addr.

Lemma P_eq t b l b' l' : P t b l -> b = b' -> l = l' -> P t b' l'.
Proof. intros H -> ->. exact H. Qed.

Lemma P_nil : P [] 0 0.
Proof.
  intros r a line addr H. cbn [app].
  destruct (a + 0 >? addr) eqn:E; [lia|]. rewrite !Z.add_0_r. reflexivity.
Qed.

Lemma P_one l b : P [(l, b)] b l.
Proof. intros r a line addr H. reflexivity. Qed.

Lemma P_app t1 t2 b1 b2 l1 l2 :
  P t1 b1 l1 -> P t2 b2 l2 -> 0 <= b2 -> (l1 = 0 \/ b2 = 0) ->
  P (t1 ++ t2) (b1 + b2) (l1 + l2).
Proof.
  intros H1 H2 Hb Hc r a line addr Ha.
  rewrite <- app_assoc. rewrite H1 by assumption.
  destruct (a + b1 >? addr) eqn:E1.
  - destruct (a + (b1 + b2) >? addr) eqn:E2; [reflexivity | lia].
  - rewrite H2 by lia.
    destruct (a + b1 + b2 >? addr) eqn:E2; destruct (a + (b1 + b2) >? addr) eqn:E3; try lia.
    rewrite !Z.add_assoc. reflexivity.
Qed.

Lemma P_rep l b n : (l = 0 \/ b = 0) -> 0 <= b ->
  P (repeat (l, b) n) (Z.of_nat n * b) (Z.of_nat n * l).
Proof.
  intros Hc Hb. induction n as [|n IH].
  - cbn [repeat]. eapply P_eq; [apply P_nil | lia | lia].
  - change (repeat (l, b) (S n)) with ([(l, b)] ++ repeat (l, b) n).
    eapply P_eq; [eapply P_app; [apply P_one | exact IH | |] | |]; try lia.
Qed.

Lemma P_zrep l b n : (l = 0 \/ b = 0) -> 0 <= b -> 0 <= n ->
  P (zrepeat (l, b) n) (n * b) (n * l).
Proof.
  intros Hc Hb Hn. unfold zrepeat.
  eapply P_eq; [apply P_rep; assumption | |]; rewrite Z2Nat.id by lia; reflexivity.
Qed.

Lemma nsplit_255 v :
  (v <= 255 /\ nsplit v 255 = 0) \/
  (255 < v /\ 1 <= nsplit v 255 /\ 0 < v - nsplit v 255 * 255 <= 255).
Proof. unfold nsplit. destruct (v >? 255) eqn:E; [right|left]; lia. Qed.

Lemma nsplit_128 v :
  (v <= 128 /\ nsplit v 128 = 0) \/
  (128 < v /\ 1 <= nsplit v 128 /\ 0 < v - nsplit v 128 * 128 <= 128).
Proof. unfold nsplit. destruct (v >? 128) eqn:E; [right|left]; lia. Qed.

Lemma reo l b : -128 <= l <= 127 -> 0 <= b <= 255 -> raw_entry_ok false (l, b) = true.
Proof. intros. unfold raw_entry_ok, max_bc. cbn [fst snd]. lia. Qed.

Lemma raw_ok_app a b : raw_ok false (a ++ b) = raw_ok false a && raw_ok false b.
Proof. unfold raw_ok. apply forallb_app. Qed.

Lemma raw_ok_cons x a : raw_ok false (x :: a) = raw_entry_ok false x && raw_ok false a.
Proof. reflexivity. Qed.

Lemma raw_ok_zrep x n : raw_entry_ok false x = true -> raw_ok false (zrepeat x n) = true.
Proof. intros. unfold raw_ok. apply LT_310.forallb_zrepeat. assumption. Qed.

(* the part of the expansion after expand_bytecode *)
Lemma ph2_spec l b ex : 0 <= b <= 255 ->
  P (LT_ExpandCollapse.ph2 false (Some l, b, ex)) b l /\
  raw_ok false (LT_ExpandCollapse.ph2 false (Some l, b, ex)) = true.
Proof.
  intros Hb. unfold LT_ExpandCollapse.ph2. rewrite LT_ExpandCollapse.el_false.
  destruct (LT_310.nsplit_127 l) as [[Hp1 Hp2]|[Hp1 [Hp2 Hp3]]].
  - rewrite Hp2. cbn [Z.eqb negb].
    destruct (nsplit_128 (- l)) as [[Hn1 Hn2]|[Hn1 [Hn2 Hn3]]].
    + rewrite Hn2. cbn [Z.eqb negb app].
      unfold LT_ExpandCollapse.fin. cbn [opt_is_zero lineval].
      destruct (negb (l =? 0) || negb (b =? 0) || negb ex) eqn:E.
      * split; [apply P_one|]. rewrite raw_ok_cons, reo by lia. reflexivity.
      * split; [|reflexivity]. eapply P_eq; [apply P_nil | lia | lia].
    + replace (negb (nsplit (- l) 128 =? 0)) with true by lia.
      set (nn := nsplit (- l) 128) in *.
      rewrite LT_ExpandCollapse.fin_some_nz by lia.
      split.
      * eapply P_eq;
          [eapply (P_app ((-128, b) :: zrepeat (-128, 0) (nn - 1)) _ b 0 (nn * -128));
           [change ((-128, b) :: zrepeat (-128, 0) (nn - 1))
              with ([(-128, b)] ++ zrepeat (-128, 0) (nn - 1));
            eapply P_eq; [eapply P_app; [apply P_one | apply P_zrep | |] | |]
           | apply P_one | |] | |]; try lia.
      * rewrite raw_ok_app, !raw_ok_cons, raw_ok_zrep by (apply reo; lia).
        rewrite !reo by lia. reflexivity.
  - replace (negb (nsplit l 127 =? 0)) with true by lia.
    set (np := nsplit l 127) in *.
    rewrite LT_ExpandCollapse.fin_some_nz by lia.
    split.
    + eapply P_eq;
        [eapply (P_app ((127, b) :: zrepeat (127, 0) (np - 1)) _ b 0 (np * 127));
         [change ((127, b) :: zrepeat (127, 0) (np - 1))
            with ([(127, b)] ++ zrepeat (127, 0) (np - 1));
          eapply P_eq; [eapply P_app; [apply P_one | apply P_zrep | |] | |]
         | apply P_one | |] | |]; try lia.
    + rewrite raw_ok_app, !raw_ok_cons, raw_ok_zrep by (apply reo; lia).
      rewrite !reo by lia. reflexivity.
Qed.

Lemma expand_item_false_spec l b : 0 <= b ->
  P (expand_item false (Some l, b)) b l /\ raw_ok false (expand_item false (Some l, b)) = true.
Proof.
  intros Hb. rewrite LT_ExpandCollapse.expand_item_eq.
  cbv iota. rewrite LT_ExpandCollapse.eb_false.
  destruct (nsplit_255 b) as [[Hb1 Hb2]|[Hb1 [Hb2 Hb3]]].
  - rewrite Hb2. cbn [Z.eqb app]. apply ph2_spec. lia.
  - replace (nsplit b 255 =? 0) with false by lia.
    set (n := nsplit b 255) in *.
    destruct (ph2_spec l (b - n * 255) true ltac:(lia)) as [Q1 Q2].
    split.
    + change ((0, 255) :: zrepeat (0, 255) (n - 1)) with ([(0, 255)] ++ zrepeat (0, 255) (n - 1)).
      eapply P_eq;
        [eapply (P_app _ _ (n * 255) (b - n * 255) 0 l);
         [eapply P_eq; [eapply P_app; [apply P_one | apply P_zrep | |] | |] | exact Q1 | |] | |];
        try lia.
    + rewrite raw_ok_app, raw_ok_cons, raw_ok_zrep, Q2 by (apply reo; lia).
      rewrite reo by lia. reflexivity.
Qed.

(** ** 4.2 a collapsed table read like a raw one *)

Definition goodc (it : citem) : Prop := exists d b, it = (Some d, b) /\ 0 <= b.

Lemma a2l_expand c : Forall goodc c -> forall a line addr, a <= addr ->
  addr2line_from (expand_items false c) a line addr
  = addr2line_from (LT_Lnotab.uncit c) a line addr.
Proof.
  induction 1 as [|it c (d & b & -> & Hb) Hc IH]; intros a line addr Ha; [reflexivity|].
  rewrite LT_ExpandCollapse.expand_items_cons.
  destruct (expand_item_false_spec d b Hb) as [Q _].
  rewrite Q by assumption.
  rewrite LT_Lnotab.uncit_cons, LT_Lnotab.a2l_cons. cbn [LT_Lnotab.optval].
  destruct (a + b >? addr) eqn:E; [reflexivity|]. apply IH. lia.
Qed.

Lemma raw_expand c : Forall goodc c -> raw_ok false (expand_items false c) = true.
Proof.
  induction 1 as [|it c (d & b & -> & Hb) Hc IH]; [reflexivity|].
  rewrite LT_ExpandCollapse.expand_items_cons, raw_ok_app, IH.
  destruct (expand_item_false_spec d b Hb) as [_ Q]. rewrite Q. reflexivity.
Qed.

(** ** 4.3 mapping_to_items on a mapping with increasing keys and no additional offsets *)

Fixpoint sorted_from (L : odict (option Z)) (a : Z) : Prop :=
  match L with
  | [] => True
  | (k, _) :: r => a <= k /\ sorted_from r (k + 1)
  end.

Lemma sorted_mono L a b : a <= b -> sorted_from L b -> sorted_from L a.
Proof. destruct L as [|[k v] r]; cbn [sorted_from]; [tauto|]. intros H [H1 H2]. split; [lia|assumption]. Qed.

Lemma sorted_lower : forall L a o v, sorted_from L a -> In (o, v) L -> a <= o.
Proof.
  induction L as [|[k v0] r IH]; intros a o v H Hin; [destruct Hin|].
  cbn [sorted_from] in H. destruct H as [H1 H2].
  destruct Hin as [E|Hin]; [inversion E; subst; lia|].
  specialize (IH _ _ _ H2 Hin). lia.
Qed.

Definition allsome (L : odict (option Z)) : Prop :=
  Forall (fun kv : Z * option Z => opt_is_some (snd kv) = true) L.

Lemma m2i_step bo line r ll lb :
  mapping_to_items_lnotab ((bo, Some line) :: r) [] ll lb =
  match mapping_to_items_lnotab r [] line (if line - ll =? 0 then lb else bo) with
  | OK rest => OK ((if line - ll =? 0 then [] else [(Some (line - ll), bo - lb)]) ++ rest)
  | Err e => Err e
  end.
Proof.
  cbn [mapping_to_items_lnotab oget]. change (sumZ []) with 0. rewrite Z.sub_0_r.
  destruct (line - ll =? 0); reflexivity.
Qed.

Lemma m2i_spec : forall L a0 ll lb,
  sorted_from L a0 -> allsome L -> lb <= a0 ->
  exists c, mapping_to_items_lnotab L [] ll lb = OK c /\
    Forall goodc c /\
    (forall addr x, addr < a0 -> addr2line_from (LT_Lnotab.uncit c) lb x addr = x) /\
    (forall o line, In (o, Some line) L -> addr2line_from (LT_Lnotab.uncit c) lb ll o = line).
Proof.
  induction L as [|[k v] r IH]; intros a0 ll lb Hs Ha Hlb.
  - exists []. split; [reflexivity|]. split; [constructor|]. split.
    + intros; reflexivity.
    + intros o line [].
  - cbn [sorted_from] in Hs. destruct Hs as [Hk Hs].
    inversion Ha as [|x y Hv Ha']; subst. cbn [snd] in Hv.
    destruct v as [line0|]; [|discriminate Hv].
    rewrite m2i_step.
    destruct (line0 - ll =? 0) eqn:E.
    + destruct (IH (k + 1) line0 lb Hs Ha' ltac:(lia)) as (c & E1 & E2 & E3 & E4).
      exists c. rewrite E1. cbn [app]. split; [reflexivity|]. split; [assumption|]. split.
      * intros addr x Hx. apply E3. lia.
      * intros o line [Hin|Hin].
        -- inversion Hin; subst. rewrite E3 by lia. lia.
        -- replace ll with line0 by lia. apply E4. assumption.
    + destruct (IH (k + 1) line0 k Hs Ha' ltac:(lia)) as (c & E1 & E2 & E3 & E4).
      exists ((Some (line0 - ll), k - lb) :: c). rewrite E1. cbn [app].
      split; [reflexivity|]. split; [|split].
      * constructor; [|assumption]. exists (line0 - ll), (k - lb). split; [reflexivity|lia].
      * intros addr x Hx. rewrite LT_Lnotab.uncit_cons, LT_Lnotab.a2l_cons.
        destruct (lb + (k - lb) >? addr) eqn:E5; [reflexivity|lia].
      * intros o line Hin. rewrite LT_Lnotab.uncit_cons, LT_Lnotab.a2l_cons.
        cbn [LT_Lnotab.optval].
        replace (lb + (k - lb)) with k by lia.
        replace (ll + (line0 - ll)) with line0 by lia.
        destruct Hin as [Hin|Hin].
        -- inversion Hin; subst. destruct (o >? o) eqn:E5; [lia|]. apply E3. lia.
        -- pose proof (sorted_lower _ _ _ _ Hs Hin).
           destruct (k >? o) eqn:E5; [lia|]. apply E4. assumption.
Qed.

(** ** 4.4 the mapping of a layout has increasing keys; all lines present *)

Lemma sorted_cells v R : forall n a,
  sorted_from R (a + 2 * Z.of_nat n) ->
  sorted_from (map (fun o => (o, v)) (range2_fuel n a) ++ R) a.
Proof.
  induction n as [|n IH]; intros a H.
  - cbn [range2_fuel map app]. replace (a + 2 * Z.of_nat 0) with a in H by lia. assumption.
  - cbn [range2_fuel map app sorted_from]. split; [lia|].
    apply (sorted_mono _ (a + 1) (a + 2)); [lia|].
    apply IH. replace (a + 2 + 2 * Z.of_nat n) with (a + 2 * Z.of_nat (S n)) by lia. assumption.
Qed.

Lemma sorted_ranges : forall p a, Forall pe p -> sorted_from (mapping_of_ranges p a) a.
Proof.
  induction p as [|[bd line] r IH]; intros a H; [exact I|].
  inversion H as [|x y [H1 H2] H3]; subst. cbn [fst] in H1, H2.
  cbn [mapping_of_ranges].
  rewrite LT_310.range2_fuel_eq by (unfold LT_310.wfw; lia).
  apply sorted_cells.
  replace (a + 2 * Z.of_nat (Z.to_nat (bd / 2))) with (a + bd) by lia.
  apply IH. assumption.
Qed.

Lemma allsome_ranges : forall p a,
  Forall (fun x : Z * option Z => opt_is_some (snd x) = true) p ->
  allsome (mapping_of_ranges p a).
Proof.
  induction p as [|[bd line] r IH]; intros a H; [constructor|].
  inversion H as [|x y H1 H2]; subst. cbn [snd] in H1.
  cbn [mapping_of_ranges]. unfold allsome. apply Forall_app. split.
  - apply Forall_forall. intros kv Hin. apply in_map_iff in Hin as (o & <- & _). exact H1.
  - apply IH. assumption.
Qed.

Lemma rawp_allsome d l :
  forallb (fun x : layout_item => opt_is_some (snd x)) l = true ->
  Forall (fun x : Z * option Z => opt_is_some (snd x) = true) (rawp d l).
Proof.
  induction l as [|[[f n] line] r IH]; intros H; [constructor|].
  cbn [forallb snd] in H. split_andb.
  cbn [rawp map fst snd]. constructor; [|apply IH; assumption].
  cbn [snd]. destruct line; [reflexivity|discriminate].
Qed.

Lemma oget_In {V} (L : odict V) k v : oget L k = Some v -> In (k, v) L.
Proof.
  induction L as [|[k0 v0] r IH]; intros H; [discriminate|].
  cbn [oget] in H. destruct (k0 =? k) eqn:E.
  - inversion H; subst. left. f_equal. lia.
  - right. apply IH. assumption.
Qed.

Lemma K2_lnotab_core l d :
  layout_ok l 0 = true ->
  forallb (fun x : layout_item => opt_is_some (snd x)) l = true ->
  exists table,
    from_line_mapping false
      (modify_line_offsets {| lm_lines := lines_of_layout l; lm_adds := [] |} d) = OK table /\
    forallb byte_ok table = true /\ Nat.even (length table) = true /\
    forall o n line, In (o, n, line) l ->
      Some (addr2line (raw_entries table) o) = shift d line.
Proof.
  intros Hl Hsome.
  pose proof (rawp_pe d l 0 Hl) as Hpe.
  destruct (m2i_spec (mapping_of_ranges (rawp d l) 0) 0 0 0
              (sorted_ranges _ 0 Hpe) (allsome_ranges _ 0 (rawp_allsome d l Hsome)) ltac:(lia))
    as (c & C1 & C2 & C3 & C4).
  destruct (bytes_of_raw _ (raw_expand c C2)) as (b & B1 & B2 & B3 & B4).
  exists b. split; [|split; [assumption|split; [assumption|]]].
  - unfold modify_line_offsets. cbn [lm_lines lm_adds].
    rewrite (modify_layout d l 0 Hl).
    unfold from_line_mapping, mapping_to_items. cbn [lm_lines lm_adds].
    rewrite C1. exact B1.
  - intros o n line Hin. rewrite B4.
    destruct (layout_lower _ _ _ _ _ Hl Hin) as [Ho1 Ho2].
    pose proof (oget_layout d l 0 o n line Hl Hin) as Hg.
    assert (Hline : exists l0, line = Some l0).
    { rewrite forallb_forall in Hsome. specialize (Hsome _ Hin). cbn [snd] in Hsome.
      destruct line as [l0|]; [eexists; reflexivity|discriminate]. }
    destruct Hline as [l0 ->]. cbn [shift] in Hg |- *.
    apply oget_In in Hg. f_equal.
    unfold addr2line. rewrite a2l_expand by assumption.
    apply C4. assumption.
Qed.

(** * 5. The two statements *)

Lemma dis_line_shift c t first o line :
  (if cfg_v310 c then colines t o = Some (shift (- first) line)
   else Some (addr2line t o) = shift (- first) line) ->
  dis_line c t first o = line.
Proof.
  unfold dis_line. destruct (cfg_v310 c); intros H.
  - rewrite H. destruct line as [l0|]; cbn [shift]; [f_equal; lia|reflexivity].
  - destruct line as [l0|]; cbn [shift] in H; [|discriminate].
    inversion H as [H']. f_equal. lia.
Qed.

Lemma K2_core c l first :
  layout_ok l 0 = true -> l <> [] ->
  (cfg_v310 c = false -> forallb (fun x : layout_item => opt_is_some (snd x)) l = true) ->
  exists table,
    from_line_mapping (cfg_v310 c)
      (modify_line_offsets {| lm_lines := lines_of_layout l; lm_adds := [] |} (- first)) = OK table /\
    forallb byte_ok table = true /\ Nat.even (length table) = true /\
    forall o n line, In (o, n, line) l -> dis_line c (raw_entries table) first o = line.
Proof.
  intros Hl Hne Hsome.
  destruct (cfg_v310 c) eqn:E.
  - destruct (K2_310_core l (- first) Hl Hne) as (b & B1 & B2 & B3 & B4).
    exists b. repeat (split; [assumption|]).
    intros o n line Hin. apply dis_line_shift. rewrite E. eapply B4. eassumption.
  - destruct (K2_lnotab_core l (- first) Hl (Hsome eq_refl)) as (b & B1 & B2 & B3 & B4).
    exists b. repeat (split; [assumption|]).
    intros o n line Hin. apply dis_line_shift. rewrite E. eapply B4. eassumption.
Qed.

Theorem K2_lines_total : S_K2_lines_total.
Proof.
  unfold S_K2_lines_total. intros c l first Hl Hne Hsome.
  destruct (K2_core c l first Hl Hne Hsome) as (b & B1 & _). exists b. exact B1.
Qed.

Theorem K2_lines : S_K2_lines.
Proof.
  unfold S_K2_lines. intros c l first table Hl Hne Hsome Ht.
  destruct (K2_core c l first Hl Hne Hsome) as (b & B1 & B2 & B3 & B4).
  rewrite B1 in Ht. inversion Ht; subst b.
  split; [assumption|]. split; assumption.
Qed.

Print Assumptions K2_lines.
Print Assumptions K2_lines_total.
