(* Tie between Model/Args.v and the translation of code_data/_args.py regenerated on every run (Gen/SrcArgs.v):
   the four functions agree on ALL inputs. *)
From PCD Require Import Base.PyBase Base.PyImp Base.Cfg Model.Flags Model.Args.
From PCD Require Gen.SrcArgs.

Module S := PCD.Gen.SrcArgs.Args.

Lemma name_at_0 {A} (l : list A) :
  name_at l 0 = match l with [] => Err IndexError | x :: _ => OK x end.
Proof. unfold name_at, znth. cbn. destruct l; reflexivity. Qed.

Lemma slice_from_1 {A} (l : list A) : py_slice_from 1 l = match l with [] => [] | _ :: r => r end.
Proof. unfold py_slice_from, drop. cbn. destruct l; reflexivity. Qed.

Theorem args_from_input_tie : forall argcount posonly kwonly varnames fl,
  S.args_from_input argcount posonly kwonly varnames fl = args_from_input argcount posonly kwonly varnames fl.
Proof.
  intros. unfold S.args_from_input, args_from_input. cbv zeta.
  set (v3 := py_slice_from kwonly _).
  destruct (flag_mem VARARGS fl).
  - rewrite name_at_0, slice_from_1. destruct v3 as [|x r]; [reflexivity|]. cbn [bind].
    destruct (flag_mem VARKEYWORDS (flag_remove VARARGS fl)).
    + rewrite name_at_0, slice_from_1. destruct r as [|y r']; reflexivity.
    + reflexivity.
  - cbn [bind]. destruct (flag_mem VARKEYWORDS fl).
    + rewrite name_at_0, slice_from_1. destruct v3 as [|y r']; reflexivity.
    + reflexivity.
Qed.

Lemma guarded_opt_list (o : option str) : (if is_some o then opt_list o else []) = truthy_list o.
Proof. destruct o; reflexivity. Qed.

Theorem args_to_varnames_tie : forall a, S.args_to_varnames a = args_to_varnames a.
Proof. intros a. unfold S.args_to_varnames, args_to_varnames. rewrite !guarded_opt_list. reflexivity. Qed.

Theorem args_to_input_tie : forall a fl, S.args_to_input a fl = args_to_input a fl.
Proof.
  intros a fl. unfold S.args_to_input, args_to_input. cbv zeta. rewrite args_to_varnames_tie.
  destruct (a_varpos a), (a_varkw a); reflexivity.
Qed.

Lemma guarded_pairs (o : option str) (k : Z) :
  (if is_some o then map (fun n => (n, k)) (opt_list o) else []) = map (fun n => (n, k)) (truthy_list o).
Proof. destruct o; reflexivity. Qed.

Theorem args_to_parameters_tie : forall a, S.args_to_parameters a = args_to_parameters a.
Proof. intros a. unfold S.args_to_parameters, args_to_parameters. rewrite !guarded_pairs. reflexivity. Qed.

Print Assumptions args_from_input_tie.
Print Assumptions args_to_parameters_tie.
