(* C01 (K3), part 1: general lemmas about blocks_to_bytes used by Proofs/RoundTrip.v
   - simulation: running the encoder on data whose constants are mapped through [f] is the image
     of running it on the original data (used with f = fst on constants paired with their encoding);
   - an invariant: every entry of the constants table the encoder builds comes from the data. *)
From Coq Require Import ZArith List Bool Lia ZifyBool.
From PCD Require Import Base.PyBase Base.Cfg Model.Flags Model.Args Model.Data Model.Consts
  Model.LineTable Model.Blocks Model.CodeData.
Import ListNotations. Open Scope Z_scope.

Definition rmap {A B} (f : A -> B) (r : res A) : res B :=
  match r with OK a => OK (f a) | Err e => Err e end.

(* plain map over the constants of the data classes *)
Section AMap.
  Context {D C : Type} (f : D -> C).
  Definition amap (a : arg_ D) : arg_ C :=
    match a with
    | AConst k ov => AConst (f k) ov
    | AInt z => AInt z
    | AJump t r => AJump t r
    | AName s ov => AName s ov
    | AVarname s ov => AVarname s ov
    | AFreevar s => AFreevar s
    | ACellvar s ov => ACellvar s ov
    | ANoArg z => ANoArg z
    end.
  Definition imap (i : instr_ D) : instr_ C :=
    mkInstr (i_name i) (amap (i_arg i)) (i_nargs i) (i_line i) (i_lineoffs i).

  Definition map_fa (st : fromargs D) : fromargs C :=
    {| fa_items := map (fun kv : Z * D => (fst kv, f (snd kv))) (fa_items st);
       fa_index := map (fun kv : D * Z => (f (fst kv), snd kv)) (fa_index st) |}.
  Definition map_enc (st : encstate D) : encstate C :=
    mkEnc (e_names st) (e_varnames st) (e_cellvars st) (map_fa (e_consts st)).
End AMap.

Section Sim.
  Context {D C : Type} (f : D -> C).
  Context (keqD : D -> D -> bool) (keqC : C -> C -> bool).
  Context (isD : D -> bool) (isC : C -> bool) (noneD : D) (noneC : C)
          (strD : str -> D) (strC : str -> C).
  Hypothesis Hkeq : forall x y, keqD x y = keqC (f x) (f y).
  Hypothesis His : forall x, isD x = isC (f x).
  Hypothesis Hnone : f noneD = noneC.
  Hypothesis Hstr : forall s, f (strD s) = strC s.

  Let gi := fun kv : Z * D => (fst kv, f (snd kv)).
  Let gx := fun kv : D * Z => (f (fst kv), snd kv).

  Lemma oget_map_items (d : odict D) i : oget (map gi d) i = option_map f (oget d i).
  Proof.
    induction d as [|[k v] d IH]; [reflexivity|]. cbn [map oget gi fst snd].
    destruct (k =? i); [reflexivity|exact IH].
  Qed.

  Lemma oset_map_items (d : odict D) i a : map gi (oset d i a) = oset (map gi d) i (f a).
  Proof.
    induction d as [|[k v] d IH]; [reflexivity|]. cbn [map oset gi fst snd].
    destruct (k =? i); cbn [map gi fst snd]; [reflexivity|]. now rewrite IH.
  Qed.

  Lemma key_lookup_map idx a : key_lookup keqC (map gx idx) (f a) = key_lookup keqD idx a.
  Proof.
    induction idx as [|[k i] idx IH]; [reflexivity|]. cbn [map key_lookup gx fst snd].
    rewrite <- Hkeq. destruct (keqD a k); [reflexivity|exact IH].
  Qed.

  Lemma key_set_map idx a i : map gx (key_set keqD idx a i) = key_set keqC (map gx idx) (f a) i.
  Proof.
    induction idx as [|[k j] idx IH]; [reflexivity|]. cbn [map key_set gx fst snd].
    rewrite <- Hkeq. destruct (keqD a k); cbn [map gx fst snd]; [reflexivity|]. now rewrite IH.
  Qed.

  Lemma fa_setitem_map st i a :
    fa_setitem keqC (map_fa f st) i (f a) = rmap (map_fa f) (fa_setitem keqD st i a).
  Proof.
    unfold fa_setitem. cbn [map_fa fa_items fa_index]. fold gi gx. rewrite oget_map_items.
    destruct (oget (fa_items st) i) as [old|]; cbn [option_map].
    - rewrite <- Hkeq. destruct (keqD old a); cbn [negb rmap]; [|reflexivity].
      unfold map_fa. cbn [fa_items fa_index]. fold gi gx. now rewrite oset_map_items, key_set_map.
    - cbn [rmap]. unfold map_fa. cbn [fa_items fa_index]. fold gi gx.
      now rewrite oset_map_items, key_set_map.
  Qed.

  Lemma zlen_map' {A B} (g : A -> B) l : zlen (map g l) = zlen l.
  Proof. unfold zlen. now rewrite map_length. Qed.

  Lemma fa_add_map st a ov :
    fa_add keqC (map_fa f st) (f a) ov
    = rmap (fun p : Z * fromargs D => (fst p, map_fa f (snd p))) (fa_add keqD st a ov).
  Proof.
    unfold fa_add. destruct ov as [i|].
    - rewrite fa_setitem_map. destruct (fa_setitem keqD st i a); reflexivity.
    - cbn [map_fa fa_index fa_items]. fold gi gx. rewrite key_lookup_map.
      destruct (key_lookup keqD (fa_index st) a) as [i|]; [reflexivity|].
      rewrite zlen_map'.
      change {| fa_items := map gi (fa_items st); fa_index := map gx (fa_index st) |} with (map_fa f st).
      rewrite fa_setitem_map. destruct (fa_setitem keqD st (zlen (fa_items st)) a); reflexivity.
  Qed.

  Lemma collect_map (d : odict D) : forall n i,
    collect (map gi d) n i = option_map (map f) (collect d n i).
  Proof.
    induction n as [|n IH]; intros i; [reflexivity|]. cbn [collect]. rewrite oget_map_items.
    destruct (oget d i) as [v|]; cbn [option_map]; [|reflexivity].
    rewrite IH. destruct (collect d n (i + 1)); reflexivity.
  Qed.

  Lemma fa_to_tuple_map st : fa_to_tuple (map_fa f st) = rmap (map f) (fa_to_tuple st).
  Proof.
    unfold fa_to_tuple. cbn [map_fa fa_items]. fold gi. rewrite map_length, collect_map.
    destruct (collect (fa_items st) (length (fa_items st)) 0); reflexivity.
  Qed.

  Lemma from_arg_map a bt fv st :
    from_arg keqC isC noneC (amap f a) bt fv (map_enc f st)
    = rmap (fun p : Z * encstate D => (fst p, map_enc f (snd p))) (from_arg keqD isD noneD a bt fv st).
  Proof.
    destruct a as [z|t r|s ov|s ov|k ov|s|s ov|z]; cbn [amap from_arg map_enc e_names e_varnames e_cellvars e_consts];
      try reflexivity.
    - destruct (fa_add str_eqb (e_names st) s ov) as [[i t]|]; reflexivity.
    - destruct (fa_add str_eqb (e_varnames st) s ov) as [[i t]|]; reflexivity.
    - rewrite <- His.
      assert (E : match fa_items (map_fa f (e_consts st)) with [] => true | _ => false end
                  = match fa_items (e_consts st) with [] => true | _ => false end).
      { cbn [map_fa fa_items]. destruct (fa_items (e_consts st)); reflexivity. }
      rewrite E. clear E.
      destruct (docstring_is_none bt && match fa_items (e_consts st) with [] => true | _ => false end
                && isD k && negb (opt_is_some ov)).
      + rewrite <- Hnone, fa_setitem_map.
        destruct (fa_setitem keqD (e_consts st) 0 noneD) as [cs|]; cbn [rmap]; [|reflexivity].
        rewrite fa_add_map. destruct (fa_add keqD cs k ov) as [[i t]|]; reflexivity.
      + rewrite fa_add_map. destruct (fa_add keqD (e_consts st) k ov) as [[i t]|]; reflexivity.
    - destruct (index_of str_eqb s fv); reflexivity.
    - destruct (fa_add str_eqb (e_cellvars st) s ov) as [[i t]|]; reflexivity.
  Qed.

  Lemma enc_init_map bt : enc_init keqC strC bt = rmap (map_enc f) (enc_init keqD strD bt).
  Proof.
    unfold enc_init. destruct bt as [fn|]; [|reflexivity].
    match goal with |- context [?F (args_to_varnames (fn_args fn)) 0 fromargs_empty] =>
      destruct (F (args_to_varnames (fn_args fn)) 0 fromargs_empty) as [vn|]; [|reflexivity] end.
    destruct (fn_doc fn) as [d|]; [|reflexivity].
    rewrite <- Hstr.
    change (@fromargs_empty C) with (map_fa f (@fromargs_empty D)).
    rewrite fa_setitem_map. destruct (fa_setitem keqD fromargs_empty 0 (strD d)); reflexivity.
  Qed.

  Lemma first_args_map bt fv : forall l st,
    first_args keqC isC noneC (map (imap f) l) bt fv (map_enc f st)
    = rmap (fun p : list Z * encstate D => (fst p, map_enc f (snd p)))
           (first_args keqD isD noneD l bt fv st).
  Proof.
    induction l as [|i l IH]; intros st; [reflexivity|].
    cbn [map first_args]. cbn [imap i_arg]. rewrite from_arg_map.
    destruct (from_arg keqD isD noneD (i_arg i) bt fv st) as [[v st1]|]; cbn [rmap fst snd]; [|reflexivity].
    rewrite IH. destruct (first_args keqD isD noneD l bt fv st1) as [[vs st2]|]; reflexivity.
  Qed.

  Lemma add_additional_map bt fv : forall l st,
    add_additional keqC isC noneC (map (amap f) l) bt fv (map_enc f st)
    = rmap (map_enc f) (add_additional keqD isD noneD l bt fv st).
  Proof.
    induction l as [|a l IH]; intros st; [reflexivity|].
    cbn [map add_additional]. rewrite from_arg_map.
    destruct (from_arg keqD isD noneD a bt fv st) as [[v st1]|]; cbn [rmap fst snd]; [|reflexivity].
    apply IH.
  Qed.

  Lemma amap_jump (a : arg_ D) :
    match amap f a with AJump t r => Some (t, r) | _ => None end
    = match a with AJump t r => Some (t, r) | _ => None end.
  Proof. destruct a; reflexivity. Qed.

  Lemma add_freevar_offset_map n : forall (l : list (instr_ D)) vals,
    add_freevar_offset n (map (imap f) l) vals = add_freevar_offset n l vals.
  Proof.
    unfold add_freevar_offset. induction l as [|i l IH]; intros [|v vs]; try reflexivity.
    cbn [map combine fst snd]. rewrite IH. f_equal. cbn [imap i_arg]. destruct (i_arg i); reflexivity.
  Qed.

  Lemma block_offsets_map : forall (blocks : list (list (instr_ D))) vals cur,
    block_offsets (map (map (imap f)) blocks) vals cur = block_offsets blocks vals cur.
  Proof.
    induction blocks as [|b r IH]; intros vals cur; [reflexivity|].
    cbn [map block_offsets]. rewrite map_length. f_equal. rewrite IH. f_equal. f_equal. f_equal.
    generalize (firstn (length b) vals). clear. induction b as [|i b IHb]; intros [|v vs]; try reflexivity.
    cbn [map combine fst snd]. rewrite IHb. reflexivity.
  Qed.

  Lemma update_jumps_map c offs : forall (l : list (instr_ D)) vals cur,
    update_jumps c (map (imap f) l) vals offs cur = update_jumps c l vals offs cur.
  Proof.
    induction l as [|i l IH]; intros vals cur; [reflexivity|].
    cbn [map update_jumps]. destruct vals as [|v vs]; [reflexivity|].
    cbn [imap i_arg i_nargs]. rewrite !IH.
    destruct (i_arg i); reflexivity.
  Qed.

  Lemma concat_map_map {A B} (g : A -> B) (ll : list (list A)) :
    concat (map (map g) ll) = map g (concat ll).
  Proof. now rewrite concat_map. Qed.

  Lemma relax_map c (blocks : list (list (instr_ D))) : forall fuel vals,
    relax fuel c (map (map (imap f)) blocks) vals = relax fuel c blocks vals.
  Proof.
    induction fuel as [|n IH]; intros vals; [reflexivity|].
    cbn [relax]. rewrite block_offsets_map, concat_map_map, update_jumps_map.
    destruct (update_jumps c (concat blocks) vals (block_offsets blocks vals 0) 0) as [[v' ch]|]; [|reflexivity].
    destruct ch; [apply IH|reflexivity].
  Qed.

  Lemma assemble_map c : forall (l : list (instr_ D)) vals off lm,
    assemble c (map (imap f) l) vals off lm = assemble c l vals off lm.
  Proof.
    induction l as [|i l IH]; intros vals off lm; [reflexivity|].
    cbn [map assemble]. destruct vals as [|v vs]; [reflexivity|].
    cbn [imap i_name i_nargs i_line i_lineoffs]. rewrite IH. reflexivity.
  Qed.

  Theorem blocks_to_bytes_map c (blocks : list (list (instr_ D))) additional fv bt :
    blocks_to_bytes keqC isC noneC strC c (map (map (imap f)) blocks) (map (amap f) additional) fv bt
    = rmap (fun r : list Z * linemap * list str * list str * list str * list D =>
              let '(code, lm, n, v, cv, k) := r in (code, lm, n, v, cv, map f k))
           (blocks_to_bytes keqD isD noneD strD c blocks additional fv bt).
  Proof.
    unfold blocks_to_bytes. rewrite enc_init_map.
    destruct (enc_init keqD strD bt) as [st0|]; cbn [rmap]; [|reflexivity].
    rewrite concat_map_map, first_args_map.
    destruct (first_args keqD isD noneD (concat blocks) bt fv st0) as [[vals0 st1]|]; cbn [rmap fst snd]; [|reflexivity].
    rewrite add_additional_map.
    destruct (add_additional keqD isD noneD additional bt fv st1) as [st2|]; cbn [rmap]; [|reflexivity].
    rewrite add_freevar_offset_map, map_length, relax_map.
    cbn [map_enc e_cellvars e_names e_varnames e_consts].
    destruct (relax (3 * length (concat blocks) + 2) c blocks
                (add_freevar_offset (zlen (fa_items (e_cellvars st2))) (concat blocks) vals0)) as [vals2|];
      [|reflexivity].
    rewrite assemble_map.
    destruct (assemble c (concat blocks) vals2 0 empty_linemap) as [[code lm]|]; [|reflexivity].
    rewrite fa_to_tuple_map.
    destruct (fa_to_tuple (e_names st2)), (fa_to_tuple (e_varnames st2)), (fa_to_tuple (e_cellvars st2)),
      (fa_to_tuple (e_consts st2)); reflexivity.
  Qed.
End Sim.

(* ------------------------------------------------------------------ *)
(** * Every entry of the constants table satisfies a predicate the data's constants satisfy *)

Definition arg_all {C} (P : C -> Prop) (a : arg_ C) : Prop :=
  match a with AConst k _ => P k | _ => True end.

Section TableInv.
  Context {C : Type} (keq : C -> C -> bool) (is_str : C -> bool) (none_c : C) (str_c : str -> C).
  Variable P : C -> Prop.
  Hypothesis Pnone : P none_c.
  Hypothesis Pstr : forall s, P (str_c s).

  Definition fa_all (st : fromargs C) : Prop := Forall (fun kv : Z * C => P (snd kv)) (fa_items st).

  Lemma oset_all (d : odict C) i a :
    Forall (fun kv : Z * C => P (snd kv)) d -> P a -> Forall (fun kv : Z * C => P (snd kv)) (oset d i a).
  Proof.
    induction d as [|[k v] d IH]; intros H Ha; cbn [oset].
    - constructor; [exact Ha|constructor].
    - inversion H; subst. destruct (k =? i); constructor; auto.
  Qed.

  Lemma fa_setitem_all st i a st' : fa_all st -> P a -> fa_setitem keq st i a = OK st' -> fa_all st'.
  Proof.
    unfold fa_setitem. intros H Ha E.
    destruct (match oget (fa_items st) i with Some old => negb (keq old a) | None => false end); [discriminate|].
    inversion E; subst st'. unfold fa_all. cbn [fa_items]. now apply oset_all.
  Qed.

  Lemma fa_add_all st a ov i st' : fa_all st -> P a -> fa_add keq st a ov = OK (i, st') -> fa_all st'.
  Proof.
    unfold fa_add. intros H Ha E. destruct ov as [j|].
    - destruct (fa_setitem keq st j a) as [t|] eqn:S; [|discriminate]. inversion E; subst.
      eapply fa_setitem_all; eassumption.
    - destruct (key_lookup keq (fa_index st) a); [inversion E; subst; exact H|].
      destruct (fa_setitem keq st (zlen (fa_items st)) a) as [t|] eqn:S; [|discriminate]. inversion E; subst.
      eapply fa_setitem_all; eassumption.
  Qed.

  Lemma from_arg_all a bt fv st z st' :
    fa_all (e_consts st) -> arg_all P a -> from_arg keq is_str none_c a bt fv st = OK (z, st') ->
    fa_all (e_consts st').
  Proof.
    intros H Ha E. destruct a as [z0|t r|s ov|s ov|k ov|s|s ov|z0]; cbn [from_arg] in E.
    - inversion E; subst; exact H.
    - inversion E; subst; exact H.
    - destruct (fa_add str_eqb (e_names st) s ov) as [[i t]|]; [|discriminate]. inversion E; subst. exact H.
    - destruct (fa_add str_eqb (e_varnames st) s ov) as [[i t]|]; [|discriminate]. inversion E; subst. exact H.
    - cbn [arg_all] in Ha.
      match type of E with match ?X with _ => _ end = _ => destruct X as [cs|] eqn:S; [|discriminate] end.
      assert (Hcs : fa_all cs).
      { match type of S with (if ?b then _ else _) = _ => destruct b end.
        - eapply fa_setitem_all; [exact H|exact Pnone|exact S].
        - inversion S; subst; exact H. }
      destruct (fa_add keq cs k ov) as [[i t]|] eqn:A; [|discriminate]. inversion E; subst.
      cbn [e_consts]. eapply fa_add_all; eassumption.
    - destruct (index_of str_eqb s fv); [|discriminate]. inversion E; subst; exact H.
    - destruct (fa_add str_eqb (e_cellvars st) s ov) as [[i t]|]; [|discriminate]. inversion E; subst. exact H.
    - inversion E; subst; exact H.
  Qed.

  Lemma enc_init_all bt st : enc_init keq str_c bt = OK st -> fa_all (e_consts st).
  Proof.
    unfold enc_init. destruct bt as [fn|]; [|intros E; inversion E; constructor].
    match goal with |- context [?F (args_to_varnames (fn_args fn)) 0 fromargs_empty] =>
      destruct (F (args_to_varnames (fn_args fn)) 0 fromargs_empty) as [vn|]; [|discriminate] end.
    destruct (fn_doc fn) as [d|]; [|intros E; inversion E; constructor].
    destruct (fa_setitem keq fromargs_empty 0 (str_c d)) as [cs|] eqn:S; [|discriminate].
    intros E; inversion E; subst. cbn [e_consts].
    eapply fa_setitem_all; [|apply Pstr|exact S]. constructor.
  Qed.

  Lemma first_args_all bt fv : forall l st vs st',
    fa_all (e_consts st) -> Forall (fun i : instr_ C => arg_all P (i_arg i)) l ->
    first_args keq is_str none_c l bt fv st = OK (vs, st') -> fa_all (e_consts st').
  Proof.
    induction l as [|i l IH]; intros st vs st' H Hl E; cbn [first_args] in E.
    - inversion E; subst; exact H.
    - inversion Hl; subst.
      destruct (from_arg keq is_str none_c (i_arg i) bt fv st) as [[v st1]|] eqn:F; [|discriminate].
      destruct (first_args keq is_str none_c l bt fv st1) as [[vs' st2]|] eqn:R; [|discriminate].
      inversion E; subst. eapply IH; [|eassumption|exact R]. eapply from_arg_all; eassumption.
  Qed.

  Lemma add_additional_all bt fv : forall l st st',
    fa_all (e_consts st) -> Forall (arg_all P) l ->
    add_additional keq is_str none_c l bt fv st = OK st' -> fa_all (e_consts st').
  Proof.
    induction l as [|a l IH]; intros st st' H Hl E; cbn [add_additional] in E.
    - inversion E; subst; exact H.
    - inversion Hl; subst.
      destruct (from_arg keq is_str none_c a bt fv st) as [[v st1]|] eqn:F; [|discriminate].
      eapply IH; [|eassumption|exact E]. eapply from_arg_all; eassumption.
  Qed.

  Lemma oget_all (d : odict C) i v :
    Forall (fun kv : Z * C => P (snd kv)) d -> oget d i = Some v -> P v.
  Proof.
    induction d as [|[k w] d IH]; intros H E; [discriminate|]. inversion H; subst. cbn [oget] in E.
    destruct (k =? i); [inversion E; subst; assumption|auto].
  Qed.

  Lemma collect_all (d : odict C) : Forall (fun kv : Z * C => P (snd kv)) d ->
    forall n i l, collect d n i = Some l -> Forall P l.
  Proof.
    intros H. induction n as [|n IH]; intros i l E; cbn [collect] in E.
    - inversion E; constructor.
    - destruct (oget d i) as [v|] eqn:G; [|discriminate].
      destruct (collect d n (i + 1)) as [r|] eqn:R; [|discriminate]. inversion E; subst.
      constructor; [eapply oget_all; eassumption|eapply IH; eassumption].
  Qed.

  Theorem blocks_to_bytes_consts_all c (blocks : list (list (instr_ C))) additional fv bt code lm n v cv k :
    Forall (fun i : instr_ C => arg_all P (i_arg i)) (concat blocks) -> Forall (arg_all P) additional ->
    blocks_to_bytes keq is_str none_c str_c c blocks additional fv bt = OK (code, lm, n, v, cv, k) ->
    Forall P k.
  Proof.
    intros Hb Ha E. unfold blocks_to_bytes in E.
    destruct (enc_init keq str_c bt) as [st0|] eqn:I; [|discriminate].
    destruct (first_args keq is_str none_c (concat blocks) bt fv st0) as [[vals0 st1]|] eqn:F; [|discriminate].
    destruct (add_additional keq is_str none_c additional bt fv st1) as [st2|] eqn:A; [|discriminate].
    assert (H2 : fa_all (e_consts st2)).
    { eapply add_additional_all; [|exact Ha|exact A]. eapply first_args_all; [|exact Hb|exact F].
      eapply enc_init_all; exact I. }
    destruct (relax _ c blocks _); [|discriminate].
    destruct (assemble c (concat blocks) _ 0 empty_linemap) as [[code' lm']|]; [|discriminate].
    destruct (fa_to_tuple (e_names st2)), (fa_to_tuple (e_varnames st2)), (fa_to_tuple (e_cellvars st2));
      try discriminate.
    destruct (fa_to_tuple (e_consts st2)) as [k'|] eqn:T; [|discriminate].
    inversion E; subst. unfold fa_to_tuple in T.
    destruct (collect (fa_items (e_consts st2)) (length (fa_items (e_consts st2))) 0) as [l|] eqn:Cl; [|discriminate].
    inversion T; subst. eapply collect_all; [exact H2|exact Cl].
  Qed.
End TableInv.
