(* Statements for C03 (K2): encoding well-formed data yields code that says what the data says. *)
From PCD Require Import Base.PyBase Base.Cfg Model.Flags Model.Args Model.Data Model.Consts
  Model.LineTable Model.Blocks Model.CodeData Spec.Lnotab Spec.Dis Model.ViewSer
  Proofs.C02_Statements Proofs.C01_Statements.

(** * lines carried: the table the encoder writes, read by CPython's reader, gives each instruction its line *)

(* instruction layout: (first offset, number of code units, line) tiling [0, len) *)
Definition layout_item := (Z * Z * option Z)%type.
Fixpoint layout_ok (l : list layout_item) (o : Z) : bool :=
  match l with
  | [] => true
  | (first, n, _) :: r => (first =? o) && (1 <=? n) && layout_ok r (o + 2 * n)
  end.
(* the mapping [assemble] builds for a layout: every code unit of an instruction gets its line *)
Fixpoint lines_of_layout (l : list layout_item) : odict (option Z) :=
  match l with
  | [] => []
  | (first, n, line) :: r => map (fun o => (o, line)) (range2 first (first + 2 * n)) ++ lines_of_layout r
  end.

Definition S_K2_lines : Prop := forall c (l : list layout_item) first table,
  layout_ok l 0 = true -> l <> [] ->
  (cfg_v310 c = false -> forallb (fun x : layout_item => opt_is_some (snd x)) l = true) ->
  from_line_mapping (cfg_v310 c)
    (modify_line_offsets {| lm_lines := lines_of_layout l; lm_adds := [] |} (- first)) = OK table ->
  forallb byte_ok table = true /\ Nat.even (length table) = true /\
  forall o n line, In (o, n, line) l ->
    dis_line c (raw_entries table) first o = line.

(* and the conversion never fails for such a layout *)
Definition S_K2_lines_total : Prop := forall c (l : list layout_item) first,
  layout_ok l 0 = true -> l <> [] ->
  (cfg_v310 c = false -> forallb (fun x : layout_item => opt_is_some (snd x)) l = true) ->
  exists table, from_line_mapping (cfg_v310 c)
    (modify_line_offsets {| lm_lines := lines_of_layout l; lm_adds := [] |} (- first)) = OK table.
