(* Statements for the execution clause of C05, as far as a model without CPython's evaluation
   semantics can carry it: for EVERY interpreter whose per-instruction semantics observes opcode,
   resolved operand and line only (Spec/Exec.v), executing a code object is executing its symbolic
   view, and code objects with agreeing views execute in lock step. *)
From PCD Require Import Base.PyBase Base.Cfg Model.Flags Model.Args Model.Data Model.Consts
  Model.LineTable Model.Blocks Model.CodeData Spec.Lnotab Spec.Dis Spec.Exec Model.ViewSer
  Proofs.C02_Statements Proofs.C11_Statements Proofs.C01_Statements Proofs.C03_Statements
  Proofs.C03b_Statements Proofs.C03c_Statements Proofs.C06_Statements Proofs.NormalFormWf.

(* 1. layout independence: running CPython's byte-offset machine on a code object is running the
   index machine on dis's symbolic view - whatever the widths of the operands, the number of
   EXTENDED_ARG prefixes, the order of the tables.  No premise on the code object at all. *)
Definition S_exec_code : Prop :=
  forall (K S : Type) (sem : Z -> dval K -> option Z -> S -> S * ctl) fuel c code names varnames
         freevars cellvars (consts : list K) table firstlineno s,
    run_code sem fuel c code names varnames freevars cellvars consts table firstlineno s
    = run_index sem fuel
        (dis_view c code names varnames freevars cellvars consts table firstlineno) 0 s.

(* what an observer of an execution sees of one step: the opcode and the line (trace events) *)
Definition ev_key {K} (e : @event K) : Z * option Z := (e_op e, e_line e).

(* two instructions the two interpreters cannot tell apart: same opcode, same line, same jump
   structure, and the same effect on every state *)
Definition vrel {K1 K2 S} (sem1 : Z -> dval K1 -> option Z -> S -> S * ctl)
  (sem2 : Z -> dval K2 -> option Z -> S -> S * ctl) (x : vinstr K1) (y : vinstr K2) : Prop :=
  v_op x = v_op y /\ v_line x = v_line y /\
  match v_val x, v_val y with
  | DJump t r, DJump t' r' => t = t' /\ r = r'
  | DJump _ _, _ | _, DJump _ _ => False
  | _, _ => True
  end /\
  forall s, sem1 (v_op x) (erase_target (v_val x)) (v_line x) s
          = sem2 (v_op y) (erase_target (v_val y)) (v_line y) s.

(* 2. lock step: views related instruction by instruction run to the same final state and outcome
   with the same sequence of (opcode, line) events, from every index, for every fuel *)
Definition S_exec_related : Prop :=
  forall (K1 K2 S : Type) sem1 sem2 (v1 : list (vinstr K1)) (v2 : list (vinstr K2)),
    Forall2 (@vrel K1 K2 S sem1 sem2) v1 v2 ->
    forall fuel pc s,
      let '(t1, s1, o1) := run_index sem1 fuel v1 pc s in
      let '(t2, s2, o2) := run_index sem2 fuel v2 pc s in
      s1 = s2 /\ o1 = o2 /\ map ev_key t1 = map ev_key t2.

(* operands with the constant replaced *)
Definition map_dval {K L} (f : K -> L) (v : dval K) : dval L :=
  match v with
  | DConst k => DConst (f k)
  | DNoArg => DNoArg | DInt z => DInt z | DName s => DName s | DLocal s => DLocal s
  | DCell s => DCell s | DFree s => DFree s | DJump t r => DJump t r | DBad => DBad
  end.

(* 3. C05: for every interpreter [sem] over the library's constants that
   (a) does not distinguish a nested code constant from its normal form, and
   (b) does not distinguish key-equal constants (CPython's own merging rule),
   executing the original code object and executing the code object re-encoded from the normal form
   (whose constants are read through their first components) end in the same state with the same
   outcome after the same sequence of (opcode, line) events - for every fuel and initial state. *)
Definition S_C05_exec : Prop :=
  forall (S : Type) (sem : Z -> dval const -> option Z -> S -> S * ctl) c code ks d d' code',
    (forall op v line s, sem op (map_dval normalize_const v) line s = sem op v line s) ->
    (forall op v v' line s, val_match key_eqb v v' = true -> sem op v line s = sem op v' line s) ->
    view_wf c code ks && ops_known c (co_code code) = true -> co_code code <> [] ->
    zlen (co_freevars code) < 1073741824 -> zlen (co_varnames code) < 1073741824 ->
    nodup_str (co_freevars code) = true ->
    (0 <=? cfg_extended_arg c) && (cfg_extended_arg c <? 256) = true ->
    decode_code c code ks = OK d ->
    mapM_cd (fun k' => match from_const c k' with OK p => OK (k', p) | Err e => Err e end) (normalize d) = OK d' ->
    encode_code c d' = OK code' ->
    zlen (co_code code') < 1073741824 ->
    exists kst : list pconst,
      map snd kst = co_consts code' /\
      forall fuel s,
        let '(t1, s1, o1) :=
          run_code sem fuel c (co_code code) (co_names code) (co_varnames code) (co_freevars code)
                   (co_cellvars code) ks (raw_entries (co_linetable code)) (co_firstlineno code) s in
        let '(t2, s2, o2) :=
          run_code (fun op (v : dval pconst) => sem op (map_dval fst v)) fuel c (co_code code')
                   (co_names code') (co_varnames code') (co_freevars code') (co_cellvars code') kst
                   (raw_entries (co_linetable code')) (co_firstlineno code') s in
        s1 = s2 /\ o1 = o2 /\ map ev_key t1 = map ev_key t2.
