(* C10, stages 1 and 2: bytes <-> expanded items, and expand o collapse = id on raw tables. *)
From Coq Require Import ZArith List Bool Lia ZifyBool.
From PCD Require Import Base.PyBase Model.LineTable Spec.Lnotab Proofs.C10_Statements.
Import ListNotations.
Open Scope Z_scope.
Ltac Zify.zify_post_hook ::= Z.to_euclidean_division_equations.

(** * Stage 1 *)

Lemma list_ind2 {A} (P : list A -> Prop) :
  P [] -> (forall x, P [x]) -> (forall x y l, P l -> P (x :: y :: l)) -> forall l, P l.
Proof.
  intros H0 H1 H2.
  assert (H : forall l, P l /\ forall x, P (x :: l)).
  { induction l as [|a l [IHa IHb]].
    - split; [exact H0 | exact H1].
    - split; [apply IHb | intros x; apply H2; exact IHa]. }
  intros l; apply H.
Qed.

Lemma signed_byte_range b : byte_ok b = true ->
  -128 <= signed_byte b <= 127 /\ signed_byte b mod 256 = b.
Proof.
  unfold byte_ok, signed_byte. intros H.
  destruct (b <? 128) eqn:E; lia.
Qed.

Lemma bytes_items : S_bytes_items.
Proof.
  unfold S_bytes_items. intros b. induction b as [|x|bc ln r IH] using list_ind2.
  - intros _ _. exists []. cbn. auto.
  - intros _ H. cbn in H. discriminate.
  - intros Hb Hl.
    cbn [forallb] in Hb. apply andb_true_iff in Hb as [Hbc Hb].
    apply andb_true_iff in Hb as [Hln Hb].
    cbn [length Nat.even] in Hl.
    destruct (IH Hb Hl) as (items & E1 & E2 & E3).
    exists ((signed_byte ln, bc) :: items).
    destruct (signed_byte_range ln Hln) as [Hr Hm].
    cbn [bytes_to_items]. rewrite E1. split; [reflexivity|]. split.
    + unfold raw_ok in *. cbn [forallb]. rewrite E2.
      unfold raw_entry_ok. cbn [fst snd max_bc]. unfold byte_ok in Hbc. lia.
    + cbn [items_to_bytes]. rewrite Hbc, E3, Hm. reflexivity.
Qed.

Lemma items_bytes : S_items_bytes.
Proof.
  unfold S_items_bytes. intros items. induction items as [|[ln bc] r IH].
  - intros _. exists []. cbn. auto.
  - intros H. unfold raw_ok in H. cbn [forallb] in H. apply andb_true_iff in H as [Hx Hr].
    destruct (IH Hr) as (b & E1 & E2 & E3).
    unfold raw_entry_ok in Hx. cbn [fst snd max_bc] in Hx.
    assert (Hbc : byte_ok bc = true) by (unfold byte_ok; lia).
    exists (bc :: (ln mod 256) :: b).
    cbn [items_to_bytes]. rewrite Hbc, E1. split; [reflexivity|]. split.
    + cbn [forallb]. rewrite Hbc, E2. unfold byte_ok. lia.
    + cbn [bytes_to_items]. rewrite E3.
      replace (signed_byte (ln mod 256)) with ln; [reflexivity|].
      unfold signed_byte. destruct (ln mod 256 <? 128) eqn:E; lia.
Qed.

(** * Stage 2: generalities *)

Lemma zrepeat_0 {A} (x : A) : zrepeat x 0 = [].
Proof. reflexivity. Qed.

Lemma zrepeat_succ {A} (x : A) n : 0 <= n -> zrepeat x (n + 1) = x :: zrepeat x n.
Proof.
  intros H. unfold zrepeat. rewrite Z2Nat.inj_add by lia.
  change (Z.to_nat 1) with 1%nat. rewrite Nat.add_1_r. reflexivity.
Qed.

Lemma zrepeat_pred {A} (x : A) n : 0 < n -> x :: zrepeat x (n - 1) = zrepeat x n.
Proof.
  intros H. rewrite <- (zrepeat_succ x (n - 1)) by lia. f_equal. lia.
Qed.

Lemma nsplit_small v m : v <= m -> nsplit v m = 0.
Proof. unfold nsplit. intros H. destruct (v >? m) eqn:E; lia. Qed.

Lemma nsplit_nonneg v m : 0 < m -> 0 <= nsplit v m.
Proof. unfold nsplit. intros H. destruct (v >? m) eqn:E; [|lia]. apply Z.div_pos; lia. Qed.

Lemma nsplit_add v m : 0 < m -> 0 < v -> nsplit (m + v) m = nsplit v m + 1.
Proof.
  unfold nsplit. intros Hm Hv.
  destruct (m + v >? m) eqn:E1; [|lia].
  replace (m + v - 1) with ((v - 1) + 1 * m) by lia.
  rewrite Z.div_add by lia.
  destruct (v >? m) eqn:E2; [lia|].
  rewrite Z.div_small by lia. lia.
Qed.

Lemma nsplit_zero_le v m : 0 < m -> nsplit v m = 0 -> v <= m.
Proof.
  unfold nsplit. intros Hm H. destruct (v >? m) eqn:E; [|lia].
  assert (1 <= (v - 1) / m); [|lia].
  apply Z.div_le_lower_bound; lia.
Qed.

(* the last, optional, entry of an expansion *)
Definition fin (s : xstate) : list eitem :=
  let '(line, bc, extra) := s in
  if negb (opt_is_zero line) || negb (bc =? 0) || negb extra then [(lineval line, bc)] else [].

(* second phase of the expansion of one item *)
Definition ph2 (lt : bool) (s : xstate) : list eitem :=
  let '(e2, s2) := if lt then expand_bytecode lt s else expand_line lt s in e2 ++ fin s2.

Lemma expand_item_eq lt l b :
  expand_item lt (l, b) =
  let '(e1, s1) := if lt then expand_line lt (l, b, false) else expand_bytecode lt (l, b, false) in
  e1 ++ ph2 lt s1.
Proof.
  unfold expand_item, ph2, fin. cbn [fst snd].
  destruct (if lt then expand_line lt (l, b, false) else expand_bytecode lt (l, b, false)) as [e1 s1].
  destruct (if lt then expand_bytecode lt s1 else expand_line lt s1) as [e2 [[line bc] extra]].
  reflexivity.
Qed.

Lemma collapse_items_cons lt x t :
  collapse_items lt (x :: t) = collapse_step lt (to_citem lt x) (collapse_items lt t).
Proof. reflexivity. Qed.

Lemma expand_items_cons lt c cs :
  expand_items lt (c :: cs) = expand_item lt c ++ expand_items lt cs.
Proof. reflexivity. Qed.

Lemma fin_some_nz l b ex : l <> 0 -> fin (Some l, b, ex) = [(l, b)].
Proof.
  intros H. unfold fin, opt_is_zero, lineval.
  destruct (l =? 0) eqn:E; [lia|]. reflexivity.
Qed.

Lemma fin_bc_nz l b ex : b <> 0 -> fin (l, b, ex) = [(lineval l, b)].
Proof.
  intros H. unfold fin.
  destruct (b =? 0) eqn:E; [lia|]. cbn [negb]. rewrite orb_true_r. reflexivity.
Qed.

Lemma fin_noextra l b : fin (l, b, false) = [(lineval l, b)].
Proof. unfold fin. cbn [negb]. rewrite orb_true_r. reflexivity. Qed.

(** * Stage 2: co_lnotab *)

Lemma eb_false line bc ex :
  expand_bytecode false (line, bc, ex) =
  if nsplit bc 255 =? 0 then ([], (line, bc, ex))
  else ((0, 255) :: zrepeat (0, 255) (nsplit bc 255 - 1), (line, bc - nsplit bc 255 * 255, true)).
Proof. reflexivity. Qed.

Lemma el_false l bc ex :
  expand_line false (Some l, bc, ex) =
  if negb (nsplit l 127 =? 0) then
    ((127, bc) :: zrepeat (127, 0) (nsplit l 127 - 1), (Some (l - nsplit l 127 * 127), 0, true))
  else if negb (nsplit (- l) 128 =? 0) then
    ((-128, bc) :: zrepeat (-128, 0) (nsplit (- l) 128 - 1), (Some (l + nsplit (- l) 128 * 128), 0, true))
  else ([], (Some l, bc, ex)).
Proof. reflexivity. Qed.

Lemma ph2_false_small l b ex : -128 <= l <= 127 -> ph2 false (Some l, b, ex) = fin (Some l, b, ex).
Proof.
  intros H. unfold ph2. rewrite el_false.
  rewrite (nsplit_small l 127), (nsplit_small (- l) 128) by lia. reflexivity.
Qed.

Lemma ph2_false_pos l b ex ex' : 0 < l ->
  ph2 false (Some (127 + l), b, ex) = (127, b) :: ph2 false (Some l, 0, ex').
Proof.
  intros H. unfold ph2. rewrite !el_false.
  rewrite (nsplit_add l 127) by lia.
  pose proof (nsplit_nonneg l 127 ltac:(lia)) as Hn.
  pose proof (nsplit_zero_le l 127 ltac:(lia)) as Hz.
  set (n := nsplit l 127) in *.
  destruct (n + 1 =? 0) eqn:E1; [lia|]. cbn [negb].
  replace (n + 1 - 1) with n by lia.
  replace (127 + l - (n + 1) * 127) with (l - n * 127) by lia.
  destruct (n =? 0) eqn:E2; cbn [negb].
  - assert (n = 0) as -> by lia. rewrite zrepeat_0.
    rewrite (nsplit_small (- l) 128) by lia. cbn [Z.eqb negb app].
    replace (l - 0 * 127) with l by lia.
    rewrite !fin_some_nz by lia. reflexivity.
  - rewrite <- app_comm_cons. rewrite zrepeat_pred by lia. reflexivity.
Qed.

Lemma ph2_false_neg l b ex ex' : l < 0 ->
  ph2 false (Some (-128 + l), b, ex) = (-128, b) :: ph2 false (Some l, 0, ex').
Proof.
  intros H. unfold ph2. rewrite !el_false.
  rewrite (nsplit_small (-128 + l) 127), (nsplit_small l 127) by lia.
  cbn [Z.eqb negb].
  replace (- (-128 + l)) with (128 + - l) by lia.
  rewrite (nsplit_add (- l) 128) by lia.
  pose proof (nsplit_nonneg (- l) 128 ltac:(lia)) as Hn.
  pose proof (nsplit_zero_le (- l) 128 ltac:(lia)) as Hz.
  set (n := nsplit (- l) 128) in *.
  destruct (n + 1 =? 0) eqn:E1; [lia|]. cbn [negb].
  replace (n + 1 - 1) with n by lia.
  replace (-128 + l + (n + 1) * 128) with (l + n * 128) by lia.
  destruct (n =? 0) eqn:E2; cbn [negb].
  - assert (n = 0) as -> by lia. rewrite zrepeat_0. cbn [app].
    replace (l + 0 * 128) with l by lia.
    rewrite !fin_some_nz by lia. reflexivity.
  - rewrite <- app_comm_cons. rewrite zrepeat_pred by lia. reflexivity.
Qed.

Lemma ph2_false_extra l b : b <> 0 -> ph2 false (Some l, b, true) = ph2 false (Some l, b, false).
Proof.
  intros H. unfold ph2. rewrite !el_false.
  destruct (negb (nsplit l 127 =? 0)); [reflexivity|].
  destruct (negb (nsplit (- l) 128 =? 0)); [reflexivity|].
  cbn [app]. rewrite !fin_bc_nz by lia. reflexivity.
Qed.

(* no merge *)
Lemma expand_raw_lnotab ln bc : raw_entry_ok false (ln, bc) = true ->
  expand_item false (Some ln, bc) = [(ln, bc)].
Proof.
  unfold raw_entry_ok. cbn [fst snd max_bc]. intros H.
  rewrite expand_item_eq. rewrite eb_false, (nsplit_small bc 255) by lia.
  cbn [Z.eqb app]. rewrite ph2_false_small by lia. apply fin_noextra.
Qed.

(* merge, bytecode offset *)
Lemma merge_bc_lnotab i ib : 0 < ib ->
  expand_item false (Some i, 255 + ib) = (0, 255) :: expand_item false (Some i, ib).
Proof.
  intros H. rewrite !expand_item_eq. rewrite !eb_false.
  rewrite (nsplit_add ib 255) by lia.
  pose proof (nsplit_nonneg ib 255 ltac:(lia)) as Hn.
  set (n := nsplit ib 255) in *.
  destruct (n + 1 =? 0) eqn:E1; [lia|].
  replace (n + 1 - 1) with n by lia.
  replace (255 + ib - (n + 1) * 255) with (ib - n * 255) by lia.
  destruct (n =? 0) eqn:E2.
  - assert (n = 0) as -> by lia. rewrite zrepeat_0. cbn [app].
    replace (ib - 0 * 255) with ib by lia.
    rewrite ph2_false_extra by lia. reflexivity.
  - rewrite <- app_comm_cons. rewrite zrepeat_pred by lia. reflexivity.
Qed.

(* merge, line offset *)
Lemma merge_line_pos_lnotab i pb : 0 <= pb <= 255 -> 0 < i ->
  expand_item false (Some (127 + i), pb) = (127, pb) :: expand_item false (Some i, 0).
Proof.
  intros Hb Hi. rewrite !expand_item_eq. rewrite !eb_false.
  rewrite (nsplit_small pb 255), (nsplit_small 0 255) by lia.
  cbn [Z.eqb app]. apply ph2_false_pos; lia.
Qed.

Lemma merge_line_neg_lnotab i pb : 0 <= pb <= 255 -> i < 0 ->
  expand_item false (Some (-128 + i), pb) = (-128, pb) :: expand_item false (Some i, 0).
Proof.
  intros Hb Hi. rewrite !expand_item_eq. rewrite !eb_false.
  rewrite (nsplit_small pb 255), (nsplit_small 0 255) by lia.
  cbn [Z.eqb app]. apply ph2_false_neg; lia.
Qed.

Definition inv_lnotab (c : citem) : Prop := exists l b, c = (Some l, b) /\ 0 <= b.

Lemma split_cond_lnotab ln bc l b :
  raw_entry_ok false (ln, bc) = true -> 0 <= b ->
  bytecode_offset_split false (Some ln, bc) (Some l, b)
  || line_offset_split false (Some ln, bc) (Some l, b) = true ->
  (ln = 0 /\ bc = 255 /\ 0 < b) \/ (b = 0 /\ ln = 127 /\ 0 < l) \/ (b = 0 /\ ln = -128 /\ l < 0).
Proof.
  unfold raw_entry_ok, bytecode_offset_split, line_offset_split, opt_is_zero, opt_is_some.
  cbn [fst snd max_bc min_line]. intros Hx Hb H.
  destruct (ln >? 0) eqn:E; lia.
Qed.

Lemma merge_step_lnotab ln bc l b :
  raw_entry_ok false (ln, bc) = true -> 0 <= b ->
  bytecode_offset_split false (Some ln, bc) (Some l, b)
  || line_offset_split false (Some ln, bc) (Some l, b) = true ->
  inv_lnotab (merge_items (Some ln, bc) (Some l, b)) /\
  expand_item false (merge_items (Some ln, bc) (Some l, b)) = (ln, bc) :: expand_item false (Some l, b).
Proof.
  intros Hx Hb H.
  pose proof (split_cond_lnotab ln bc l b Hx Hb H) as Hc.
  unfold raw_entry_ok in Hx. cbn [fst snd max_bc] in Hx.
  unfold merge_items.
  assert (Hm : (if l =? 0 then Some ln else Some (ln + l)) = Some (ln + l)).
  { destruct (l =? 0) eqn:E; f_equal; lia. }
  rewrite Hm. split.
  - exists (ln + l), (bc + b). split; [reflexivity | lia].
  - destruct Hc as [(-> & -> & Hb') | [(-> & -> & Hl) | (-> & -> & Hl)]].
    + replace (0 + l) with l by lia. apply merge_bc_lnotab; lia.
    + replace (bc + 0) with bc by lia. apply merge_line_pos_lnotab; lia.
    + replace (bc + 0) with bc by lia. apply merge_line_neg_lnotab; lia.
Qed.

Lemma expand_collapse_lnotab_inv t : raw_ok false t = true ->
  Forall inv_lnotab (collapse_items false t) /\
  expand_items false (collapse_items false t) = t.
Proof.
  induction t as [|[ln bc] t IH]; intros H.
  - split; [constructor | reflexivity].
  - unfold raw_ok in H. cbn [forallb] in H. apply andb_true_iff in H as [Hx Ht].
    destruct (IH Ht) as [Hinv Hexp]. clear IH.
    rewrite collapse_items_cons. cbn [to_citem andb].
    pose proof Hx as Hx'. unfold raw_entry_ok in Hx'. cbn [fst snd max_bc] in Hx'.
    destruct (collapse_items false t) as [|item tl]; cbn [collapse_step].
    + split.
      * constructor; [|constructor]. exists ln, bc. split; [reflexivity | lia].
      * rewrite expand_items_cons, expand_raw_lnotab by exact Hx.
        cbn in Hexp. rewrite <- Hexp. reflexivity.
    + pose proof (Forall_inv Hinv) as Hitem. pose proof (Forall_inv_tail Hinv) as Htl.
      destruct Hitem as (l & b & -> & Hb).
      destruct (bytecode_offset_split false (Some ln, bc) (Some l, b)
                || line_offset_split false (Some ln, bc) (Some l, b)) eqn:Hc.
      * destruct (merge_step_lnotab ln bc l b Hx Hb Hc) as [Hi He]. split.
        -- constructor; assumption.
        -- rewrite expand_items_cons, He. rewrite expand_items_cons in Hexp.
           rewrite <- Hexp. reflexivity.
      * split.
        -- constructor; [|assumption]. exists ln, bc. split; [reflexivity | lia].
        -- rewrite expand_items_cons, expand_raw_lnotab by exact Hx.
           rewrite Hexp. reflexivity.
Qed.

Lemma expand_collapse_lnotab t : raw_ok false t = true ->
  expand_items false (collapse_items false t) = t.
Proof. intros H. apply expand_collapse_lnotab_inv; exact H. Qed.

(** * Stage 2: co_linetable *)

Lemma eb_true line bc ex :
  expand_bytecode true (line, bc, ex) =
  if nsplit bc 254 =? 0 then ([], (line, bc, ex))
  else ((lineval line, 254)
          :: zrepeat ((match line with None => -128 | Some _ => 0 end), 254) (nsplit bc 254 - 1),
        ((match line with None => None | Some _ => Some 0 end), bc - nsplit bc 254 * 254, true)).
Proof. reflexivity. Qed.

Lemma el_true l bc ex :
  expand_line true (Some l, bc, ex) =
  if negb (nsplit l 127 =? 0) then
    ((127, 0) :: zrepeat (127, 0) (nsplit l 127 - 1), (Some (l - nsplit l 127 * 127), bc, true))
  else if negb (nsplit (- l) 127 =? 0) then
    ((-127, 0) :: zrepeat (-127, 0) (nsplit (- l) 127 - 1), (Some (l + nsplit (- l) 127 * 127), bc, true))
  else ([], (Some l, bc, ex)).
Proof. reflexivity. Qed.

Lemma el_true_none bc ex : expand_line true (None, bc, ex) = ([], (None, bc, ex)).
Proof. reflexivity. Qed.

Lemma el_true_small l bc ex : -127 <= l <= 127 ->
  expand_line true (Some l, bc, ex) = ([], (Some l, bc, ex)).
Proof.
  intros H. rewrite el_true.
  rewrite (nsplit_small l 127), (nsplit_small (- l) 127) by lia. reflexivity.
Qed.

Lemma ph2_true_small l b ex : b <= 254 -> ph2 true (l, b, ex) = fin (l, b, ex).
Proof.
  intros H. unfold ph2. rewrite eb_true, (nsplit_small b 254) by lia. reflexivity.
Qed.

Lemma ph2_true_extra l b : l <> 0 -> ph2 true (Some l, b, true) = ph2 true (Some l, b, false).
Proof.
  intros H. unfold ph2. rewrite !eb_true.
  destruct (nsplit b 254 =? 0); [|reflexivity].
  cbn [app]. rewrite !fin_some_nz by lia. reflexivity.
Qed.

(* no merge *)
Lemma expand_raw_310 ln bc : raw_entry_ok true (ln, bc) = true ->
  expand_item true (to_citem true (ln, bc)) = [(ln, bc)].
Proof.
  unfold raw_entry_ok. cbn [fst snd max_bc]. intros H.
  unfold to_citem. cbn [andb]. rewrite expand_item_eq.
  destruct (ln =? -128) eqn:E.
  - rewrite el_true_none. cbn [app]. rewrite ph2_true_small by lia.
    rewrite fin_noextra. cbn [lineval]. f_equal. f_equal. lia.
  - rewrite el_true_small by lia. cbn [app]. rewrite ph2_true_small by lia.
    apply fin_noextra.
Qed.

(* merge, bytecode offset *)
Lemma merge_bc_310 p ib : -127 <= p <= 127 -> 0 < ib ->
  expand_item true (Some p, 254 + ib) = (p, 254) :: expand_item true (Some 0, ib).
Proof.
  intros Hp H. rewrite !expand_item_eq.
  rewrite !el_true_small by lia. cbn [app].
  unfold ph2. rewrite !eb_true. cbn [lineval].
  rewrite (nsplit_add ib 254) by lia.
  pose proof (nsplit_nonneg ib 254 ltac:(lia)) as Hn.
  set (n := nsplit ib 254) in *.
  destruct (n + 1 =? 0) eqn:E1; [lia|].
  replace (n + 1 - 1) with n by lia.
  replace (254 + ib - (n + 1) * 254) with (ib - n * 254) by lia.
  destruct (n =? 0) eqn:E2.
  - assert (n = 0) as -> by lia. rewrite zrepeat_0. cbn [app].
    replace (ib - 0 * 254) with ib by lia.
    rewrite !fin_bc_nz by lia. reflexivity.
  - rewrite <- (zrepeat_pred (0, 254) n) by lia. reflexivity.
Qed.

(* merge, line offset *)
Lemma merge_line_pos_310 i ib : 0 < i ->
  expand_item true (Some (127 + i), ib) = (127, 0) :: expand_item true (Some i, ib).
Proof.
  intros H. rewrite !expand_item_eq. rewrite !el_true.
  rewrite (nsplit_add i 127) by lia.
  pose proof (nsplit_nonneg i 127 ltac:(lia)) as Hn.
  pose proof (nsplit_zero_le i 127 ltac:(lia)) as Hz.
  set (n := nsplit i 127) in *.
  destruct (n + 1 =? 0) eqn:E1; [lia|]. cbn [negb].
  replace (n + 1 - 1) with n by lia.
  replace (127 + i - (n + 1) * 127) with (i - n * 127) by lia.
  destruct (n =? 0) eqn:E2; cbn [negb].
  - assert (n = 0) as -> by lia. rewrite zrepeat_0.
    rewrite (nsplit_small (- i) 127) by lia. cbn [Z.eqb negb app].
    replace (i - 0 * 127) with i by lia.
    rewrite ph2_true_extra by lia. reflexivity.
  - rewrite <- (zrepeat_pred (127, 0) n) by lia. reflexivity.
Qed.

Lemma merge_line_neg_310 i ib : i < 0 ->
  expand_item true (Some (-127 + i), ib) = (-127, 0) :: expand_item true (Some i, ib).
Proof.
  intros H. rewrite !expand_item_eq. rewrite !el_true.
  rewrite (nsplit_small (-127 + i) 127), (nsplit_small i 127) by lia.
  cbn [Z.eqb negb].
  replace (- (-127 + i)) with (127 + - i) by lia.
  rewrite (nsplit_add (- i) 127) by lia.
  pose proof (nsplit_nonneg (- i) 127 ltac:(lia)) as Hn.
  pose proof (nsplit_zero_le (- i) 127 ltac:(lia)) as Hz.
  set (n := nsplit (- i) 127) in *.
  destruct (n + 1 =? 0) eqn:E1; [lia|]. cbn [negb].
  replace (n + 1 - 1) with n by lia.
  replace (-127 + i + (n + 1) * 127) with (i + n * 127) by lia.
  destruct (n =? 0) eqn:E2; cbn [negb].
  - assert (n = 0) as -> by lia. rewrite zrepeat_0. cbn [app].
    replace (i + 0 * 127) with i by lia.
    rewrite ph2_true_extra by lia. reflexivity.
  - rewrite <- (zrepeat_pred (-127, 0) n) by lia. reflexivity.
Qed.

Definition inv_310 (c : citem) : Prop := 0 <= snd c.

Lemma split_cond_310 ln bc il ib :
  raw_entry_ok true (ln, bc) = true -> 0 <= ib ->
  bytecode_offset_split true (to_citem true (ln, bc)) (il, ib)
  || line_offset_split true (to_citem true (ln, bc)) (il, ib) = true ->
  ln <> -128 /\
  ((il = Some 0 /\ bc = 254 /\ 0 < ib) \/
   (exists i, il = Some i /\ bc = 0 /\ ln = 127 /\ 0 < i) \/
   (exists i, il = Some i /\ bc = 0 /\ ln = -127 /\ i < 0)).
Proof.
  unfold raw_entry_ok, to_citem, bytecode_offset_split, line_offset_split.
  cbn [fst snd max_bc min_line andb]. intros Hx Hb.
  destruct (ln =? -128) eqn:E0; cbn [opt_is_some].
  - intros H. exfalso. rewrite !andb_false_r in H. discriminate.
  - destruct il as [i|]; cbn [opt_is_zero].
    + intros H. split; [lia|].
      destruct (ln >? 0) eqn:E.
      * assert (Hc : (i = 0 /\ bc = 254 /\ 0 < ib) \/ (bc = 0 /\ ln = 127 /\ 0 < i)) by lia.
        destruct Hc as [(-> & Hc) | Hc]; [left; split; [reflexivity | exact Hc]|].
        right. left. exists i. split; [reflexivity | exact Hc].
      * assert (Hc : (i = 0 /\ bc = 254 /\ 0 < ib) \/ (bc = 0 /\ ln = -127 /\ i < 0)) by lia.
        destruct Hc as [(-> & Hc) | Hc]; [left; split; [reflexivity | exact Hc]|].
        right. right. exists i. split; [reflexivity | exact Hc].
    + intros H. exfalso. rewrite !andb_false_r in H. cbn [andb] in H. discriminate.
Qed.

Lemma merge_step_310 ln bc il ib :
  raw_entry_ok true (ln, bc) = true -> 0 <= ib ->
  bytecode_offset_split true (to_citem true (ln, bc)) (il, ib)
  || line_offset_split true (to_citem true (ln, bc)) (il, ib) = true ->
  inv_310 (merge_items (to_citem true (ln, bc)) (il, ib)) /\
  expand_item true (merge_items (to_citem true (ln, bc)) (il, ib)) = (ln, bc) :: expand_item true (il, ib).
Proof.
  intros Hx Hb H.
  destruct (split_cond_310 ln bc il ib Hx Hb H) as [Hln Hc].
  unfold raw_entry_ok in Hx. cbn [fst snd max_bc] in Hx.
  unfold to_citem. cbn [andb].
  destruct (ln =? -128) eqn:E0; [lia|].
  unfold merge_items, inv_310.
  destruct Hc as [(-> & -> & Hib) | [(i & -> & -> & -> & Hi) | (i & -> & -> & -> & Hi)]].
  - cbn [Z.eqb snd]. split; [lia|]. apply merge_bc_310; lia.
  - destruct (i =? 0) eqn:E; [lia|]. cbn [snd]. split; [lia|].
    replace (0 + ib) with ib by lia. apply merge_line_pos_310; lia.
  - destruct (i =? 0) eqn:E; [lia|]. cbn [snd]. split; [lia|].
    replace (0 + ib) with ib by lia. apply merge_line_neg_310; lia.
Qed.

Lemma to_citem_inv_310 ln bc : raw_entry_ok true (ln, bc) = true -> inv_310 (to_citem true (ln, bc)).
Proof.
  unfold raw_entry_ok, inv_310, to_citem. cbn [fst snd]. intros H. lia.
Qed.

Lemma expand_collapse_310_inv t : raw_ok true t = true ->
  Forall inv_310 (collapse_items true t) /\
  expand_items true (collapse_items true t) = t.
Proof.
  induction t as [|[ln bc] t IH]; intros H.
  - split; [constructor | reflexivity].
  - unfold raw_ok in H. cbn [forallb] in H. apply andb_true_iff in H as [Hx Ht].
    destruct (IH Ht) as [Hinv Hexp]. clear IH.
    rewrite collapse_items_cons.
    pose proof (to_citem_inv_310 ln bc Hx) as Hp.
    destruct (collapse_items true t) as [|[il ib] tl]; cbn [collapse_step].
    + split.
      * constructor; [exact Hp | constructor].
      * rewrite expand_items_cons, expand_raw_310 by exact Hx.
        cbn in Hexp. rewrite <- Hexp. reflexivity.
    + pose proof (Forall_inv Hinv) as Hitem. pose proof (Forall_inv_tail Hinv) as Htl.
      unfold inv_310 in Hitem. cbn [snd] in Hitem.
      destruct (bytecode_offset_split true (to_citem true (ln, bc)) (il, ib)
                || line_offset_split true (to_citem true (ln, bc)) (il, ib)) eqn:Hc.
      * destruct (merge_step_310 ln bc il ib Hx Hitem Hc) as [Hi He]. split.
        -- constructor; assumption.
        -- rewrite expand_items_cons, He. rewrite expand_items_cons in Hexp.
           rewrite <- Hexp. reflexivity.
      * split.
        -- constructor; assumption.
        -- rewrite expand_items_cons, expand_raw_310 by exact Hx.
           rewrite Hexp. reflexivity.
Qed.

Lemma expand_collapse_310 t : raw_ok true t = true ->
  expand_items true (collapse_items true t) = t.
Proof. intros H. apply expand_collapse_310_inv; exact H. Qed.

(** * Both formats *)

Lemma expand_collapse : S_expand_collapse.
Proof.
  unfold S_expand_collapse. intros [|] t H.
  - apply expand_collapse_310; exact H.
  - apply expand_collapse_lnotab; exact H.
Qed.

Print Assumptions bytes_items.
Print Assumptions items_bytes.
Print Assumptions expand_collapse.
