(* C04, the docstring / kind / type-None clauses: what decode_code reads in the header of a code
   object is what CPython exposes about a function built from it (Spec/FuncKind.v). *)
From Coq Require Import ZArith List Bool Lia ZifyBool.
From PCD Require Import Base.PyBase Base.Cfg Model.Flags Model.Args Model.Data Model.Consts
  Model.LineTable Model.Blocks Model.CodeData Spec.Sig Spec.FuncKind
  Proofs.C11_Statements Proofs.C04b_Statements.
From PCD Require Proofs.FlagsProofs Proofs.ArgsProofs Proofs.RoundTrip2 Gen.Cfg39.
Import ListNotations. Open Scope Z_scope.

Module FP := FlagsProofs.
Module AP := ArgsProofs.
Module R2 := RoundTrip2.

(* ------------------------------------------------------------------ *)
(** * 1. Membership in the decoded flag names is the bit of the flags word *)

(* a successful conversion lists exactly the members whose bit is set *)
Lemma to_flags_filter c w fl : flags_wf (cfg_flags c) = true ->
  to_flags_data c w = OK fl ->
  fl = map fst (filter (fun fv : flag * Z => negb (Z.land (snd fv) w =? 0)) (cfg_flags c)).
Proof.
  intros Hwf H. rewrite FP.to_flags_data_unfold in H.
  destruct (w =? 0) eqn:E0.
  - apply Z.eqb_eq in E0. subst w. inversion H; subst fl. now rewrite FP.filter_zero_nil.
  - destruct (negb (fold_left (fun nc fv => Z.land nc (Z.lnot (snd fv))) (FP.members_of c w) w =? 0));
      [discriminate|].
    inversion H; subst fl. now rewrite (FP.members_pow2 c w Hwf).
Qed.

Lemma mem_filter_absent (p : flag * Z -> bool) f : forall tbl,
  ~ In (flag_id f) (map (fun fv : flag * Z => flag_id (fst fv)) tbl) ->
  flag_mem f (map fst (filter p tbl)) = false.
Proof.
  induction tbl as [|[g v] tbl IH]; intros Hn; [reflexivity|].
  cbn [map fst In] in Hn. cbn [filter].
  assert (Hfg : flag_eqb f g = false).
  { unfold flag_eqb. destruct (flag_id f =? flag_id g) eqn:E; [|reflexivity].
    apply Z.eqb_eq in E. exfalso. apply Hn. left. now symmetry. }
  assert (Hr : flag_mem f (map fst (filter p tbl)) = false) by (apply IH; tauto).
  destruct (p (g, v)); [|exact Hr].
  cbn [map fst]. unfold flag_mem in *. cbn [existsb]. now rewrite Hfg, Hr.
Qed.

Lemma mem_filter_value (q : Z -> bool) f : forall tbl,
  NoDup (map (fun fv : flag * Z => flag_id (fst fv)) tbl) ->
  flag_mem f (map fst (filter (fun fv : flag * Z => q (snd fv)) tbl))
  = match flag_value tbl f with Some v => q v | None => false end.
Proof.
  induction tbl as [|[g v] tbl IH]; intros Hnd; [reflexivity|].
  cbn [map fst] in Hnd. inversion Hnd as [|? ? Hn Hd]; subst.
  cbn [filter flag_value snd].
  destruct (flag_eqb f g) eqn:Efg.
  - assert (Hid : flag_id g = flag_id f) by (unfold flag_eqb in Efg; lia).
    rewrite Hid in Hn.
    pose proof (mem_filter_absent (fun fv : flag * Z => q (snd fv)) f tbl Hn) as Hr.
    destruct (q v); [|exact Hr].
    cbn [map fst]. unfold flag_mem. cbn [existsb]. now rewrite Efg.
  - rewrite <- (IH Hd). destruct (q v); [|reflexivity].
    cbn [map fst]. unfold flag_mem. cbn [existsb]. now rewrite Efg.
Qed.

(* the bridge *)
Lemma flag_mem_bit c w fl : flags_wf (cfg_flags c) = true ->
  to_flags_data c w = OK fl -> forall f, flag_mem f fl = bit_set c f w.
Proof.
  intros Hwf H f. rewrite (to_flags_filter c w fl Hwf H).
  destruct (FP.flags_wf_parts _ Hwf) as [Hids _].
  unfold bit_set.
  exact (mem_filter_value (fun v => negb (Z.land v w =? 0)) f (cfg_flags c) Hids).
Qed.

(* ------------------------------------------------------------------ *)
(** * 2. The flags left by args_from_input *)

Lemma args_flags_left ac po kw vn fl a fl1 :
  args_from_input ac po kw vn fl = OK (a, fl1) ->
  fl1 = flag_remove VARKEYWORDS (flag_remove VARARGS fl).
Proof.
  unfold args_from_input. cbv zeta.
  generalize (py_slice_from kw (py_slice_from (ac - po) (py_slice_from po vn))).
  intros v3 H.
  destruct (flag_mem VARARGS fl) eqn:E1.
  - destruct v3 as [|x v4]; [discriminate|].
    destruct (flag_mem VARKEYWORDS (flag_remove VARARGS fl)) eqn:E2.
    + destruct v4 as [|y v5]; [discriminate|]. inversion H. reflexivity.
    + inversion H; subst. symmetry. apply AP.flag_remove_absent. exact E2.
  - rewrite (AP.flag_remove_absent VARARGS fl E1).
    destruct (flag_mem VARKEYWORDS fl) eqn:E2.
    + destruct v3 as [|y v5]; [discriminate|]. inversion H. reflexivity.
    + inversion H; subst. symmetry. apply AP.flag_remove_absent. exact E2.
Qed.

(* ------------------------------------------------------------------ *)
(** * 3. The first constant *)

Lemma mapM_cons {A B} (f : A -> res B) x xs :
  mapM f (x :: xs)
  = match f x with
    | Err e => Err e
    | OK y => match mapM f xs with Err e => Err e | OK ys => OK (y :: ys) end
    end.
Proof. reflexivity. Qed.

Lemma doc_of_consts c (consts : list pyconst) ks :
  mapM (to_const c) consts = OK ks ->
  match ks with KInner (IStr s) :: _ => Some s | _ => None end = cpy_doc consts.
Proof.
  destruct consts as [|k r]; intros H.
  - inversion H. reflexivity.
  - rewrite mapM_cons in H.
    destruct (to_const c k) as [y|] eqn:Ek; [|discriminate].
    destruct (mapM (to_const c) r) as [ys|]; [|discriminate].
    inversion H; subst ks. clear H.
    destruct k as [i|code].
    + cbn [to_const] in Ek. inversion Ek; subst y. reflexivity.
    + cbn [to_const] in Ek.
      destruct (mapM (to_const c) (co_consts code)) as [ks'|]; [|discriminate].
      destruct (decode_code c code ks') as [d|]; [|discriminate].
      inversion Ek; subst y. reflexivity.
Qed.

(* ------------------------------------------------------------------ *)
(** * 4. The theorem *)

Theorem C04_header : S_C04_header.
Proof.
  intros c code ks d Hwf Hks Hdec.
  destruct (R2.decode_code_inv _ _ _ _ Hdec)
    as (lm0 & fl0 & a & fl1 & bt & lm' & nl & lm'' & _ & Hfl & Ha & _ & Hbt & _ & _ & Hd).
  assert (Ht : cd_type d = bt) by (rewrite Hd; reflexivity).
  rewrite Ht. clear Ht Hd Hdec.
  pose proof (flag_mem_bit c (co_flags code) fl0 Hwf Hfl) as B.
  pose proof (args_flags_left _ _ _ _ _ _ _ Ha) as Hfl1.
  assert (M : forall f, flag_eqb NESTED f = false -> flag_eqb F_annotations f = false ->
                        flag_eqb NOFREE f = false -> flag_eqb VARKEYWORDS f = false ->
                        flag_eqb VARARGS f = false ->
                        flag_mem f (flag_remove NESTED (flag_remove F_annotations (flag_remove NOFREE fl1)))
                        = bit_set c f (co_flags code)).
  { intros f H1 H2 H3 H4 H5. rewrite Hfl1.
    rewrite (AP.flag_mem_remove_other f NESTED _ H1), (AP.flag_mem_remove_other f F_annotations _ H2),
            (AP.flag_mem_remove_other f NOFREE _ H3), (AP.flag_mem_remove_other f VARKEYWORDS _ H4),
            (AP.flag_mem_remove_other f VARARGS _ H5).
    apply B. }
  unfold R2.decode_bt, FN_FLAGS, FN_TYPE_FLAGS in Hbt. cbn [filter fst] in Hbt.
  rewrite !M in Hbt by reflexivity.
  rewrite (doc_of_consts c (co_consts code) ks Hks) in Hbt.
  unfold function_like, inspect_kind.
  destruct (bit_set c NEWLOCALS (co_flags code)) eqn:E1,
           (bit_set c OPTIMIZED (co_flags code)) eqn:E0; try discriminate Hbt.
  - (* a function *)
    assert (Hargs : forall f, fn_args f = a ->
              exists fl0' fl1',
                to_flags_data c (co_flags code) = OK fl0'
                /\ args_from_input (co_argcount code) (if cfg_v38 c then co_posonlyargcount code else 0)
                     (co_kwonlyargcount code) (co_varnames code) fl0' = OK (fn_args f, fl1')
                /\ flag_mem VARARGS fl0' = bit_set c VARARGS (co_flags code)
                /\ flag_mem VARKEYWORDS fl0' = bit_set c VARKEYWORDS (co_flags code)).
    { intros f Hf. exists fl0, fl1. rewrite Hf. repeat split; [exact Hfl | exact Ha | apply B | apply B]. }
    destruct (bit_set c ASYNC_GENERATOR (co_flags code)) eqn:E9,
             (bit_set c COROUTINE (co_flags code)) eqn:E7,
             (bit_set c GENERATOR (co_flags code)) eqn:E5; try discriminate Hbt;
      inversion Hbt as [[Hb H5]]; clear Hbt; cbn [fn_doc fn_type andb];
      (split; [reflexivity|]); (split; [reflexivity|]); (split; [reflexivity|]);
      apply Hargs; reflexivity.
  - (* module or class body *)
    destruct (negb (args_len a =? 0)); [discriminate|]. inversion Hbt. reflexivity.
Qed.

(* ------------------------------------------------------------------ *)
(** * 5. Not vacuous: a generator function of 3.9 with a docstring *)

Definition gen_code : pycode :=
  mkCode 1 0 0 1 1 99 [100; 0; 83; 0] [PInner (IStr [100]); PInner INone] [] [[97]] [60] [102] 1
         [0; 1] [] [].

Example C04_header_generator :
  flags_wf (cfg_flags Gen.Cfg39.cfg) = true
  /\ function_like Gen.Cfg39.cfg (co_flags gen_code) = true
  /\ match to_code_data Gen.Cfg39.cfg gen_code with
     | OK d => match cd_type d with
               | Some f => fn_doc f = Some [100] /\ fn_type f = Some FT_GENERATOR
               | None => False
               end
     | Err _ => False
     end.
Proof. vm_compute. repeat split; reflexivity. Qed.

Print Assumptions C04_header.
