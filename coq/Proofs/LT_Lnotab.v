(* co_lnotab (lt = false): stage 3 round trip, well-formedness of collapsed tables,
   CPython reader correspondence, assembler image, and the assembled C10 property. *)
From Coq Require Import ZArith List Bool Lia ZifyBool.
From PCD Require Import Base.PyBase Model.LineTable Spec.Lnotab Proofs.C10_Statements.
Import ListNotations. Open Scope Z_scope.
Ltac Zify.zify_post_hook ::= Z.to_euclidean_division_equations.

(** * Generic helpers *)

Lemma even_true_ex x : Z.even x = true -> exists m, x = 2 * m.
Proof. intros H. apply Z.even_spec in H. exact H. Qed.

Lemma even_true_of x m : x = 2 * m -> Z.even x = true.
Proof. intros H. apply Z.even_spec. exists m. exact H. Qed.

Lemma sumZ_app a b : sumZ (a ++ b) = sumZ a + sumZ b.
Proof.
  induction a as [|x a IH].
  - change (sumZ b = 0 + sumZ b). lia.
  - change (x + sumZ (a ++ b) = x + sumZ a + sumZ b). lia.
Qed.

Lemma sumZ_cons x a : sumZ (x :: a) = x + sumZ a.
Proof. reflexivity. Qed.

Lemma zlen_cons {A} (x : A) l : zlen (x :: l) = 1 + zlen l.
Proof. unfold zlen. cbn [length]. lia. Qed.

Lemma zlen_nonneg {A} (l : list A) : 0 <= zlen l.
Proof. unfold zlen. lia. Qed.

Lemma zlen_app {A} (a b : list A) : zlen (a ++ b) = zlen a + zlen b.
Proof. unfold zlen. rewrite app_length. lia. Qed.

Section OD.
  Context {V : Type}.
  Lemma oget_oset_same (d : odict V) k v : oget (oset d k v) k = Some v.
  Proof.
    induction d as [|[k' v'] d IH]; cbn [oset oget].
    - rewrite Z.eqb_refl. reflexivity.
    - destruct (k' =? k) eqn:E; cbn [oget].
      + rewrite Z.eqb_refl. reflexivity.
      + rewrite E. exact IH.
  Qed.
  Lemma oget_oset_other (d : odict V) k k' v : k <> k' -> oget (oset d k v) k' = oget d k'.
  Proof.
    intros N. induction d as [|[k0 v0] d IH]; cbn [oset oget].
    - destruct (k =? k') eqn:E; [lia | reflexivity].
    - destruct (k0 =? k) eqn:E; cbn [oget].
      + destruct (k =? k') eqn:E1; [lia|]. destruct (k0 =? k') eqn:E2; [lia|]. reflexivity.
      + destruct (k0 =? k') eqn:E2; [reflexivity | exact IH].
  Qed.
  Lemma oset_fresh (d : odict V) k v :
    Forall (fun kv : Z * V => fst kv < k) d -> oset d k v = d ++ [(k, v)].
  Proof.
    induction 1 as [|[k0 v0] d H _ IH]; cbn [oset app].
    - reflexivity.
    - cbn [fst] in H. destruct (k0 =? k) eqn:E; [lia|]. rewrite IH. reflexivity.
  Qed.
  Lemma oget_app_fresh (d1 d2 : odict V) k :
    oget d1 k = None -> oget (d1 ++ d2) k = oget d2 k.
  Proof.
    induction d1 as [|[k0 v0] d1 IH]; cbn [oget app]; [reflexivity|].
    destruct (k0 =? k); [discriminate | exact IH].
  Qed.
  Lemma oget_app_found (d1 d2 : odict V) k v :
    oget d1 k = Some v -> oget (d1 ++ d2) k = Some v.
  Proof.
    induction d1 as [|[k0 v0] d1 IH]; cbn [oget app]; [discriminate|].
    destruct (k0 =? k); [trivial | exact IH].
  Qed.
  Lemma oget_small (d : odict V) k b :
    Forall (fun kv : Z * V => fst kv < b) d -> b <= k -> oget d k = None.
  Proof.
    induction 1 as [|[k0 v0] d H _ IH]; cbn [oget]; intros L; [reflexivity|].
    cbn [fst] in H. destruct (k0 =? k) eqn:E; [lia | auto].
  Qed.
End OD.

(* the list stored for a key of the "additional" dict, [] if absent *)
Definition addl (d : odict (list Z)) (k : Z) : list Z :=
  match oget d k with Some l => l | None => [] end.

Lemma addl_append d k x : addl (adds_append d k x) k = addl d k ++ [x].
Proof.
  unfold addl, adds_append. destruct (oget d k) eqn:E; rewrite oget_oset_same; reflexivity.
Qed.

Lemma oget_append_other d k x k' : k <> k' -> oget (adds_append d k x) k' = oget d k'.
Proof.
  intros N. unfold adds_append. destruct (oget d k); apply oget_oset_other; exact N.
Qed.

(** * Stage 3, co_lnotab *)

Definition sumbc (items : list citem) : Z := sumZ (map (fun it : citem => snd it) items).

Definition zw (zs : list Z) : list citem := map (fun x => (Some x, 0)) zs.

Lemma sumbc_zw zs : sumbc (zw zs) = 0.
Proof. induction zs as [|z zs IH]; [reflexivity|]. unfold sumbc in *. cbn [zw map snd]. rewrite sumZ_cons. unfold zw in IH. lia. Qed.

Lemma zlen_zw zs : zlen (zw zs) = zlen zs.
Proof. unfold zlen, zw. rewrite map_length. reflexivity. Qed.

Lemma sumbc_app a b : sumbc (a ++ b) = sumbc a + sumbc b.
Proof. unfold sumbc. rewrite map_app, sumZ_app. reflexivity. Qed.

Lemma sumbc_cons l b r : sumbc ((l, b) :: r) = b + sumbc r.
Proof. reflexivity. Qed.

Lemma wfc_cons l b r :
  wfc_lnotab ((l, b) :: r) = true ->
  (exists lo, l = Some lo) /\ 0 <= b /\ (exists m, b = 2 * m) /\ wfc_lnotab r = true.
Proof.
  unfold wfc_lnotab. cbn [forallb]. unfold wfc_lnotab_item. cbn [fst snd].
  intros H. apply andb_true_iff in H as [H1 H2].
  apply andb_true_iff in H1 as [H1 H3]. apply andb_true_iff in H1 as [H1 H4].
  split; [|split; [|split]].
  - destruct l; [eauto | discriminate].
  - lia.
  - apply even_true_ex; exact H3.
  - exact H2.
Qed.

Lemma wfc_sumbc_nonneg c : wfc_lnotab c = true -> 0 <= sumbc c.
Proof.
  induction c as [|[l b] r IH]; intros H.
  - unfold sumbc; cbn; lia.
  - apply wfc_cons in H as (_ & Hb & _ & Hr). rewrite sumbc_cons. specialize (IH Hr). lia.
Qed.

Lemma wfc_sumabs c :
  wfc_lnotab c = true -> sumZ (map (fun it : citem => Z.abs (snd it)) c) = sumbc c.
Proof.
  induction c as [|[l b] r IH]; intros H.
  - reflexivity.
  - apply wfc_cons in H as (_ & Hb & _ & Hr). rewrite sumbc_cons. cbn [map snd].
    rewrite sumZ_cons, (IH Hr). lia.
Qed.

Lemma czw_spec bo : forall items cur adds,
  wfc_lnotab items = true ->
  exists zs items2 adds2,
    consume_zero_width items bo cur adds = OK (items2, cur + sumZ zs, adds2)
    /\ items = zw zs ++ items2
    /\ addl adds2 bo = addl adds bo ++ zs
    /\ (forall k, k <> bo -> oget adds2 k = oget adds k)
    /\ match items2 with [] => True | (_, ib) :: _ => ib <> 0 end
    /\ wfc_lnotab items2 = true.
Proof.
  induction items as [|[l b] r IH]; intros cur adds W.
  - exists [], [], adds. cbn [consume_zero_width sumZ fold_right zw map app].
    rewrite Z.add_0_r, app_nil_r. auto 10.
  - pose proof (wfc_cons _ _ _ W) as ([lo ->] & Hb & _ & Wr).
    cbn [consume_zero_width]. destruct (b =? 0) eqn:E.
    + destruct (IH (cur + lo) (adds_append adds bo lo) Wr)
        as (zs & items2 & adds2 & H1 & H2 & H3 & H4 & H5 & H6).
      exists (lo :: zs), items2, adds2. rewrite H1, sumZ_cons.
      split; [f_equal; f_equal; f_equal; lia|].
      split; [cbn [zw map app]; unfold zw in H2; rewrite <- H2; f_equal; f_equal; lia|].
      split; [rewrite H3, addl_append, <- app_assoc; reflexivity|].
      split; [intros k N; rewrite H4 by exact N; apply oget_append_other; lia|].
      auto.
    + exists [], ((Some lo, b) :: r), adds. cbn [sumZ fold_right zw map app].
      rewrite Z.add_0_r, app_nil_r. repeat split; auto. lia.
Qed.

Notation loop := items_to_mapping_lnotab.

Lemma loop_S fuel items n last_bo cur bo lines adds :
  loop (S fuel) items n last_bo cur bo lines adds =
  if negb ((bo <? n) || negb (match items with [] => true | _ => false end))
  then OK {| lm_lines := lines; lm_adds := adds |}
  else
    match items with
    | [] => loop fuel items n last_bo cur (bo + 2) (oset lines bo (Some cur)) adds
    | (il, ib) :: r =>
        let step1 :=
          if bo - last_bo =? ib then
            match il with
            | Some lo => OK (r, cur + lo, bo, if lo =? 0 then adds_append adds bo 0 else adds)
            | None => Err TypeError
            end
          else OK (items, cur, last_bo, adds) in
        match step1 with
        | Err e => Err e
        | OK (items1, cur1, last1, adds1) =>
            match consume_zero_width items1 bo cur1 adds1 with
            | Err e => Err e
            | OK (items2, cur2, adds2) =>
                loop fuel items2 n last1 cur2 (bo + 2) (oset lines bo (Some cur2)) adds2
            end
        end
    end.
Proof. reflexivity. Qed.

Lemma loop_exit fuel n last_bo cur bo lines adds :
  n <= bo -> loop fuel [] n last_bo cur bo lines adds = OK {| lm_lines := lines; lm_adds := adds |}.
Proof.
  intros H. destruct fuel; cbn [items_to_mapping_lnotab];
    (destruct (bo <? n) eqn:E; [lia | reflexivity]).
Qed.

Lemma m2i_cons bo line r adds last_line last_bo :
  mapping_to_items_lnotab ((bo, Some line) :: r) adds last_line last_bo =
  let additional := addl adds bo in
  let first := line - last_line - sumZ additional in
  let all := if first =? 0 then additional else first :: additional in
  let emitted :=
    match all with
    | [] => []
    | lo :: rest => (Some lo, bo - last_bo) :: zw rest
    end in
  let last_bo' := match all with [] => last_bo | _ => bo end in
  match mapping_to_items_lnotab r adds line last_bo' with
  | OK rest => OK (emitted ++ rest)
  | Err e => Err e
  end.
Proof. reflexivity. Qed.

Definition head_ok (items : list citem) (d : Z) : Prop :=
  match items with [] => True | (_, ib) :: _ => d <= ib end.

Definition mu (n : Z) (items : list citem) (last_bo bo : Z) : Z :=
  (Z.max 0 (n - bo) + 1) / 2
  + match items with [] => 0 | _ => (sumbc items + last_bo - bo) / 2 end
  + zlen items.

Lemma mu_nonneg n items last_bo bo :
  wfc_lnotab items = true -> head_ok items (bo - last_bo) -> 0 <= mu n items last_bo bo.
Proof.
  intros W H. unfold mu. pose proof (zlen_nonneg items).
  destruct items as [|[l b] r].
  - lia.
  - cbn [head_ok] in H. apply wfc_cons in W as (_ & _ & _ & Wr).
    pose proof (wfc_sumbc_nonneg _ Wr). rewrite sumbc_cons. lia.
Qed.

Lemma m2i_skip bo line r adds last_bo items :
  addl adds bo = [] ->
  mapping_to_items_lnotab r adds line last_bo = OK items ->
  mapping_to_items_lnotab ((bo, Some line) :: r) adds line last_bo = OK items.
Proof.
  intros Ha Hr. rewrite m2i_cons, Ha. cbv zeta.
  change (sumZ []) with 0. replace (line - line - 0) with 0 by lia.
  rewrite Z.eqb_refl, Hr. reflexivity.
Qed.

Lemma m2i_emit bo line r adds last_line last_bo lo zs items2 :
  addl adds bo = (if lo =? 0 then [0] else []) ++ zs ->
  line = last_line + lo + sumZ zs ->
  mapping_to_items_lnotab r adds line bo = OK items2 ->
  mapping_to_items_lnotab ((bo, Some line) :: r) adds last_line last_bo
  = OK ((Some lo, bo - last_bo) :: zw zs ++ items2).
Proof.
  intros Ha Hl Hr. rewrite m2i_cons, Ha. cbv zeta.
  destruct (lo =? 0) eqn:E; cbn [app].
  - rewrite sumZ_cons. assert (lo = 0) as -> by lia.
    replace (line - last_line - (0 + sumZ zs)) with 0 by lia.
    rewrite Z.eqb_refl, Hr. reflexivity.
  - replace (line - last_line - sumZ zs) with lo by lia.
    rewrite E, Hr. reflexivity.
Qed.

(* reading a collapsed table the way CPython reads a raw one *)
Definition optval (o : option Z) : Z := match o with Some z => z | None => 0 end.
Definition uncit (c : list citem) : list eitem :=
  map (fun it : citem => (optval (fst it), snd it)) c.

Lemma uncit_cons l b r : uncit ((l, b) :: r) = (optval l, b) :: uncit r.
Proof. reflexivity. Qed.

Lemma a2l_cons ld bd r a line o :
  addr2line_from ((ld, bd) :: r) a line o =
  if a + bd >? o then line else addr2line_from r (a + bd) (line + ld) o.
Proof. reflexivity. Qed.

Lemma a2l_zw : forall zs rest a line o,
  a <= o ->
  addr2line_from (uncit (zw zs ++ rest)) a line o = addr2line_from (uncit rest) a (line + sumZ zs) o.
Proof.
  induction zs as [|z zs IH]; intros rest a line o H.
  - cbn [zw map app]. change (sumZ []) with 0. rewrite Z.add_0_r. reflexivity.
  - cbn [zw map app]. rewrite uncit_cons, a2l_cons.
    destruct (a + 0 >? o) eqn:E; [lia|].
    fold (zw zs). rewrite IH by lia. rewrite sumZ_cons. cbn [optval].
    rewrite Z.add_0_r, Z.add_assoc. reflexivity.
Qed.

Lemma a2l_stop items a line o :
  match items with [] => True | (_, ib) :: _ => a + ib > o end ->
  addr2line_from (uncit items) a line o = line.
Proof.
  destruct items as [|[l b] r]; intros H; [reflexivity|].
  rewrite uncit_cons, a2l_cons. destruct (a + b >? o) eqn:E; [reflexivity | lia].
Qed.

Lemma loop_ok n : forall fuel items last_bo cur bo lines adds,
  wfc_lnotab items = true ->
  (exists m, bo = 2 * m) -> (exists m, last_bo = 2 * m) -> last_bo <= bo ->
  head_ok items (bo - last_bo) ->
  Forall (fun kv : Z * option Z => fst kv < bo) lines ->
  (forall k, bo <= k -> oget adds k = None) ->
  mu n items last_bo bo <= Z.of_nat fuel ->
  exists lines' adds',
    loop fuel items n last_bo cur bo lines adds
      = OK {| lm_lines := lines ++ lines'; lm_adds := adds' |}
    /\ (forall k, k < bo -> oget adds' k = oget adds k)
    /\ mapping_to_items_lnotab lines' adds' cur last_bo = OK items
    /\ (forall o, bo <= o < n -> (exists k, o = 2 * k) ->
        oget lines' o = Some (Some (addr2line_from (uncit items) last_bo cur o))).
Proof.
  induction fuel as [|fuel IH];
    intros items last_bo cur bo lines adds W [mb Eb] [ml El] Hle Hh Hl Ha Hf.
  - assert (items = [] /\ n <= bo) as [-> Hn].
    { unfold mu in Hf. destruct items as [|[l b] r].
      - split; [reflexivity|]. change (zlen (@nil citem)) with 0 in Hf. lia.
      - exfalso. rewrite zlen_cons in Hf. apply wfc_cons in W as (_ & _ & _ & Wr).
        pose proof (wfc_sumbc_nonneg _ Wr). pose proof (zlen_nonneg r).
        rewrite sumbc_cons in Hf. cbn [head_ok] in Hh. lia. }
    rewrite loop_exit by exact Hn. exists [], adds. rewrite app_nil_r. repeat split; auto. intros; lia.
  - destruct items as [|[l b] r].
    + destruct (Z_lt_le_dec bo n) as [Hn|Hn].
      * rewrite loop_S. destruct (bo <? n) eqn:E; [|lia]. cbn [orb negb].
        destruct (IH [] last_bo cur (bo + 2) (oset lines bo (Some cur)) adds)
          as (lines' & adds' & H1 & H2 & H3 & H4).
        { reflexivity. }
        { exists (mb + 1); lia. }
        { exists ml; lia. }
        { lia. }
        { exact I. }
        { rewrite oset_fresh by exact Hl. apply Forall_app. split.
          - eapply Forall_impl; [|exact Hl]. cbv beta. intros; lia.
          - constructor; [cbn [fst]; lia | constructor]. }
        { intros k Hk. apply Ha. lia. }
        { unfold mu in *. change (zlen (@nil citem)) with 0 in *. lia. }
        exists ((bo, Some cur) :: lines'), adds'. split; [|split; [|split]].
        -- rewrite H1. rewrite oset_fresh by exact Hl. rewrite <- app_assoc. reflexivity.
        -- intros k Hk. apply H2. lia.
        -- apply m2i_skip; [|exact H3]. unfold addl. rewrite H2 by lia. rewrite Ha by lia. reflexivity.
        -- intros o Ho [k Ek]. cbn [oget]. destruct (bo =? o) eqn:Eo; [reflexivity|].
           apply H4; [lia | exists k; exact Ek].
      * rewrite loop_exit by exact Hn. exists [], adds. rewrite app_nil_r. repeat split; auto. intros; lia.
    + pose proof (wfc_cons _ _ _ W) as ([lo ->] & Hb & [m' Em] & Wr).
      cbn [head_ok] in Hh.
      rewrite loop_S.
      replace (negb ((bo <? n) || negb false)) with false by (destruct (bo <? n); reflexivity).
      cbv zeta. destruct (bo - last_bo =? b) eqn:E.
      * set (adds1 := if lo =? 0 then adds_append adds bo 0 else adds).
        destruct (czw_spec bo r (cur + lo) adds1 Wr)
          as (zs & items2 & adds2 & C1 & C2 & C3 & C4 & C5 & C6).
        rewrite C1.
        assert (A1 : forall k, k <> bo -> oget adds1 k = oget adds k).
        { intros k Hk. unfold adds1. destruct (lo =? 0); [|reflexivity].
          apply oget_append_other. lia. }
        assert (A2 : addl adds1 bo = if lo =? 0 then [0] else []).
        { assert (A0 : addl adds bo = []) by (unfold addl; rewrite Ha by lia; reflexivity).
          unfold adds1. destruct (lo =? 0); [|exact A0].
          rewrite addl_append, A0. reflexivity. }
        destruct (IH items2 bo (cur + lo + sumZ zs) (bo + 2)
                     (oset lines bo (Some (cur + lo + sumZ zs))) adds2)
          as (lines' & adds' & H1 & H2 & H3 & H4).
        { exact C6. }
        { exists (mb + 1); lia. }
        { exists mb; lia. }
        { lia. }
        { destruct items2 as [|[l2 b2] r2]; [exact I|]. cbn [head_ok].
          apply wfc_cons in C6 as (_ & Hb2 & [m2 Em2] & _). lia. }
        { rewrite oset_fresh by exact Hl. apply Forall_app. split.
          - eapply Forall_impl; [|exact Hl]. cbv beta. intros; lia.
          - constructor; [cbn [fst]; lia | constructor]. }
        { intros k Hk. rewrite C4 by lia. rewrite A1 by lia. apply Ha. lia. }
        { pose proof (wfc_sumbc_nonneg _ C6) as Hs. pose proof (zlen_nonneg zs).
          unfold mu in Hf |- *. rewrite C2 in Hf.
          rewrite zlen_cons, zlen_app, sumbc_cons, sumbc_app, sumbc_zw, zlen_zw in Hf.
          destruct items2 as [|i2 r2].
          - change (zlen (@nil citem)) with 0 in *. lia.
          - lia. }
        exists ((bo, Some (cur + lo + sumZ zs)) :: lines'), adds'. split; [|split; [|split]].
        -- rewrite H1. rewrite oset_fresh by exact Hl. rewrite <- app_assoc. reflexivity.
        -- intros k Hk. rewrite H2 by lia. rewrite C4 by lia. apply A1. lia.
        -- rewrite C2. replace b with (bo - last_bo) by lia.
           apply m2i_emit; [|lia|exact H3].
           unfold addl. rewrite H2 by lia. fold (addl adds2 bo). rewrite C3, A2. reflexivity.
        -- intros o Ho [k Ek]. rewrite C2. rewrite uncit_cons, a2l_cons.
           destruct (last_bo + b >? o) eqn:G; [lia|].
           rewrite a2l_zw by lia. replace (last_bo + b) with bo by lia. cbn [optval oget].
           destruct (bo =? o) eqn:Eo.
           ++ assert (o = bo) as -> by lia. rewrite a2l_stop; [reflexivity|].
              destruct items2 as [|[l2 b2] r2]; [exact I|].
              apply wfc_cons in C6 as (_ & Hb2 & _ & _). lia.
           ++ apply H4; [lia | exists k; exact Ek].
      * assert (Hb0 : b =? 0 = false) by lia.
        cbn [consume_zero_width]. rewrite Hb0.
        destruct (IH ((Some lo, b) :: r) last_bo cur (bo + 2)
                     (oset lines bo (Some cur)) adds)
          as (lines' & adds' & H1 & H2 & H3 & H4).
        { exact W. }
        { exists (mb + 1); lia. }
        { exists ml; lia. }
        { lia. }
        { cbn [head_ok]. lia. }
        { rewrite oset_fresh by exact Hl. apply Forall_app. split.
          - eapply Forall_impl; [|exact Hl]. cbv beta. intros; lia.
          - constructor; [cbn [fst]; lia | constructor]. }
        { intros k Hk. apply Ha. lia. }
        { pose proof (wfc_sumbc_nonneg _ Wr) as Hs.
          unfold mu in Hf |- *. rewrite sumbc_cons in *.
          rewrite zlen_cons in Hf. rewrite zlen_cons. lia. }
        exists ((bo, Some cur) :: lines'), adds'. split; [|split; [|split]].
        -- etransitivity; [exact H1|]. rewrite oset_fresh by exact Hl. rewrite <- app_assoc. reflexivity.
        -- intros k Hk. apply H2. lia.
        -- apply m2i_skip; [|exact H3]. unfold addl. rewrite H2 by lia. rewrite Ha by lia. reflexivity.
        -- intros o Ho [k Ek]. cbn [oget]. destruct (bo =? o) eqn:Eo.
           ++ assert (o = bo) as -> by lia. rewrite uncit_cons, a2l_cons.
              destruct (last_bo + b >? bo) eqn:G; [reflexivity | lia].
           ++ apply H4; [lia | exists k; exact Ek].
Qed.

Lemma i2m_ok c n :
  wfc_lnotab c = true ->
  exists lines' adds',
    items_to_mapping c n false = OK {| lm_lines := lines'; lm_adds := adds' |}
    /\ mapping_to_items_lnotab lines' adds' 0 0 = OK c
    /\ (forall o, 0 <= o < n -> (exists k, o = 2 * k) ->
        oget lines' o = Some (Some (addr2line_from (uncit c) 0 0 o))).
Proof.
  intros W. unfold items_to_mapping.
  destruct (loop_ok n (lnotab_fuel c n) c 0 0 0 [] []) as (lines' & adds' & H1 & _ & H3 & H4).
  - exact W.
  - exists 0; lia.
  - exists 0; lia.
  - lia.
  - destruct c as [|[l b] r]; [exact I|]. cbn [head_ok].
    apply wfc_cons in W as (_ & Hb & _ & _). lia.
  - constructor.
  - reflexivity.
  - unfold lnotab_fuel, mu. rewrite (wfc_sumabs _ W).
    pose proof (wfc_sumbc_nonneg _ W) as Hs. pose proof (zlen_nonneg c) as Hz.
    rewrite Nat2Z.inj_add. fold (zlen c).
    destruct c; [change (zlen (@nil citem)) with 0 in *|]; lia.
  - exists lines', adds'. split; [exact H1 | split; [exact H3 | exact H4]].
Qed.

Lemma mapping_items_lnotab : S_mapping_items_lnotab.
Proof.
  intros c n W. destruct (i2m_ok c n W) as (lines' & adds' & H1 & H2 & _).
  exists {| lm_lines := lines'; lm_adds := adds' |}. split; [exact H1 | exact H2].
Qed.

(** * Collapsing keeps co_lnotab well-formedness *)

Definition cfold (l acc : list citem) : list citem := fold_right (collapse_step false) acc l.

Lemma cfold_app a b acc : cfold (a ++ b) acc = cfold a (cfold b acc).
Proof. unfold cfold. apply fold_right_app. Qed.

Lemma cfold_cons x l acc : cfold (x :: l) acc = collapse_step false x (cfold l acc).
Proof. reflexivity. Qed.

Lemma collapse_items_cfold t : collapse_items false t = cfold (map (to_citem false) t) [].
Proof. reflexivity. Qed.

Lemma collapse_items_app a b :
  collapse_items false (a ++ b) = cfold (map (to_citem false) a) (collapse_items false b).
Proof. unfold collapse_items, cfold. rewrite map_app, fold_right_app. reflexivity. Qed.

Lemma to_citem_false ln bc : to_citem false (ln, bc) = (Some ln, bc).
Proof. reflexivity. Qed.

Lemma wfc_cons_intro lo b m r :
  0 <= b -> b = 2 * m -> wfc_lnotab r = true -> wfc_lnotab ((Some lo, b) :: r) = true.
Proof.
  intros H1 H2 H3. unfold wfc_lnotab in *. cbn [forallb]. rewrite H3.
  unfold wfc_lnotab_item. cbn [fst snd opt_is_some]. rewrite (even_true_of b m H2).
  destruct (0 <=? b) eqn:E; [reflexivity | lia].
Qed.

Lemma step_wfc prev acc :
  wfc_lnotab (prev :: acc) = true -> wfc_lnotab (collapse_step false prev acc) = true.
Proof.
  intros W. destruct acc as [|[il ib] tl]; [exact W|].
  unfold collapse_step.
  destruct (bytecode_offset_split false prev (il, ib) || line_offset_split false prev (il, ib));
    [|exact W].
  destruct prev as [pl pb]. apply wfc_cons in W as ([p ->] & Hp & [mp Ep] & W).
  apply wfc_cons in W as ([i ->] & Hi & [mi Ei] & W).
  cbn [merge_items]. destruct (i =? 0); apply wfc_cons_intro with (m := mp + mi); auto; lia.
Qed.

Lemma wfc_app a b : wfc_lnotab (a ++ b) = wfc_lnotab a && wfc_lnotab b.
Proof. unfold wfc_lnotab. apply forallb_app. Qed.

Lemma cfold_wfc l acc :
  wfc_lnotab l = true -> wfc_lnotab acc = true -> wfc_lnotab (cfold l acc) = true.
Proof.
  induction l as [|x l IH]; intros Wl Wa; [exact Wa|].
  rewrite cfold_cons. apply step_wfc.
  change (x :: l) with ([x] ++ l) in Wl. rewrite wfc_app in Wl.
  apply andb_true_iff in Wl as [Wx Wl].
  change (x :: cfold l acc) with ([x] ++ cfold l acc). rewrite wfc_app, Wx, (IH Wl Wa). reflexivity.
Qed.

Lemma raw_wfc t :
  raw_ok false t = true -> raw_even t = true -> wfc_lnotab (map (to_citem false) t) = true.
Proof.
  induction t as [|[ln bc] t IH]; intros R E; [reflexivity|].
  unfold raw_ok in R. unfold raw_even in E. cbn [forallb] in R, E.
  apply andb_true_iff in R as [R1 R2]. apply andb_true_iff in E as [E1 E2].
  cbn [map]. rewrite to_citem_false. cbn [snd] in E1. apply even_true_ex in E1 as [m Em].
  unfold raw_entry_ok in R1. cbn [fst snd] in R1.
  apply wfc_cons_intro with (m := m); [lia | exact Em | exact (IH R2 E2)].
Qed.

Lemma collapse_wfc_lnotab : S_collapse_wfc_lnotab.
Proof.
  intros t R E. rewrite collapse_items_cfold. apply cfold_wfc; [apply raw_wfc; assumption | reflexivity].
Qed.

(** * The <= 3.9 assembler: image inside the raw domain, collapsed image well formed *)

Lemma forallb_repeat {A} (f : A -> bool) x n : f x = true -> forallb f (repeat x n) = true.
Proof. intros H. induction n as [|n IH]; cbn [repeat forallb]; [reflexivity|]. rewrite H, IH. reflexivity. Qed.

Lemma Forall_repeat {A} (P : A -> Prop) x n : P x -> Forall P (repeat x n).
Proof. intros H. induction n as [|n IH]; cbn [repeat]; constructor; assumption. Qed.

Lemma map_repeat' {A B} (f : A -> B) x n : map f (repeat x n) = repeat (f x) n.
Proof. induction n as [|n IH]; cbn [repeat map]; [reflexivity|]. rewrite IH. reflexivity. Qed.

Lemma reo_intro l b : -128 <= l <= 127 -> 0 <= b <= 255 -> raw_entry_ok false (l, b) = true.
Proof. intros H1 H2. unfold raw_entry_ok. cbn [fst snd max_bc]. lia. Qed.

Definition ebody (db1 dl : Z) : list eitem :=
  if (dl <? -128) || (dl >? 127) then
    let k := if dl <? 0 then -128 else 127 in
    let n := if dl <? 0 then (- dl) / 128 else dl / 127 in
    (k, db1) :: zrepeat (k, 0) (n - 1) ++ [(dl - n * k, 0)]
  else [(dl, db1)].

Definition enb (db : Z) : Z := if db >? 255 then db / 255 else 0.

Lemma emit_eq db dl :
  emit_pre310 db dl = zrepeat (0, 255) (enb db) ++ ebody (db - enb db * 255) dl.
Proof. reflexivity. Qed.

Lemma ebody_raw_ok db1 dl : 0 <= db1 <= 255 -> raw_ok false (ebody db1 dl) = true.
Proof.
  intros H. unfold ebody, raw_ok. destruct ((dl <? -128) || (dl >? 127)) eqn:C.
  - cbv zeta. cbn [forallb]. rewrite forallb_app. cbn [forallb]. unfold zrepeat.
    destruct (dl <? 0) eqn:N.
    + rewrite reo_intro by lia. rewrite forallb_repeat by (apply reo_intro; lia).
      rewrite reo_intro by lia. reflexivity.
    + rewrite reo_intro by lia. rewrite forallb_repeat by (apply reo_intro; lia).
      rewrite reo_intro by lia. reflexivity.
  - cbn [forallb]. rewrite reo_intro by lia. reflexivity.
Qed.

Lemma ebody_shape db1 dl :
  exists x Zs, ebody db1 dl = (x, db1) :: Zs /\ Forall (fun e : eitem => snd e = 0) Zs.
Proof.
  unfold ebody. destruct ((dl <? -128) || (dl >? 127)).
  - cbv zeta. eexists. eexists. split; [reflexivity|].
    apply Forall_app. split.
    + unfold zrepeat. apply Forall_repeat. reflexivity.
    + constructor; [reflexivity | constructor].
  - eexists. eexists. split; [reflexivity | constructor].
Qed.

Lemma enb_range db : 0 <= db -> 0 <= enb db /\ 0 <= db - enb db * 255 <= 255.
Proof. intros H. unfold enb. destruct (db >? 255) eqn:E; lia. Qed.

Lemma enb_range_even db m : 0 <= db -> db = 2 * m -> db - enb db * 255 <= 254.
Proof. intros H E. unfold enb. destruct (db >? 255) eqn:E1; lia. Qed.

Lemma emit_raw_ok db dl : 0 <= db -> raw_ok false (emit_pre310 db dl) = true.
Proof.
  intros H. rewrite emit_eq. unfold raw_ok. rewrite forallb_app.
  destruct (enb_range db H) as [H1 H2].
  unfold zrepeat. rewrite forallb_repeat by (apply reo_intro; lia).
  apply (ebody_raw_ok _ dl) in H2. unfold raw_ok in H2. cbn [andb]. exact H2.
Qed.

Lemma events_ok_cons db0 dl r :
  events_ok ((db0, dl) :: r) = true -> 0 <= db0 /\ (exists m, db0 = 2 * m) /\ events_ok r = true.
Proof.
  unfold events_ok. cbn [forallb]. unfold event_ok. cbn [fst].
  intros H. apply andb_true_iff in H as [H1 H2]. apply andb_true_iff in H1 as [H1 H3].
  split; [lia|]. split; [apply even_true_ex; exact H3 | exact H2].
Qed.

Lemma asm_unfold v37 db0 dl r pend :
  asm_pre310 v37 ((db0, dl) :: r) pend =
  if (if v37 then (db0 + pend =? 0) && (dl =? 0) else (dl =? 0))
  then asm_pre310 v37 r (if v37 then 0 else db0 + pend)
  else emit_pre310 (db0 + pend) dl ++ asm_pre310 v37 r 0.
Proof. reflexivity. Qed.

Lemma asm_raw_ok_gen v37 : forall p pend,
  0 <= pend -> events_ok p = true -> raw_ok false (asm_pre310 v37 p pend) = true.
Proof.
  induction p as [|[db0 dl] r IH]; intros pend Hp He; [reflexivity|].
  apply events_ok_cons in He as (H0 & _ & Hr). rewrite asm_unfold.
  destruct (if v37 then (db0 + pend =? 0) && (dl =? 0) else (dl =? 0)).
  - apply IH; [destruct v37; lia | exact Hr].
  - unfold raw_ok. rewrite forallb_app. fold (raw_ok false (emit_pre310 (db0 + pend) dl)).
    fold (raw_ok false (asm_pre310 v37 r 0)).
    rewrite emit_raw_ok by lia. rewrite IH by (try lia; exact Hr). reflexivity.
Qed.

Lemma asm_pre310_raw_ok v37 p :
  events_ok p = true -> raw_ok false (asm_pre310 v37 p 0) = true.
Proof. intros H. apply asm_raw_ok_gen; [lia | exact H]. Qed.

(* The raw_even half of the original S_asm_pre310_raw statement
   (events_ok p = true -> raw_ok false (asm_pre310 v37 p 0) = true /\ raw_even (asm_pre310 v37 p 0) = true)
   is false: every event with a bytecode delta > 255 emits (0,255) entries.  Stated without
   referring to the S_ definition so that this file survives its removal. *)
Lemma asm_pre310_raw_counterexample :
  events_ok [(256, 1)] = true /\
  asm_pre310 true [(256, 1)] 0 = [(0, 255); (1, 1)] /\
  raw_even (asm_pre310 true [(256, 1)] 0) = false /\
  raw_even (asm_pre310 false [(256, 1)] 0) = false.
Proof. repeat split; reflexivity. Qed.

Lemma zero_width_wfc Zs :
  Forall (fun e : eitem => snd e = 0) Zs -> wfc_lnotab (map (to_citem false) Zs) = true.
Proof.
  induction 1 as [|[ln bc] Zs H _ IH]; [reflexivity|].
  cbn [map]. rewrite to_citem_false. cbn [snd] in H.
  apply wfc_cons_intro with (m := 0); [lia | lia | exact IH].
Qed.

Lemma bos_false_small x d it : d <= 254 -> bytecode_offset_split false (Some x, d) it = false.
Proof.
  intros H. destruct it as [il ib]. unfold bytecode_offset_split. cbn [opt_is_zero opt_is_some max_bc].
  destruct (d >=? 255) eqn:E; [lia|]. rewrite andb_false_r. reflexivity.
Qed.

Lemma los_true_zero prev il ib : line_offset_split false prev (il, ib) = true -> ib = 0.
Proof.
  destruct prev as [pl pb]. unfold line_offset_split. intros H.
  apply andb_true_iff in H as [H _]. lia.
Qed.

Lemma step_head x d acc :
  wfc_lnotab acc = true -> d <= 254 ->
  exists y rest, collapse_step false (Some x, d) acc = (Some y, d) :: rest /\ wfc_lnotab rest = true.
Proof.
  intros W Hd. destruct acc as [|[il ib] tl].
  - exists x, []. split; reflexivity.
  - unfold collapse_step. rewrite bos_false_small by exact Hd. cbn [orb].
    destruct (line_offset_split false (Some x, d) (il, ib)) eqn:L.
    + apply los_true_zero in L. subst ib.
      apply wfc_cons in W as ([i ->] & _ & _ & W).
      cbn [merge_items]. replace (d + 0) with d by lia.
      destruct (i =? 0); eexists; eexists; (split; [reflexivity | exact W]).
    + exists x, ((il, ib) :: tl). split; [reflexivity | exact W].
Qed.

Lemma bos_zero255 il d : d <> 0 -> bytecode_offset_split false (Some 0, 255) (il, d) = true.
Proof.
  intros H. unfold bytecode_offset_split. cbn [opt_is_zero opt_is_some max_bc].
  destruct (d =? 0) eqn:E; [lia | reflexivity].
Qed.

Lemma cfold_rep_pos : forall k y d rest,
  0 < d ->
  cfold (repeat (Some 0, 255) k) ((Some y, d) :: rest) = (Some y, d + Z.of_nat k * 255) :: rest.
Proof.
  induction k as [|k IH]; intros y d rest Hd.
  - cbn [repeat]. unfold cfold. cbn [fold_right]. replace (d + Z.of_nat 0 * 255) with d by lia.
    reflexivity.
  - cbn [repeat]. rewrite cfold_cons, IH by exact Hd.
    unfold collapse_step. rewrite bos_zero255 by lia. cbn [orb merge_items].
    replace (255 + (d + Z.of_nat k * 255)) with (d + Z.of_nat (S k) * 255) by lia.
    destruct (y =? 0) eqn:E; [assert (y = 0) as -> by lia; reflexivity|].
    replace (0 + y) with y by lia. reflexivity.
Qed.

Lemma step_zero255_zero y rest :
  collapse_step false (Some 0, 255) ((Some y, 0) :: rest) = (Some 0, 255) :: (Some y, 0) :: rest.
Proof. reflexivity. Qed.

Lemma cfold_rep_zero k y rest :
  cfold (repeat (Some 0, 255) (S k)) ((Some y, 0) :: rest)
  = (Some 0, Z.of_nat (S k) * 255) :: (Some y, 0) :: rest.
Proof.
  cbn [repeat]. rewrite repeat_cons, cfold_app.
  unfold cfold at 2. cbn [fold_right]. rewrite step_zero255_zero.
  rewrite cfold_rep_pos by lia. f_equal. f_equal. lia.
Qed.

Lemma emit_cfold_wfc db dl m acc :
  0 <= db -> db = 2 * m -> wfc_lnotab acc = true ->
  wfc_lnotab (cfold (map (to_citem false) (emit_pre310 db dl)) acc) = true.
Proof.
  intros H0 Hm W. rewrite emit_eq, map_app, cfold_app.
  destruct (enb_range db H0) as [N1 N2]. pose proof (enb_range_even db m H0 Hm) as N3.
  destruct (ebody_shape (db - enb db * 255) dl) as (x & Zs & E & F). rewrite E.
  cbn [map]. rewrite to_citem_false, cfold_cons.
  assert (W' : wfc_lnotab (cfold (map (to_citem false) Zs) acc) = true)
    by (apply cfold_wfc; [apply zero_width_wfc; exact F | exact W]).
  destruct (step_head x (db - enb db * 255) _ W' N3) as (y & rest & St & Wr).
  match goal with |- wfc_lnotab (cfold _ ?c) = true =>
    replace c with ((Some y, db - enb db * 255) :: rest) by (symmetry; exact St) end.
  unfold zrepeat. rewrite map_repeat', to_citem_false.
  destruct (Z.eq_dec (db - enb db * 255) 0) as [Z0|Z0].
  - rewrite Z0. destruct (Z.to_nat (enb db)) as [|k] eqn:K.
    + cbn [repeat]. unfold cfold. cbn [fold_right].
      apply wfc_cons_intro with (m := 0); [lia | lia | exact Wr].
    + rewrite cfold_rep_zero. apply wfc_cons_intro with (m := m); [lia | lia |].
      apply wfc_cons_intro with (m := 0); [lia | lia | exact Wr].
  - rewrite cfold_rep_pos by lia. apply wfc_cons_intro with (m := m); [lia | lia | exact Wr].
Qed.

Lemma asm_collapse_wfc_gen v37 : forall p pend mp,
  0 <= pend -> pend = 2 * mp -> events_ok p = true ->
  wfc_lnotab (collapse_items false (asm_pre310 v37 p pend)) = true.
Proof.
  induction p as [|[db0 dl] r IH]; intros pend mp Hp Hm He; [reflexivity|].
  apply events_ok_cons in He as (H0 & [m0 E0] & Hr). rewrite asm_unfold.
  destruct (if v37 then (db0 + pend =? 0) && (dl =? 0) else (dl =? 0)).
  - destruct v37.
    + apply IH with (mp := 0); [lia | lia | exact Hr].
    + apply IH with (mp := m0 + mp); [lia | lia | exact Hr].
  - rewrite collapse_items_app. apply emit_cfold_wfc with (m := m0 + mp); [lia | lia |].
    apply IH with (mp := 0); [lia | lia | exact Hr].
Qed.

Lemma asm_collapse_wfc v37 p :
  events_ok p = true -> wfc_lnotab (collapse_items false (asm_pre310 v37 p 0)) = true.
Proof. intros H. apply asm_collapse_wfc_gen with (mp := 0); [lia | lia | exact H]. Qed.

(** * The decoded mapping is CPython's reading *)

Definition nnc (c : list citem) : Prop := Forall (fun it : citem => 0 <= snd it) c.

Lemma step_nnc prev acc : nnc (prev :: acc) -> nnc (collapse_step false prev acc).
Proof.
  intros N. destruct acc as [|[il ib] tl]; [exact N|].
  unfold collapse_step.
  destruct (bytecode_offset_split false prev (il, ib) || line_offset_split false prev (il, ib));
    [|exact N].
  destruct prev as [pl pb]. inversion N as [|? ? N1 N2]; subst. inversion N2 as [|? ? N3 N4]; subst.
  cbn [snd] in N1, N3. constructor; [|exact N4].
  unfold merge_items. cbn [snd]. lia.
Qed.

Lemma collapse_nnc t : raw_ok false t = true -> nnc (collapse_items false t).
Proof.
  induction t as [|[ld bd] t IH]; intros R; [constructor|].
  unfold raw_ok in R. cbn [forallb] in R. apply andb_true_iff in R as [R1 R2].
  unfold raw_entry_ok in R1. cbn [fst snd] in R1.
  change (collapse_items false ((ld, bd) :: t))
    with (collapse_step false (Some ld, bd) (collapse_items false t)).
  apply step_nnc. constructor; [cbn [snd]; lia | exact (IH R2)].
Qed.

Lemma los_true_some p pb il ib :
  line_offset_split false (Some p, pb) (il, ib) = true -> exists i, il = Some i.
Proof.
  destruct il as [i|]; [eauto|]. unfold line_offset_split. rewrite !andb_false_r. discriminate.
Qed.

Lemma bos_true_facts ld bd il ib :
  bytecode_offset_split false (Some ld, bd) (il, ib) = true -> ld = 0 /\ ib <> 0.
Proof.
  unfold bytecode_offset_split. cbn [opt_is_zero opt_is_some max_bc]. intros H.
  apply andb_true_iff in H as [H _]. apply andb_true_iff in H as [H H1].
  apply andb_true_iff in H as [H H2]. lia.
Qed.

Lemma step_a2l ld bd acc a line o :
  nnc acc -> 0 <= bd ->
  addr2line_from (uncit (collapse_step false (Some ld, bd) acc)) a line o
  = addr2line_from ((ld, bd) :: uncit acc) a line o.
Proof.
  intros N Hb. destruct acc as [|[il ib] tl]; [reflexivity|].
  inversion N as [|? ? N1 N2]; subst. cbn [snd] in N1.
  unfold collapse_step.
  destruct (bytecode_offset_split false (Some ld, bd) (il, ib)) eqn:B; cbn [orb].
  - apply bos_true_facts in B as [-> Hib].
    rewrite !uncit_cons, !a2l_cons.
    assert (E : optval (fst (merge_items (Some 0, bd) (il, ib))) = 0 + optval il
                /\ snd (merge_items (Some 0, bd) (il, ib)) = bd + ib).
    { unfold merge_items. destruct il as [i|]; cbn [fst snd optval]; [|lia].
      destruct (i =? 0) eqn:E; cbn [optval]; lia. }
    destruct (merge_items (Some 0, bd) (il, ib)) as [ml mb]. cbn [fst snd] in E.
    destruct E as [E1 E2]. rewrite uncit_cons, a2l_cons, E1, E2.
    replace (a + (bd + ib)) with (a + bd + ib) by lia.
    replace (line + (0 + optval il)) with (line + 0 + optval il) by lia.
    destruct (a + bd + ib >? o) eqn:G1; destruct (a + bd >? o) eqn:G2; try reflexivity; lia.
  - destruct (line_offset_split false (Some ld, bd) (il, ib)) eqn:L.
    + pose proof (los_true_zero _ _ _ L) as ->. apply los_true_some in L as [i ->].
      rewrite !uncit_cons, !a2l_cons.
      assert (E : optval (fst (merge_items (Some ld, bd) (Some i, 0))) = ld + i
                  /\ snd (merge_items (Some ld, bd) (Some i, 0)) = bd + 0).
      { unfold merge_items. cbn [fst snd]. destruct (i =? 0) eqn:E; cbn [optval]; lia. }
      destruct (merge_items (Some ld, bd) (Some i, 0)) as [ml mb]. cbn [fst snd] in E.
      destruct E as [E1 E2]. rewrite uncit_cons, a2l_cons, E1, E2. cbn [optval].
      replace (a + (bd + 0)) with (a + bd) by lia.
      replace (a + bd + 0) with (a + bd) by lia.
      replace (line + (ld + i)) with (line + ld + i) by lia.
      destruct (a + bd >? o) eqn:G2; reflexivity.
    + reflexivity.
Qed.

Lemma collapse_a2l : forall t,
  raw_ok false t = true ->
  forall a line o,
    addr2line_from (uncit (collapse_items false t)) a line o = addr2line_from t a line o.
Proof.
  induction t as [|[ld bd] t IH]; intros R a line o; [reflexivity|].
  pose proof R as R'. unfold raw_ok in R'. cbn [forallb] in R'. apply andb_true_iff in R' as [R1 R2].
  unfold raw_entry_ok in R1. cbn [fst snd] in R1.
  change (collapse_items false ((ld, bd) :: t))
    with (collapse_step false (Some ld, bd) (collapse_items false t)).
  rewrite step_a2l; [|apply collapse_nnc; exact R2|lia].
  rewrite !a2l_cons. rewrite (IH R2). reflexivity.
Qed.

Lemma reader_lnotab_gen t n m :
  raw_ok false t = true -> wfc_lnotab (collapse_items false t) = true ->
  items_to_mapping (collapse_items false t) n false = OK m ->
  forall o, 0 <= o < n -> Z.even o = true ->
  oget (lm_lines m) o = Some (Some (addr2line t o)).
Proof.
  intros R W M o Ho He.
  destruct (i2m_ok _ n W) as (lines' & adds' & H1 & _ & H3).
  rewrite H1 in M. injection M as <-. cbn [lm_lines].
  rewrite H3; [|exact Ho|apply even_true_ex; exact He].
  rewrite collapse_a2l by exact R. reflexivity.
Qed.

Lemma reader_lnotab : S_reader_lnotab.
Proof.
  intros t n m R E M. apply reader_lnotab_gen; [exact R | apply collapse_wfc_lnotab; assumption | exact M].
Qed.

(** * The assembled property, co_lnotab *)

Lemma C10_lnotab_from : S_expand_collapse -> S_bytes_items -> S_items_bytes -> S_C10_lnotab.
Proof.
  intros EC _ IB v37 p n He t. subst t.
  pose proof (asm_pre310_raw_ok v37 p He) as R.
  pose proof (asm_collapse_wfc v37 p He) as W.
  destruct (IB _ R) as (b & Hb1 & _ & Hb3).
  destruct (i2m_ok _ n W) as (lines' & adds' & H1 & H2 & _).
  exists b, {| lm_lines := lines'; lm_adds := adds' |}.
  split; [exact Hb1|]. split; [|split].
  - unfold to_line_mapping. rewrite Hb3. exact H1.
  - unfold from_line_mapping, mapping_to_items. cbn [lm_lines lm_adds]. rewrite H2.
    rewrite EC by exact R. exact Hb1.
  - intros o Ho Ev. apply reader_lnotab_gen with (n := n); assumption.
Qed.

From PCD Require Proofs.LT_ExpandCollapse.

Theorem C10_lnotab : S_C10_lnotab.
Proof.
  apply C10_lnotab_from.
  - exact LT_ExpandCollapse.expand_collapse.
  - exact LT_ExpandCollapse.bytes_items.
  - exact LT_ExpandCollapse.items_bytes.
Qed.

Print Assumptions mapping_items_lnotab.
Print Assumptions collapse_wfc_lnotab.
Print Assumptions reader_lnotab.
Print Assumptions reader_lnotab_gen.
Print Assumptions asm_pre310_raw_ok.
Print Assumptions asm_collapse_wfc.
Print Assumptions asm_pre310_raw_counterexample.
Print Assumptions C10_lnotab_from.
Print Assumptions C10_lnotab.
