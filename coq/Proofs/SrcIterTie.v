(* Tie of the iteration API: the translations of blocks_to_constants (code_data/_blocks.py), CodeData.__iter__ and
   CodeData.all_code_data (Gen/SrcIter.v, regenerated from the source on every run) equal Model/Blocks.blocks_to_constants,
   Model/CodeData.iter_code_data and all_code_data for ALL data. *)
From PCD Require Import Base.PyBase Base.PyImp Base.Cfg Model.Flags Model.Args Model.Data Model.Consts Model.LineTable
  Model.Blocks Model.CodeData Proofs.SrcFromArgTie.
From PCD Require Gen.SrcFromArg Gen.SrcIter.
From Coq Require Import Lia.

Section B2C.
  Context {C : Type} (keq : C -> C -> bool) (is_str : C -> bool) (none_c : C) (str_c : str -> C).

  Definition is_const (a : arg_ C) : bool := match a with AConst _ _ => true | _ => false end.
  Definition step (bt : option function) (a : arg_ C) (st : encstate C) : res (encstate C) :=
    match a with
    | AConst _ _ => do r <- PCD.Gen.SrcFromArg.from_arg keq is_str none_c a bt [] st; OK (snd r)
    | _ => OK st
    end.

  Lemma fold_step_is_add_additional : forall bt l st,
    foldM (fun st a => step bt a st) l st = add_additional keq is_str none_c (filter is_const l) bt [] st.
  Proof.
    intros bt l. induction l as [|a r IH]; intros st; [reflexivity|].
    cbn [foldM filter]. destruct a as [z|t rl|s ov|s ov|k ov|s|s ov|z]; cbn [step is_const]; try apply IH.
    cbn [add_additional]. rewrite from_arg_tie.
    destruct (from_arg keq is_str none_c (AConst k ov) bt [] st) as [[i st']|e]; cbn [bind snd]; [apply IH | reflexivity].
  Qed.

  Lemma foldM_map {S A B} (f : S -> B -> res S) (g : A -> B) l s :
    foldM (fun s x => f s (g x)) l s = foldM f (map g l) s.
  Proof. revert s; induction l as [|x r IH]; intros s; [reflexivity|]. cbn [foldM map]. destruct (f s (g x)); [apply IH | reflexivity]. Qed.

  Lemma foldM_app {S A} (f : S -> A -> res S) l1 l2 s :
    foldM f (l1 ++ l2) s = do s' <- foldM f l1 s; foldM f l2 s'.
  Proof. revert s; induction l1 as [|x r IH]; intros s; [reflexivity|]. cbn [foldM app]. destruct (f s x); [apply IH | reflexivity]. Qed.

  Lemma foldM_concat {S A} (f : S -> A -> res S) (ls : list (list A)) s :
    foldM (fun s l => foldM f l s) ls s = foldM f (concat ls) s.
  Proof.
    revert s; induction ls as [|l r IH]; intros s; [reflexivity|]. cbn [foldM concat]. rewrite foldM_app.
    destruct (foldM f l s); cbn [bind]; [apply IH | reflexivity].
  Qed.

  Lemma add_additional_app : forall l1 l2 bt fv st,
    add_additional keq is_str none_c (l1 ++ l2) bt fv st
    = do st' <- add_additional keq is_str none_c l1 bt fv st; add_additional keq is_str none_c l2 bt fv st'.
  Proof.
    induction l1 as [|a r IH]; intros l2 bt fv st; [reflexivity|]. cbn [app add_additional].
    destruct (from_arg keq is_str none_c a bt fv st) as [[i st']|e]; [apply IH | reflexivity].
  Qed.

  Theorem blocks_to_constants_tie : forall blocks additional bt,
    PCD.Gen.SrcIter.blocks_to_constants keq is_str none_c str_c blocks additional bt
    = blocks_to_constants keq is_str none_c str_c blocks additional bt.
  Proof.
    intros blocks additional bt.
    change (PCD.Gen.SrcIter.blocks_to_constants keq is_str none_c str_c blocks additional bt) with
      (do constants <- (match bt with
                        | Some f => match fn_doc f with Some d => fa_setitem keq fromargs_empty 0 (str_c d) | None => OK fromargs_empty end
                        | None => OK fromargs_empty end);
       do st <- foldM (fun st block => foldM (fun st instruction => step bt (i_arg instruction) st) block st) blocks
                  (mkEnc (@fromargs_empty str) (@fromargs_empty str) (@fromargs_empty str) constants);
       do st <- foldM (fun st arg => step bt arg st) additional st;
       fa_to_tuple (e_consts st)).
    unfold blocks_to_constants.
    destruct (match bt with
              | Some f => match fn_doc f with Some d => fa_setitem keq fromargs_empty 0 (str_c d) | None => OK fromargs_empty end
              | None => OK fromargs_empty end) as [cs|e]; cbn [bind]; [|reflexivity].
    rewrite (foldM_concat (fun st instruction => step bt (i_arg instruction) st)).
    rewrite (foldM_map (fun st a => step bt a st) (@i_arg C)).
    rewrite add_additional_app. rewrite fold_step_is_add_additional.
    fold is_const.
    destruct (add_additional keq is_str none_c (filter is_const (map (@i_arg C) (concat blocks))) bt [] _) as [st1|e]; cbn [bind]; [|reflexivity].
    rewrite fold_step_is_add_additional.
    destruct (add_additional keq is_str none_c (filter is_const additional) bt [] st1) as [st2|e]; cbn [bind]; reflexivity.
  Qed.

End B2C.

Theorem iter_code_data_tie : forall d, PCD.Gen.SrcIter.iter_code_data d = iter_code_data d.
Proof.
  intros d. unfold PCD.Gen.SrcIter.iter_code_data, iter_code_data. rewrite blocks_to_constants_tie.
  destruct (blocks_to_constants _ _ _ _ _ _ _); reflexivity.
Qed.

Lemma mapM_ext {A B} (f g : A -> res B) l : (forall x, f x = g x) -> mapM f l = mapM g l.
Proof.
  intros H. induction l as [|x r IH]; [reflexivity|].
  change (mapM f (x :: r)) with (match f x with Err e => Err e | OK y => match mapM f r with Err e => Err e | OK ys => OK (y :: ys) end end).
  change (mapM g (x :: r)) with (match g x with Err e => Err e | OK y => match mapM g r with Err e => Err e | OK ys => OK (y :: ys) end end).
  rewrite H, IH. reflexivity.
Qed.

Theorem all_code_data_tie : forall fuel d, PCD.Gen.SrcIter.all_code_data fuel d = all_code_data fuel d.
Proof.
  induction fuel as [|f IH]; intros d; [reflexivity|].
  cbn [PCD.Gen.SrcIter.all_code_data all_code_data]. rewrite iter_code_data_tie.
  destruct (iter_code_data d) as [subs|e]; cbn [bind]; [|reflexivity].
  rewrite (mapM_ext _ _ subs IH). destruct (mapM (all_code_data f) subs); reflexivity.
Qed.
