(* Tie of the three LineMapping methods (Gen/SrcLineMap.v, regenerated from code_data/_line_mapping.py on every run) to
   Model/LineTable.v, for ALL mappings and offsets. *)
From PCD Require Import Base.PyBase Base.PyImp Model.LineTable.
From PCD Require Gen.SrcLineMap.

Lemma keyset_is_exactly {V} (d : odict V) k : keyset_is d k = keys_are_exactly d k.
Proof. destruct d as [|[k0 v0] r]; reflexivity. Qed.

(* what the caller sees: the exception or the returned AdditionalLine (to_code_data discards the mapping afterwards, so
   whether the entry is popped or only read is not observable and is not part of the statement) *)
Definition seen {A B} (r : res (A * B)) : res A := match r with OK (a, _) => OK a | Err e => Err e end.

Lemma pop_additional_line_tie : forall m next_offset,
  seen (SrcLineMap.pop_additional_line m next_offset) = seen (LineTable.pop_additional_line m next_offset).
Proof.
  intros [lines adds] k. unfold SrcLineMap.pop_additional_line, LineTable.pop_additional_line. cbn [lm_lines lm_adds].
  rewrite !keyset_is_exactly.
  destruct adds as [|a adds']; cbn [nonempty andb negb].
  - destruct lines as [|l lines']; cbn [nonempty]; [reflexivity|].
    destruct (keys_are_exactly (l :: lines') k); cbn [negb]; [|reflexivity].
    destruct (oget (l :: lines') k); reflexivity.
  - destruct (keys_are_exactly (a :: adds') k); cbn [negb]; [|reflexivity].
    destruct lines as [|l lines']; cbn [nonempty]; [reflexivity|].
    destruct (keys_are_exactly (l :: lines') k); cbn [negb]; [|reflexivity].
    destruct (oget (l :: lines') k); reflexivity.
Qed.

Lemma add_additional_line_tie : forall m line offs len_code,
  SrcLineMap.add_additional_line m line offs len_code = LineTable.add_additional_line m line offs len_code.
Proof. intros [lines adds] line offs k. reflexivity. Qed.

Lemma modify_line_offsets_tie : forall m d,
  SrcLineMap.modify_line_offsets m d = LineTable.modify_line_offsets m d.
Proof. intros [lines adds] d. reflexivity. Qed.
