(* Tie between Model/Blocks.from_arg and the translation of code_data/_blocks.py:from_arg regenerated on every run
   (Gen/SrcFromArg.v): equal for all operands, block types, free-variable tuples and table states. *)
From PCD Require Import Base.PyBase Base.Cfg Model.Flags Model.Args Model.Data Model.LineTable Model.Blocks.
From PCD Require Gen.SrcFromArg.

Theorem from_arg_tie : forall {C} (keq : C -> C -> bool) (is_str : C -> bool) (none_c : C) a bt freevars st,
  PCD.Gen.SrcFromArg.from_arg keq is_str none_c a bt freevars st = from_arg keq is_str none_c a bt freevars st.
Proof.
  intros C keq is_str none_c a bt freevars st.
  unfold PCD.Gen.SrcFromArg.from_arg, from_arg. destruct a; try reflexivity.
Qed.
Print Assumptions from_arg_tie.
