(* C05, the header clause: decode, normalize, pair the constants, encode.  In the header of the emitted
   code object only the CO_NESTED bit (cleared) and the CO_NOFREE bit (re-derived from the tables by
   the constructor) may differ from the original.

   The statement S_C05_header (Proofs/C05h_Statements.v) is FALSE as written: the decoder slices
   co_varnames by the counts with Python slices, which never raise, so a count that exceeds what
   co_varnames holds is silently truncated and the encoder emits the truncated count
   ([C05_header_counterexample]).  [C05_header_corrected] adds the bounds CPython's own constructor and
   compiler guarantee (0 <= posonly <= argcount, 0 <= kwonly, argcount + kwonly <= len(co_varnames)). *)
From Coq Require Import ZArith List Bool Lia ZifyBool.
From PCD Require Import Base.PyBase Base.Cfg Model.Flags Model.Args Model.Data Model.Consts
  Model.LineTable Model.Blocks Model.CodeData Spec.Lnotab Spec.Dis Spec.FuncKind Model.ViewSer
  Proofs.C02_Statements Proofs.C11_Statements Proofs.C01_Statements Proofs.C03_Statements
  Proofs.C03b_Statements Proofs.C03c_Statements Proofs.C06_Statements Proofs.NormalFormWf
  Proofs.C05h_Statements.
From PCD Require Proofs.FlagsProofs Proofs.ArgsProofs Proofs.RoundTrip2 Proofs.CodeRoundTrip1
  Proofs.HeaderProofs Gen.Cfg39.
Import ListNotations. Open Scope Z_scope.

Module FP := FlagsProofs.
Module AP := ArgsProofs.
Module R2 := RoundTrip2.
Module C1 := CodeRoundTrip1.
Module HP := HeaderProofs.

(* ------------------------------------------------------------------ *)
(** * 1. Bits of a word, by flag name *)

Lemma bit_set_none c f w : flag_value (cfg_flags c) f = None -> bit_set c f w = false.
Proof. intros H. unfold bit_set. now rewrite H. Qed.

(* a flag of the table tests one bit *)
Lemma bit_set_test c f v : flags_wf (cfg_flags c) = true ->
  flag_value (cfg_flags c) f = Some v ->
  exists k, 0 <= k /\ v = 2 ^ k /\ forall w, bit_set c f w = Z.testbit w k.
Proof.
  intros Hwf Hv. destruct (FP.flags_wf_parts _ Hwf) as [_ [Hp2 _]].
  destruct (FP.flag_value_In _ _ _ Hv) as [g [Hin _]].
  destruct (FP.pow2_exists v (Hp2 _ Hin)) as [k [Hk Ek]].
  exists k. split; [exact Hk|]. split; [exact Ek|]. intros w.
  unfold bit_set. rewrite Hv, Ek, FP.land_pow2 by exact Hk.
  pose proof (FP.pow2_nonzero k Hk) as Hnz.
  destruct (Z.testbit w k); [|reflexivity].
  destruct (2 ^ k =? 0) eqn:E; [apply Z.eqb_eq in E; contradiction | reflexivity].
Qed.

(* names -> word: the bit of a flag of the table is set exactly when the name is listed *)
Lemma ffd_bit_mem c fs w f v : flags_wf (cfg_flags c) = true ->
  from_flags_data c fs = OK w -> flag_value (cfg_flags c) f = Some v ->
  bit_set c f w = flag_mem f fs.
Proof.
  intros Hwf Hw Hv. destruct (FP.flags_wf_parts _ Hwf) as [Hids [Hp2 Hvals]].
  destruct (bit_set_test c f v Hwf Hv) as (k & Hk & Ek & Hb). rewrite Hb.
  destruct (flag_mem f fs) eqn:M.
  - apply R2.flag_mem_fids, R2.In_fids in M as [g [Hg Eg]].
    apply (FP.ffd_bits c _ _ Hw). exists g, v. split; [exact Hg|]. split.
    + rewrite <- Hv. now apply R2.flag_value_id.
    + rewrite Ek. now apply Z.pow2_bits_true.
  - destruct (Z.testbit w k) eqn:B; [exfalso|reflexivity].
    apply (FP.ffd_bits c _ _ Hw) in B as [f' [v' [Hin [Hv' Bv]]]].
    destruct (FP.flag_value_In _ _ _ Hv) as [g1 [Hin1 E1]].
    destruct (FP.flag_value_In _ _ _ Hv') as [g2 [Hin2 E2]].
    assert (Ev : v' = v).
    { eapply FP.pow2_same_bit; [apply (Hp2 _ Hin2)|apply (Hp2 _ Hin1)|exact Bv|].
      rewrite Ek. now apply Z.pow2_bits_true. }
    subst v'. pose proof (FP.snd_distinct_fst _ _ _ _ Hvals Hin1 Hin2). subst g2.
    apply R2.flag_mem_fids_false in M. apply M. apply R2.In_fids. exists f'. split; [exact Hin|congruence].
Qed.

(* what the constructor does to the NOFREE bit leaves the other flags of the table alone *)
Lemma bit_set_adj c f v nf b w : flags_wf (cfg_flags c) = true ->
  flag_value (cfg_flags c) NOFREE = Some nf -> flag_value (cfg_flags c) f = Some v ->
  flag_id f <> flag_id NOFREE ->
  bit_set c f (C1.adj_flags c b w) = bit_set c f w.
Proof.
  intros Hwf Hnf Hv Hne. destruct (FP.flags_wf_parts _ Hwf) as [Hids [Hp2 Hvals]].
  destruct (bit_set_test c f v Hwf Hv) as (k & Hk & Ek & Hb).
  destruct (bit_set_test c NOFREE nf Hwf Hnf) as (k' & Hk' & Ek' & _).
  assert (Hkk : k' <> k).
  { intros Ekk. apply Hne.
    destruct (FP.flag_value_In _ _ _ Hv) as [g1 [Hin1 E1]].
    destruct (FP.flag_value_In _ _ _ Hnf) as [g2 [Hin2 E2]].
    assert (Evn : nf = v) by (rewrite Ek, Ek', Ekk; reflexivity). rewrite Evn in Hin2.
    pose proof (FP.snd_distinct_fst _ _ _ _ Hvals Hin1 Hin2). subst g2. congruence. }
  rewrite !Hb. unfold C1.adj_flags. rewrite Hnf. cbv zeta.
  assert (Bk : Z.testbit nf k = false).
  { rewrite Ek', Z.pow2_bits_eqb by exact Hk'. lia. }
  destruct b.
  - now rewrite Z.lor_spec, Bk, orb_false_r.
  - now rewrite Z.land_spec, Z.lnot_spec, Bk, andb_true_r by exact Hk.
Qed.

Lemma bit_set_adj_nofree c nf b w : flags_wf (cfg_flags c) = true ->
  flag_value (cfg_flags c) NOFREE = Some nf ->
  bit_set c NOFREE (C1.adj_flags c b w) = b.
Proof.
  intros Hwf Hnf.
  destruct (bit_set_test c NOFREE nf Hwf Hnf) as (k & Hk & Ek & Hb).
  rewrite Hb. unfold C1.adj_flags. rewrite Hnf. cbv zeta.
  assert (Bk : Z.testbit nf k = true) by (rewrite Ek; now apply Z.pow2_bits_true).
  destruct b.
  - now rewrite Z.lor_spec, Bk, orb_true_r.
  - now rewrite Z.land_spec, Z.lnot_spec, Bk, andb_false_r by exact Hk.
Qed.

Lemma eqb_nested f : f <> NESTED -> flag_eqb f NESTED = false.
Proof.
  intros H. destruct (flag_eqb f NESTED) eqn:E; [|reflexivity]. exfalso. apply H.
  unfold flag_eqb in E. destruct f; cbn [flag_id] in E; try reflexivity; lia.
Qed.

Lemma eqb_nofree f : f <> NOFREE -> flag_eqb f NOFREE = false.
Proof.
  intros H. destruct (flag_eqb f NOFREE) eqn:E; [|reflexivity]. exfalso. apply H.
  unfold flag_eqb in E. destruct f; cbn [flag_id] in E; try reflexivity; lia.
Qed.

(* ------------------------------------------------------------------ *)
(** * 2. Flag lists with the same ids have the same members *)

Lemma mem_of_fids A B : (forall n, In n (R2.fids A) <-> In n (R2.fids B)) ->
  forall f, flag_mem f A = flag_mem f B.
Proof.
  intros E f. destruct (flag_mem f B) eqn:E1.
  - apply R2.flag_mem_fids. apply E. now apply R2.flag_mem_fids.
  - apply R2.flag_mem_fids_false. intros H. apply E in H. now apply R2.flag_mem_fids_false in E1.
Qed.

Lemma mem_enc_flags g bt vpb vkb nf ann ne :
  flag_mem g (R2.enc_flags bt vpb vkb nf ann ne) =
  (ne && flag_eqb g NESTED)
  || ((ann && flag_eqb g F_annotations)
      || ((nf && flag_eqb g NOFREE)
          || match bt with
             | Some f => (vkb && flag_eqb g VARKEYWORDS)
                         || ((vpb && flag_eqb g VARARGS)
                             || (flag_eqb g NEWLOCALS || flag_eqb g OPTIMIZED || C1.ty_mem g (fn_type f)))
             | None => false
             end)).
Proof.
  unfold R2.enc_flags. cbv zeta. rewrite !C1.flag_mem_cond_add.
  destruct bt as [f|]; [|reflexivity].
  unfold R2.enc_fn_flags. cbv zeta. rewrite !C1.flag_mem_cond_add.
  fold (C1.enc_fl0 (Some f)). rewrite C1.mem_enc_fl0. reflexivity.
Qed.

(* ------------------------------------------------------------------ *)
(** * 3. What args_from_input returns *)

Lemma args_shape ac po kw vn fl a fl1 :
  args_from_input ac po kw vn fl = OK (a, fl1) ->
  a_posonly a = py_slice_to po vn
  /\ a_poskw a = py_slice_to (ac - po) (py_slice_from po vn)
  /\ a_kwonly a = py_slice_to kw (py_slice_from (ac - po) (py_slice_from po vn))
  /\ str_truthy (a_varpos a) = flag_mem VARARGS fl
  /\ str_truthy (a_varkw a) = flag_mem VARKEYWORDS fl.
Proof.
  unfold args_from_input. cbv zeta.
  assert (R : flag_mem VARKEYWORDS (flag_remove VARARGS fl) = flag_mem VARKEYWORDS fl)
    by (apply AP.flag_mem_remove_other; reflexivity).
  generalize (py_slice_from kw (py_slice_from (ac - po) (py_slice_from po vn))).
  intros v3 H.
  destruct (flag_mem VARARGS fl) eqn:E1.
  - destruct v3 as [|x v4]; [discriminate|].
    destruct (flag_mem VARKEYWORDS (flag_remove VARARGS fl)) eqn:E2.
    + destruct v4 as [|y v5]; [discriminate|]. inversion H; subst a.
      cbn [a_posonly a_poskw a_kwonly a_varpos a_varkw str_truthy]. rewrite <- R. repeat split; reflexivity.
    + inversion H; subst a.
      cbn [a_posonly a_poskw a_kwonly a_varpos a_varkw str_truthy]. rewrite <- R. repeat split; reflexivity.
  - destruct (flag_mem VARKEYWORDS fl) eqn:E2.
    + destruct v3 as [|y v5]; [discriminate|]. inversion H; subst a.
      cbn [a_posonly a_poskw a_kwonly a_varpos a_varkw str_truthy]. repeat split; reflexivity.
    + inversion H; subst a.
      cbn [a_posonly a_poskw a_kwonly a_varpos a_varkw str_truthy]. repeat split; reflexivity.
Qed.

Lemma zlen_slice_to {A} n (l : list A) : 0 <= n <= zlen l -> zlen (py_slice_to n l) = n.
Proof.
  intros H. unfold py_slice_to. destruct (n <? 0) eqn:E; [lia|].
  unfold zlen, take in *. rewrite firstn_length. lia.
Qed.

Lemma zlen_slice_from {A} n (l : list A) : 0 <= n <= zlen l -> zlen (py_slice_from n l) = zlen l - n.
Proof.
  intros H. unfold py_slice_from. destruct (n <? 0) eqn:E; [lia|].
  unfold zlen, drop in *. rewrite skipn_length. lia.
Qed.

Lemma args_counts ac po kw vn fl a fl1 :
  0 <= po <= ac -> 0 <= kw -> ac + kw <= zlen vn ->
  args_from_input ac po kw vn fl = OK (a, fl1) ->
  zlen (a_posonly a) = po /\ zlen (a_poskw a) = ac - po /\ zlen (a_kwonly a) = kw.
Proof.
  intros Hpo Hkw Hlen H. destruct (args_shape _ _ _ _ _ _ _ H) as (E1 & E2 & E3 & _).
  rewrite E1, E2, E3.
  assert (L1 : zlen (py_slice_from po vn) = zlen vn - po) by (apply zlen_slice_from; lia).
  assert (L2 : zlen (py_slice_from (ac - po) (py_slice_from po vn)) = zlen vn - po - (ac - po))
    by (rewrite zlen_slice_from; lia).
  split; [apply zlen_slice_to; lia|]. split; apply zlen_slice_to; lia.
Qed.

(* no parameter at all *)
Lemma od_set_ne d k v : od_set d k v <> [].
Proof. destruct d as [|[k' v'] r]; cbn [od_set]; [discriminate|]. destruct (str_eqb k' k); discriminate. Qed.

Lemma od_fold_ne (l : list (str * Z)) : forall d, d <> [] ->
  fold_left (fun d kv => od_set d (fst kv) (snd kv)) l d <> [].
Proof. induction l as [|x l IH]; cbn [fold_left]; intros d Hd; [exact Hd|]. apply IH, od_set_ne. Qed.

Lemma truthy_list_nil o : truthy_list o = [] -> str_truthy o = false.
Proof. destruct o; [discriminate|reflexivity]. Qed.

Lemma args_len_zero a : args_len a = 0 ->
  a_posonly a = [] /\ a_poskw a = [] /\ a_kwonly a = []
  /\ str_truthy (a_varpos a) = false /\ str_truthy (a_varkw a) = false.
Proof.
  unfold args_len, args_to_parameters. intros H.
  match type of H with zlen (od_of_pairs ?L) = 0 => assert (E : L = []) end.
  { match type of H with zlen (od_of_pairs ?L) = 0 => destruct L as [|x l] end; [reflexivity|exfalso].
    unfold od_of_pairs in H. cbn [fold_left] in H.
    pose proof (od_fold_ne l (od_set [] (fst x) (snd x)) (od_set_ne _ _ _)) as Hne.
    destruct (fold_left _ l _); [now apply Hne|]. unfold zlen in H. cbn [length] in H. lia. }
  apply app_eq_nil in E as [E1 E]. apply app_eq_nil in E as [E2 E].
  apply app_eq_nil in E as [E3 E]. apply app_eq_nil in E as [E4 E5].
  apply map_eq_nil in E1, E2, E3, E4, E5.
  repeat split; try assumption; now apply truthy_list_nil.
Qed.

(* ------------------------------------------------------------------ *)
(** * 4. The fields the pairing of constants keeps *)

Lemma mapM_cd_all {C D} (f : C -> res D) (d : code_data_ C) d' : mapM_cd f d = OK d' ->
  cd_type d' = cd_type d /\ cd_future_annotations d' = cd_future_annotations d /\
  cd_freevars d' = cd_freevars d /\ cd_nested d' = cd_nested d /\ cd_addline d' = cd_addline d.
Proof.
  unfold mapM_cd. intros H.
  destruct (mapM (mapM (mapM_instr f)) (cd_blocks d)); [|discriminate].
  destruct (mapM (mapM_arg f) (cd_addargs d)); [|discriminate].
  inversion H; subst; cbn; repeat split; reflexivity.
Qed.

(* ------------------------------------------------------------------ *)
(** * 5. The original statement is false *)

(* module-like code whose co_argcount (2) exceeds what co_varnames (empty) holds *)
Definition bad_code : pycode :=
  mkCode 2 0 0 0 1 64 [100; 0; 83; 0] [PInner INone] [] [] [60] [109] 1 [0; 1] [] [].
Definition bad_ks : list const := [KInner INone].

Definition unwrap {A} (r : res A) (dflt : A) : A := match r with OK a => a | Err _ => dflt end.
Definition dummy_cd {C} : code_data_ C := mkCD [] [] 0 [] 0 None [] false false None [].

Definition pipeline (c : cfg) (code : pycode) (ks : list const) : code_data * code_data_ pconst * pycode :=
  let d := unwrap (decode_code c code ks) dummy_cd in
  let d' := unwrap (mapM_cd (fun k' => match from_const c k' with OK p => OK (k', p) | Err e => Err e end)
                            (normalize d)) dummy_cd in
  (d, d', unwrap (encode_code c d') code).

Example C05_header_counterexample : ~ S_C05_header.
Proof.
  intros H.
  specialize (H Gen.Cfg39.cfg bad_code bad_ks
                (fst (fst (pipeline Gen.Cfg39.cfg bad_code bad_ks)))
                (snd (fst (pipeline Gen.Cfg39.cfg bad_code bad_ks)))
                (snd (pipeline Gen.Cfg39.cfg bad_code bad_ks))).
  assert (P1 : flags_wf (cfg_flags Gen.Cfg39.cfg) = true) by (vm_compute; reflexivity).
  assert (P2 : flag_value (cfg_flags Gen.Cfg39.cfg) NOFREE <> None) by (vm_compute; discriminate).
  assert (P3 : view_wf Gen.Cfg39.cfg bad_code bad_ks && ops_known Gen.Cfg39.cfg (co_code bad_code) = true)
    by (vm_compute; reflexivity).
  assert (P4 : co_code bad_code <> []) by (vm_compute; discriminate).
  assert (P5 : zlen (co_freevars bad_code) < 1073741824) by (vm_compute; reflexivity).
  assert (P6 : zlen (co_varnames bad_code) < 1073741824) by (vm_compute; reflexivity).
  assert (P7 : nodup_str (co_freevars bad_code) = true) by (vm_compute; reflexivity).
  assert (P8 : (0 <=? cfg_extended_arg Gen.Cfg39.cfg) && (cfg_extended_arg Gen.Cfg39.cfg <? 256) = true)
    by (vm_compute; reflexivity).
  specialize (H P1 P2 P3 P4 P5 P6 P7 P8).
  assert (Q1 : decode_code Gen.Cfg39.cfg bad_code bad_ks
               = OK (fst (fst (pipeline Gen.Cfg39.cfg bad_code bad_ks)))) by (vm_compute; reflexivity).
  assert (Q2 : mapM_cd (fun k' => match from_const Gen.Cfg39.cfg k' with OK p => OK (k', p) | Err e => Err e end)
                 (normalize (fst (fst (pipeline Gen.Cfg39.cfg bad_code bad_ks))))
               = OK (snd (fst (pipeline Gen.Cfg39.cfg bad_code bad_ks)))) by (vm_compute; reflexivity).
  assert (Q3 : encode_code Gen.Cfg39.cfg (snd (fst (pipeline Gen.Cfg39.cfg bad_code bad_ks)))
               = OK (snd (pipeline Gen.Cfg39.cfg bad_code bad_ks))) by (vm_compute; reflexivity).
  assert (Q4 : zlen (co_code (snd (pipeline Gen.Cfg39.cfg bad_code bad_ks))) < 1073741824)
    by (vm_compute; reflexivity).
  destruct (H Q1 Q2 Q3 Q4) as [Hac _].
  vm_compute in Hac. discriminate Hac.
Qed.

(* ------------------------------------------------------------------ *)
(** * 6. The corrected statement *)

(* Original (false, see above):
   Definition S_C05_header : Prop := forall c code ks d d' code',
     flags_wf (cfg_flags c) = true -> flag_value (cfg_flags c) NOFREE <> None ->
     view_wf c code ks && ops_known c (co_code code) = true -> co_code code <> [] ->
     zlen (co_freevars code) < 1073741824 -> zlen (co_varnames code) < 1073741824 ->
     nodup_str (co_freevars code) = true ->
     (0 <=? cfg_extended_arg c) && (cfg_extended_arg c <? 256) = true ->
     decode_code c code ks = OK d ->
     mapM_cd (fun k' => match from_const c k' with OK p => OK (k', p) | Err e => Err e end) (normalize d) = OK d' ->
     encode_code c d' = OK code' ->
     zlen (co_code code') < 1073741824 ->
     co_argcount code' = co_argcount code
     /\ co_kwonlyargcount code' = co_kwonlyargcount code
     /\ co_posonlyargcount code' = (if cfg_v38 c then co_posonlyargcount code else 0)
     /\ (forall f, f <> NESTED -> f <> NOFREE -> bit_set c f (co_flags code') = bit_set c f (co_flags code))
     /\ bit_set c NESTED (co_flags code') = false
     /\ bit_set c NOFREE (co_flags code')
        = match co_freevars code', co_cellvars code' with [], [] => true | _, _ => false end.
   Corrected: the three bounds on the counts are added; everything else is unchanged. *)
Definition S_C05_header_corrected : Prop := forall c code ks d d' code',
  flags_wf (cfg_flags c) = true -> flag_value (cfg_flags c) NOFREE <> None ->
  view_wf c code ks && ops_known c (co_code code) = true -> co_code code <> [] ->
  zlen (co_freevars code) < 1073741824 -> zlen (co_varnames code) < 1073741824 ->
  nodup_str (co_freevars code) = true ->
  (0 <=? cfg_extended_arg c) && (cfg_extended_arg c <? 256) = true ->
  0 <= (if cfg_v38 c then co_posonlyargcount code else 0) <= co_argcount code ->
  0 <= co_kwonlyargcount code ->
  co_argcount code + co_kwonlyargcount code <= zlen (co_varnames code) ->
  decode_code c code ks = OK d ->
  mapM_cd (fun k' => match from_const c k' with OK p => OK (k', p) | Err e => Err e end) (normalize d) = OK d' ->
  encode_code c d' = OK code' ->
  zlen (co_code code') < 1073741824 ->
  co_argcount code' = co_argcount code
  /\ co_kwonlyargcount code' = co_kwonlyargcount code
  /\ co_posonlyargcount code' = (if cfg_v38 c then co_posonlyargcount code else 0)
  /\ (forall f, f <> NESTED -> f <> NOFREE -> bit_set c f (co_flags code') = bit_set c f (co_flags code))
  /\ bit_set c NESTED (co_flags code') = false
  /\ bit_set c NOFREE (co_flags code')
     = match co_freevars code', co_cellvars code' with [], [] => true | _, _ => false end.

Theorem C05_header_corrected : S_C05_header_corrected.
Proof.
  intros c code ks d d' code' Hwf Hnfv _ _ _ _ _ _ Hpo Hkw Hlen Hdec Hpair Henc _.
  destruct (flag_value (cfg_flags c) NOFREE) as [nf|] eqn:Hnf; [clear Hnfv|contradiction].
  destruct (R2.decode_code_inv _ _ _ _ Hdec)
    as (lm0 & fl0 & a & fl1 & bt & lm' & nl & lm'' & _ & Hfl & Ha & _ & Hbt & _ & _ & Hd).
  pose proof (HP.args_flags_left _ _ _ _ _ _ _ Ha) as Hfl1. subst fl1.
  destruct (args_shape _ _ _ _ _ _ _ Ha) as (_ & _ & _ & Hvp & Hvk).
  destruct (args_counts _ _ _ _ _ _ _ Hpo Hkw Hlen Ha) as (LA & LB & LK).
  (* the fields of the paired normal form *)
  destruct (mapM_cd_all _ _ _ Hpair) as (Tty & Tfa & Tfv & Tne & Tal).
  assert (Ety : @cd_type pconst d' = bt)
    by (transitivity (cd_type (normalize d)); [exact Tty | rewrite Hd; reflexivity]).
  assert (Efa : @cd_future_annotations pconst d'
                = flag_mem F_annotations (flag_remove NOFREE (flag_remove VARKEYWORDS (flag_remove VARARGS fl0))))
    by (transitivity (cd_future_annotations (normalize d)); [exact Tfa | rewrite Hd; reflexivity]).
  assert (Ene : @cd_nested pconst d' = false) by exact Tne.
  assert (Eal : @cd_addline pconst d' = None) by exact Tal.
  clear Tty Tfa Tfv Tne Tal Hd Hdec Hpair.
  destruct (C1.encode_inv_f c d' code' Eal Henc)
    as (code0 & lm1 & names & varnames & cellvars & constants & w0 & table & _ & Hw0 & _ & _ & ->).
  cbn [co_argcount co_kwonlyargcount co_posonlyargcount co_flags co_freevars co_cellvars].
  rewrite Ety.
  (* the block type: a function with the decoded args, or none and no parameter at all *)
  assert (Hz : args_len a = 0 -> flag_mem VARARGS fl0 = false /\ flag_mem VARKEYWORDS fl0 = false).
  { intros Z0. destruct (args_len_zero a Z0) as (_ & _ & _ & Z4 & Z5). split; congruence. }
  pose proof (R2.flags_equiv a ks fl0 bt _ _ eq_refl eq_refl Hz Hbt) as Hids. cbv zeta in Hids.
  pose proof (mem_of_fids _ _ Hids) as Hmem. clear Hids.
  assert (Hcnt : C1.enc_counts bt
                 = (co_argcount code, (if cfg_v38 c then co_posonlyargcount code else 0), co_kwonlyargcount code)).
  { destruct (R2.decode_bt_shape _ _ _ _ _ Hbt) as [[-> Z0]|(doc & tp & ->)].
    - destruct (args_len_zero a Z0) as (Z1 & Z2 & Z3 & _). rewrite Z1 in LA. rewrite Z2 in LB. rewrite Z3 in LK.
      unfold zlen in LA, LB, LK. cbn [length] in LA, LB, LK. cbn [C1.enc_counts].
      repeat f_equal; lia.
    - cbn [C1.enc_counts fn_args]. rewrite LA, LB, LK. repeat f_equal; lia. }
  rewrite Hcnt. cbn [fst snd].
  split; [reflexivity|]. split; [reflexivity|]. split; [reflexivity|].
  (* membership in the emitted names *)
  assert (Hmem' : forall g, flag_eqb g NESTED = false -> flag_eqb g NOFREE = false ->
                            flag_mem g (C1.enc_fl d' cellvars) = flag_mem g fl0).
  { intros g G1 G2. rewrite <- Hmem. rewrite C1.mem_enc_fl, C1.mem_enc_fl1, mem_enc_flags.
    rewrite Ety, Efa, Ene, G1, G2. rewrite !andb_false_r. cbn [andb orb].
    destruct (R2.decode_bt_shape _ _ _ _ _ Hbt) as [[-> Z0]|(doc & tp & ->)]; [reflexivity|].
    cbn [fn_args fn_type]. rewrite Hvp, Hvk. reflexivity. }
  split; [|split].
  - intros f F1 F2.
    destruct (flag_value (cfg_flags c) f) as [v|] eqn:Ev.
    + assert (Hid : flag_id f <> flag_id NOFREE).
      { pose proof (eqb_nofree f F2) as E. unfold flag_eqb in E. lia. }
      rewrite (bit_set_adj c f v nf _ w0 Hwf Hnf Ev Hid).
      rewrite (ffd_bit_mem c _ w0 f v Hwf Hw0 Ev).
      rewrite <- (HP.flag_mem_bit c (co_flags code) fl0 Hwf Hfl f).
      apply Hmem'; [now apply eqb_nested | now apply eqb_nofree].
    + now rewrite !bit_set_none by exact Ev.
  - destruct (flag_value (cfg_flags c) NESTED) as [v|] eqn:Ev; [|now apply bit_set_none].
    rewrite (bit_set_adj c NESTED v nf _ w0 Hwf Hnf Ev) by (cbn [flag_id]; lia).
    rewrite (ffd_bit_mem c _ w0 NESTED v Hwf Hw0 Ev).
    rewrite C1.mem_enc_fl, C1.mem_enc_fl1, Ene, Ety. cbn [andb orb].
    destruct bt as [f0|]; rewrite ?C1.ty_mem_cases; unfold flag_eqb; cbn [flag_id];
      destruct (@cd_future_annotations pconst d'), (C1.nofree_of (@cd_freevars pconst d') cellvars);
      try destruct (str_truthy (a_varkw (fn_args f0))), (str_truthy (a_varpos (fn_args f0))), (fn_type f0) as [[]|];
      reflexivity.
  - rewrite (bit_set_adj_nofree c nf _ w0 Hwf Hnf). reflexivity.
Qed.

(* ------------------------------------------------------------------ *)
(** * 7. Not vacuous: the generator function of HeaderProofs, nested *)

(* flags 115 = OPTIMIZED | NEWLOCALS | NESTED | GENERATOR | NOFREE *)
Definition gen_nested : pycode :=
  mkCode 1 0 0 1 1 115 [100; 0; 83; 0] [PInner (IStr [100]); PInner INone] [] [[97]] [60] [102] 1
         [0; 1] [] [].
Definition gen_ks : list const := [KInner (IStr [100]); KInner INone].

Example C05_header_generator :
  let c := Gen.Cfg39.cfg in
  let '(d, d', code') := pipeline c gen_nested gen_ks in
  (* the premises *)
  flags_wf (cfg_flags c) = true /\ flag_value (cfg_flags c) NOFREE = Some 64
  /\ view_wf c gen_nested gen_ks && ops_known c (co_code gen_nested) = true
  /\ nodup_str (co_freevars gen_nested) = true
  /\ (0 <=? cfg_extended_arg c) && (cfg_extended_arg c <? 256) = true
  /\ (0 <=? co_posonlyargcount gen_nested) && (co_posonlyargcount gen_nested <=? co_argcount gen_nested)
     && (0 <=? co_kwonlyargcount gen_nested)
     && (co_argcount gen_nested + co_kwonlyargcount gen_nested <=? zlen (co_varnames gen_nested)) = true
  /\ decode_code c gen_nested gen_ks = OK d
  /\ mapM_cd (fun k' => match from_const c k' with OK p => OK (k', p) | Err e => Err e end) (normalize d) = OK d'
  /\ encode_code c d' = OK code'
  (* the header: NESTED (16) cleared, the rest kept *)
  /\ co_flags gen_nested = 115 /\ co_flags code' = 99
  /\ bit_set c NESTED (co_flags gen_nested) = true /\ bit_set c NESTED (co_flags code') = false
  /\ bit_set c GENERATOR (co_flags code') = true /\ bit_set c NOFREE (co_flags code') = true
  /\ co_argcount code' = 1 /\ co_kwonlyargcount code' = 0 /\ co_posonlyargcount code' = 0.
Proof. vm_compute. repeat split; reflexivity. Qed.

Print Assumptions C05_header_counterexample.
Print Assumptions C05_header_corrected.
