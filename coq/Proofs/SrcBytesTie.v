(* Tie between Model/Blocks.parse_bytes and the statement-level translation of _blocks._parse_bytes
   (Gen/SrcLines.v, module ParseBytes; regenerated from the source on every run): for ALL byte strings the
   index loop over range(0, len(b), 2) with its two accumulators yields what the model's recursion yields,
   or raises IndexError exactly when the model does. *)
From PCD Require Import Base.PyBase Base.PyImp Base.Cfg Model.Blocks.
From PCD Require Gen.Src Gen.SrcLines.
From Coq Require Import ZifyBool.
Ltac Zify.zify_post_hook ::= Z.to_euclidean_division_equations.

Module P := PCD.Gen.SrcLines.ParseBytes.

Lemma range2_cons a b : a < b -> range2 a b = a :: range2 (a + 2) b.
Proof.
  intros H. unfold range2. replace (b <=? a) with false by lia.
  destruct (b <=? a + 2) eqn:E.
  - assert (Hq : (b - a + 1) / 2 = 1) by lia. rewrite Hq. reflexivity.
  - assert (Hq : Z.to_nat ((b - a + 1) / 2) = S (Z.to_nat ((b - (a + 2) + 1) / 2))) by lia.
    rewrite Hq. reflexivity.
Qed.
Lemma range2_empty a b : b <= a -> range2 a b = [].
Proof. intros H. unfold range2. replace (b <=? a) with true by lia. reflexivity. Qed.

Lemma znth_app_at {A} (pre : list A) x r : znth (pre ++ x :: r) (zlen pre) = Some x.
Proof.
  unfold znth, zlen. replace (Z.of_nat (length pre) <? 0) with false by lia.
  rewrite Nat2Z.id. rewrite nth_error_app2 by lia. rewrite Nat.sub_diag. reflexivity.
Qed.
Lemma znth_app_past {A} (pre : list A) : znth pre (zlen pre) = None.
Proof.
  unfold znth, zlen. replace (Z.of_nat (length pre) <? 0) with false by lia.
  rewrite Nat2Z.id. apply nth_error_None. lia.
Qed.
Lemma zlen_app {A} (a b : list A) : zlen (a ++ b) = zlen a + zlen b.
Proof. unfold zlen. rewrite app_length. lia. Qed.
Lemma zlen_nonneg {A} (a : list A) : 0 <= zlen a. Proof. unfold zlen. lia. Qed.

Lemma byte_at_app pre x r : byte_at (pre ++ x :: r) (zlen pre) = OK x.
Proof.
  unfold byte_at. pose proof (zlen_nonneg pre). replace (zlen pre <? 0) with false by lia.
  rewrite znth_app_at. reflexivity.
Qed.
Lemma byte_at_app1 pre x y r : byte_at (pre ++ x :: y :: r) (zlen pre + 1) = OK y.
Proof.
  replace (pre ++ x :: y :: r) with ((pre ++ [x]) ++ y :: r) by (rewrite <- app_assoc; reflexivity).
  replace (zlen pre + 1) with (zlen (pre ++ [x])) by (rewrite zlen_app; reflexivity).
  apply byte_at_app.
Qed.
Lemma byte_at_end pre x : byte_at (pre ++ [x]) (zlen pre + 1) = Err IndexError.
Proof.
  unfold byte_at. pose proof (zlen_nonneg pre). replace (zlen pre + 1 <? 0) with false by lia.
  replace (zlen pre + 1) with (zlen (pre ++ [x])) by (rewrite zlen_app; reflexivity).
  rewrite znth_app_past. reflexivity.
Qed.

Section Tie.
  Variable c : cfg.
  Hypothesis Hup : PCD.Gen.Src.c_int_upper_limit = c_int_upper_limit.
  Hypothesis Hlen : PCD.Gen.Src.c_int_length = c_int_length.

  (* the loop from offset |pre| on, started in a state with accumulators (arg, n_args), appends to the output what
     the model's recursion on the rest yields *)
  Lemma pb_gen : forall n rest, (length rest <= n)%nat -> forall pre s,
    bind (foldM (P.body (cfg_extended_arg c) (pre ++ rest)) (range2 (zlen pre) (zlen (pre ++ rest))) s)
         (fun s' => OK (P.v_out s'))
    = bind (parse_bytes c rest (zlen pre) (P.v_n_args s) (P.v_arg s)) (fun l => OK (P.v_out s ++ l)).
  Proof.
    induction n as [|n IH]; intros rest Hn pre s.
    - destruct rest; [|cbn in Hn; lia]. rewrite app_nil_r, range2_empty by lia. cbn. rewrite app_nil_r. reflexivity.
    - destruct rest as [|op [|byte r]].
      + rewrite app_nil_r, range2_empty by lia. cbn. rewrite app_nil_r. reflexivity.
      + (* a single trailing byte: b[i + 1] raises *)
        rewrite zlen_app. change (zlen [op]) with 1. rewrite range2_cons by lia.
        cbn [foldM]. unfold P.body at 1. rewrite byte_at_app. cbn [bind].
        change (Z.add (zlen pre) 1) with (zlen pre + 1). rewrite byte_at_end. reflexivity.
      + rewrite zlen_app. assert (Hl : zlen (op :: byte :: r) = 2 + zlen r).
        { unfold zlen. cbn [length]. lia. }
        rewrite Hl. pose proof (zlen_nonneg r). rewrite range2_cons by lia.
        cbn [foldM]. unfold P.body at 1. rewrite byte_at_app. cbn [bind].
        change (Z.add (zlen pre) 1) with (zlen pre + 1). rewrite byte_at_app1.
        destruct s as [a fo na no opc out].
        cbn [bind P.set_v_opcode P.set_v_arg P.set_v_n_args P.set_v_first_offset P.set_v_next_offset P.set_v_out
             P.v_arg P.v_first_offset P.v_n_args P.v_next_offset P.v_opcode P.v_out].
        cbn [parse_bytes].
        replace (pre ++ op :: byte :: r) with ((pre ++ [op; byte]) ++ r) by (rewrite <- app_assoc; reflexivity).
        assert (Hz : zlen pre + 2 = zlen (pre ++ [op; byte])) by (rewrite zlen_app; reflexivity).
        assert (Hz2 : zlen pre + (2 + zlen r) = zlen ((pre ++ [op; byte]) ++ r)).
        { rewrite !zlen_app. change (zlen [op; byte]) with 2. lia. }
        rewrite Hz, Hz2.
        destruct (op =? cfg_extended_arg c) eqn:Eop.
        * cbn [bind]. rewrite Hup, Hlen.
          destruct (Z.shiftl (Z.lor a byte) 8 >? c_int_upper_limit) eqn:Eg.
          -- cbn [P.set_v_arg P.v_arg P.v_first_offset P.v_n_args P.v_next_offset P.v_opcode P.v_out].
             rewrite IH by (cbn in Hn; lia).
             cbn [P.v_n_args P.v_arg P.v_out]. reflexivity.
          -- rewrite IH by (cbn in Hn; lia).
             cbn [P.v_n_args P.v_arg P.v_out]. reflexivity.
        * cbn [bind P.set_v_opcode P.set_v_arg P.set_v_n_args P.set_v_first_offset P.set_v_next_offset P.set_v_out
               P.v_arg P.v_first_offset P.v_n_args P.v_next_offset P.v_opcode P.v_out].
          rewrite IH by (cbn in Hn; lia).
          unfold P.set_v_opcode, P.set_v_arg, P.set_v_n_args, P.set_v_first_offset, P.set_v_next_offset, P.set_v_out.
          cbn [P.v_arg P.v_first_offset P.v_n_args P.v_next_offset P.v_opcode P.v_out].
          rewrite <- Hz.
          destruct (parse_bytes c r (zlen pre + 2) 0 0) as [l|e]; cbn [bind]; [|reflexivity].
          rewrite <- app_assoc. reflexivity.
  Qed.

  Theorem parse_bytes_tie : forall b,
    P.parse_bytes (cfg_extended_arg c) b = parse_bytes c b 0 0 0.
  Proof.
    intros b. unfold P.parse_bytes.
    pose proof (pb_gen (length b) b (le_n _) [] P.init) as H. cbn [app] in H.
    change (zlen []) with 0 in H. rewrite H. cbn [P.init P.v_n_args P.v_arg P.v_out app].
    destruct (parse_bytes c b 0 0 0); reflexivity.
  Qed.
End Tie.

Print Assumptions parse_bytes_tie.
