(* C14: iteration over decoded data enumerates every nested code object.
   Part 1 (shared with OverrideProofs.v): the run of the decoder, projected on each of its four
   operand tables, is TablesReplay.found_all on the operand indices of that table's opcode class
   followed by additional_args.
   Part 2: blocks_to_constants rebuilds the constants table (C14_iter).
   Part 3: all_code_data walks the nested code objects (C14_all). *)
From Coq Require Import ZArith List Bool Lia ZifyBool.
From PCD Require Import Base.PyBase Base.Cfg Model.Flags Model.Args Model.Data Model.Consts
  Model.LineTable Model.Blocks Model.CodeData Spec.Lnotab Spec.Dis Model.ViewSer
  Proofs.C02_Statements Proofs.C11_Statements Proofs.C01_Statements Proofs.C14_Statements.
From PCD Require Proofs.TablesReplay Proofs.BlocksPartition Proofs.DecodeView Proofs.EncodeValues
  Proofs.ConstsProofs.
Import ListNotations. Open Scope Z_scope.
Ltac Zify.zify_post_hook ::= Z.to_euclidean_division_equations.

Module TR := TablesReplay.
Module EV := EncodeValues.
Module DV := DecodeView.

Ltac dmatch H :=
  match type of H with
  | match ?X with _ => _ end = _ => destruct X eqn:?; try discriminate H
  end.

(* ------------------------------------------------------------------ *)
(** * 1. Projections of symbolic operands *)

Section ArgLists.
  Context {C : Type}.
  Implicit Types l : list (arg_ C).

  Lemma names_in_app l1 l2 : names_in (l1 ++ l2) = names_in l1 ++ names_in l2.
  Proof. apply flat_map_app. Qed.
  Lemma varnames_in_app l1 l2 : varnames_in (l1 ++ l2) = varnames_in l1 ++ varnames_in l2.
  Proof. apply flat_map_app. Qed.
  Lemma cellvars_in_app l1 l2 : cellvars_in (l1 ++ l2) = cellvars_in l1 ++ cellvars_in l2.
  Proof. apply flat_map_app. Qed.
  Lemma consts_in_app l1 l2 : consts_in (l1 ++ l2) = consts_in l1 ++ consts_in l2.
  Proof. apply flat_map_app. Qed.

  Lemma names_in_cons x l : names_in (x :: l) = names_in [x] ++ names_in l.
  Proof. exact (names_in_app [x] l). Qed.
  Lemma varnames_in_cons x l : varnames_in (x :: l) = varnames_in [x] ++ varnames_in l.
  Proof. exact (varnames_in_app [x] l). Qed.
  Lemma cellvars_in_cons x l : cellvars_in (x :: l) = cellvars_in [x] ++ cellvars_in l.
  Proof. exact (cellvars_in_app [x] l). Qed.
  Lemma consts_in_cons x l : consts_in (x :: l) = consts_in [x] ++ consts_in l.
  Proof. exact (consts_in_app [x] l). Qed.

  Ltac aoa_tac u :=
    induction u as [|[s ov] r IH]; [reflexivity|];
    cbn [arg_of_additional map fst snd]; cbn [names_in varnames_in cellvars_in consts_in flat_map app];
    try (f_equal); exact IH.

  Lemma names_in_aoa_n (u : list (str * option Z)) : names_in (arg_of_additional (C:=C) AName u) = u.
  Proof. aoa_tac u. Qed.
  Lemma names_in_aoa_v (u : list (str * option Z)) : names_in (arg_of_additional (C:=C) AVarname u) = [].
  Proof. aoa_tac u. Qed.
  Lemma names_in_aoa_c (u : list (str * option Z)) : names_in (arg_of_additional (C:=C) ACellvar u) = [].
  Proof. aoa_tac u. Qed.
  Lemma names_in_aoa_k (u : list (C * option Z)) : names_in (arg_of_additional AConst u) = [].
  Proof. aoa_tac u. Qed.

  Lemma varnames_in_aoa_n (u : list (str * option Z)) : varnames_in (arg_of_additional (C:=C) AName u) = [].
  Proof. aoa_tac u. Qed.
  Lemma varnames_in_aoa_v (u : list (str * option Z)) : varnames_in (arg_of_additional (C:=C) AVarname u) = u.
  Proof. aoa_tac u. Qed.
  Lemma varnames_in_aoa_c (u : list (str * option Z)) : varnames_in (arg_of_additional (C:=C) ACellvar u) = [].
  Proof. aoa_tac u. Qed.
  Lemma varnames_in_aoa_k (u : list (C * option Z)) : varnames_in (arg_of_additional AConst u) = [].
  Proof. aoa_tac u. Qed.

  Lemma cellvars_in_aoa_n (u : list (str * option Z)) : cellvars_in (arg_of_additional (C:=C) AName u) = [].
  Proof. aoa_tac u. Qed.
  Lemma cellvars_in_aoa_v (u : list (str * option Z)) : cellvars_in (arg_of_additional (C:=C) AVarname u) = [].
  Proof. aoa_tac u. Qed.
  Lemma cellvars_in_aoa_c (u : list (str * option Z)) : cellvars_in (arg_of_additional (C:=C) ACellvar u) = u.
  Proof. aoa_tac u. Qed.
  Lemma cellvars_in_aoa_k (u : list (C * option Z)) : cellvars_in (arg_of_additional AConst u) = [].
  Proof. aoa_tac u. Qed.

  Lemma consts_in_aoa_n (u : list (str * option Z)) : consts_in (arg_of_additional (C:=C) AName u) = [].
  Proof. aoa_tac u. Qed.
  Lemma consts_in_aoa_v (u : list (str * option Z)) : consts_in (arg_of_additional (C:=C) AVarname u) = [].
  Proof. aoa_tac u. Qed.
  Lemma consts_in_aoa_c (u : list (str * option Z)) : consts_in (arg_of_additional (C:=C) ACellvar u) = [].
  Proof. aoa_tac u. Qed.
  Lemma consts_in_aoa_k (u : list (C * option Z)) : consts_in (arg_of_additional AConst u) = u.
  Proof. aoa_tac u. Qed.

  (* the filter of blocks_to_constants *)
  Definition only_consts (l : list (arg_ C)) : list (arg_ C) :=
    filter (fun a : arg_ C => match a with AConst _ _ => true | _ => false end) l.

  Lemma only_consts_spec l : only_consts l = arg_of_additional AConst (consts_in l).
  Proof.
    induction l as [|x l IH]; [reflexivity|].
    unfold only_consts in *. cbn [filter]. rewrite consts_in_cons.
    unfold arg_of_additional in *. rewrite map_app, <- IH.
    destruct x; reflexivity.
  Qed.

  (* retargeting a jump does not touch the table operands *)
  Lemma retarget_names T (l : list (instr_ C)) :
    names_in (map i_arg (map (retarget T) l)) = names_in (map i_arg l).
  Proof.
    induction l as [|i l IH]; [reflexivity|]. cbn [map].
    rewrite names_in_cons, (names_in_cons (i_arg i)), IH. f_equal.
    unfold retarget. destruct (i_arg i) eqn:E; cbn [i_arg]; rewrite ?E; reflexivity.
  Qed.
  Lemma retarget_varnames T (l : list (instr_ C)) :
    varnames_in (map i_arg (map (retarget T) l)) = varnames_in (map i_arg l).
  Proof.
    induction l as [|i l IH]; [reflexivity|]. cbn [map].
    rewrite varnames_in_cons, (varnames_in_cons (i_arg i)), IH. f_equal.
    unfold retarget. destruct (i_arg i) eqn:E; cbn [i_arg]; rewrite ?E; reflexivity.
  Qed.
  Lemma retarget_cellvars T (l : list (instr_ C)) :
    cellvars_in (map i_arg (map (retarget T) l)) = cellvars_in (map i_arg l).
  Proof.
    induction l as [|i l IH]; [reflexivity|]. cbn [map].
    rewrite cellvars_in_cons, (cellvars_in_cons (i_arg i)), IH. f_equal.
    unfold retarget. destruct (i_arg i) eqn:E; cbn [i_arg]; rewrite ?E; reflexivity.
  Qed.
  Lemma retarget_consts T (l : list (instr_ C)) :
    consts_in (map i_arg (map (retarget T) l)) = consts_in (map i_arg l).
  Proof.
    induction l as [|i l IH]; [reflexivity|]. cbn [map].
    rewrite consts_in_cons, (consts_in_cons (i_arg i)), IH. f_equal.
    unfold retarget. destruct (i_arg i) eqn:E; cbn [i_arg]; rewrite ?E; reflexivity.
  Qed.

  (* the blocks are the instructions, in order (whenever split_blocks succeeds) *)
  Lemma split_blocks_concat T : forall (l : list (Z * instr_ C)) cur started bl,
    split_blocks T l cur started = OK bl ->
    concat bl = (if started then rev cur else []) ++ map (retarget T) (map snd l).
  Proof.
    induction l as [|[o i] r IH]; intros cur started bl H; cbn [split_blocks] in H.
    - inversion H; subst bl. destruct started; cbn [concat map]; reflexivity.
    - cbn [map snd]. destruct (zmem o T).
      + destruct (split_blocks T r [retarget T i] true) as [rest|] eqn:E; [|discriminate].
        apply IH in E. cbn [rev app] in E. inversion H; subst bl.
        destruct started; cbn [concat]; rewrite E; reflexivity.
      + destruct started; [|discriminate].
        apply IH in H. rewrite H. cbn [rev]. rewrite <- app_assoc. reflexivity.
  Qed.
End ArgLists.

(* ------------------------------------------------------------------ *)
(** * 2. The decoder run, table by table *)

Definition one (b : bool) (a : Z) : list Z := if b then [a] else [].

Lemma uses_of_cons cls keep p r :
  uses_of cls keep (p :: r) = one (zmem (p_op p) cls && keep (p_arg p)) (p_arg p) ++ uses_of cls keep r.
Proof.
  unfold uses_of, one. cbn [filter]. destruct (zmem (p_op p) cls && keep (p_arg p)); reflexivity.
Qed.

Section Proj.
  Context {C : Type} (keq : C -> C -> bool).
  Variable c : cfg.
  Hypothesis W : cfg_ops_wf c = true.

  Lemma to_arg_proj op a next fv st parg st' :
    to_arg keq c op a next fv st = OK (parg, st') ->
    TR.found_all str_eqb (d_names st) (one (zmem op (cfg_hasname c)) a)
      = OK (names_in [parg], d_names st') /\
    TR.found_all str_eqb (d_varnames st) (one (zmem op (cfg_haslocal c)) a)
      = OK (varnames_in [parg], d_varnames st') /\
    TR.found_all str_eqb (d_cellvars st)
      (one (zmem op (cfg_hasfree c) && (a <? zlen (ta_args (d_cellvars st)))) a)
      = OK (cellvars_in [parg], d_cellvars st') /\
    TR.found_all keq (d_consts st) (one (zmem op (cfg_hasconst c)) a)
      = OK (consts_in [parg], d_consts st').
  Proof.
    intros H. destruct (DV.ops_wf_spec c W) as [_ HW].
    destruct (HW op) as (H1 & H2 & H3 & H4 & H5 & H6). clear HW.
    unfold to_arg in H.
    destruct (zmem op (cfg_hasjabs c)) eqn:E1.
    { destruct (H1 eq_refl) as (_ & _ & -> & -> & -> & ->). inversion H; subst. repeat split. }
    destruct (zmem op (cfg_hasjrel c)) eqn:E2.
    { destruct (H2 eq_refl) as (_ & -> & -> & -> & ->). inversion H; subst. repeat split. }
    destruct (zmem op (cfg_hasname c)) eqn:E3.
    { destruct (H3 eq_refl) as (_ & -> & -> & ->).
      destruct (found_index str_eqb (d_names st) a) as [[[s ov] t]|] eqn:F; [|discriminate].
      inversion H; subst. cbn [one TR.found_all andb]. rewrite F. repeat split. }
    destruct (zmem op (cfg_haslocal c)) eqn:E4.
    { destruct (H4 eq_refl) as (_ & -> & ->).
      destruct (found_index str_eqb (d_varnames st) a) as [[[s ov] t]|] eqn:F; [|discriminate].
      inversion H; subst. cbn [one TR.found_all andb]. rewrite F. repeat split. }
    destruct (zmem op (cfg_hasfree c)) eqn:E5.
    { destruct (H5 eq_refl) as (_ & ->). cbn [andb].
      destruct (a <? zlen (ta_args (d_cellvars st))) eqn:L.
      - destruct (found_index str_eqb (d_cellvars st) a) as [[[s ov] t]|] eqn:F; [|discriminate].
        inversion H; subst. cbn [one TR.found_all]. rewrite F. repeat split.
      - destruct (py_index fv (a - zlen (ta_args (d_cellvars st)))); [|discriminate].
        inversion H; subst. repeat split. }
    cbn [andb].
    destruct (zmem op (cfg_hasconst c)) eqn:E6.
    { destruct (found_index keq (d_consts st) a) as [[[k ov] t]|] eqn:F; [|discriminate].
      inversion H; subst. cbn [one TR.found_all]. rewrite F. repeat split. }
    destruct (op <? cfg_have_argument c); inversion H; subst; repeat split.
  Qed.

  Definition dargs (ois : list (Z * instr_ C)) : list (arg_ C) := map i_arg (map snd ois).

  Lemma decode_instrs_proj : forall ps fv lm st ois lm' st' ncell,
    decode_instrs keq c ps fv lm st = OK (ois, lm', st') ->
    zlen (ta_args (d_cellvars st)) = ncell ->
    TR.found_all str_eqb (d_names st) (uses_of (cfg_hasname c) (fun _ => true) ps)
      = OK (names_in (dargs ois), d_names st') /\
    TR.found_all str_eqb (d_varnames st) (uses_of (cfg_haslocal c) (fun _ => true) ps)
      = OK (varnames_in (dargs ois), d_varnames st') /\
    TR.found_all str_eqb (d_cellvars st) (uses_of (cfg_hasfree c) (fun x => x <? ncell) ps)
      = OK (cellvars_in (dargs ois), d_cellvars st') /\
    TR.found_all keq (d_consts st) (uses_of (cfg_hasconst c) (fun _ => true) ps)
      = OK (consts_in (dargs ois), d_consts st').
  Proof.
    induction ps as [|[[[[op a] n] off] nx] r IH]; intros fv lm st ois lm' st' ncell H Hn.
    - cbn [decode_instrs] in H. inversion H; subst. repeat split.
    - cbn [decode_instrs] in H.
      destruct (to_arg keq c op a nx fv st) as [[parg st1]|] eqn:Et; [|discriminate].
      destruct (oget (lm_lines lm) off) as [line|]; [|discriminate].
      match type of H with
      | match ?X with _ => _ end = _ => destruct X as [[[rest lm1] st2]|] eqn:Er; [|discriminate]
      end.
      inversion H; subst ois lm1 st2. clear H.
      destruct (to_arg_proj _ _ _ _ _ _ _ Et) as (P1 & P2 & P3 & P4).
      assert (Hn1 : zlen (ta_args (d_cellvars st1)) = ncell).
      { rewrite (TR.found_all_args _ _ _ _ _ P3). exact Hn. }
      destruct (IH _ _ _ _ _ _ ncell Er Hn1) as (Q1 & Q2 & Q3 & Q4).
      unfold dargs. cbn [map snd i_arg]. fold (dargs rest).
      rewrite !uses_of_cons. unfold p_op, p_arg. cbn [fst snd]. rewrite !andb_true_r.
      rewrite names_in_cons, varnames_in_cons, cellvars_in_cons, consts_in_cons.
      rewrite Hn in P3.
      split; [exact (TR.found_all_app _ _ _ _ _ _ _ _ P1 Q1)|].
      split; [exact (TR.found_all_app _ _ _ _ _ _ _ _ P2 Q2)|].
      split; [exact (TR.found_all_app _ _ _ _ _ _ _ _ P3 Q3)|].
      exact (TR.found_all_app _ _ _ _ _ _ _ _ P4 Q4).
  Qed.

  (* one table of the decoded data: the operands are found_all on the uses, the additional args
     are additional_args of the resulting state *)
  Definition table_run {T} (k : T -> T -> bool) (tbl : list T) (p : Z) (idxs : list Z)
    (uses adds : list (T * option Z)) : Prop :=
    exists st, TR.found_all k (toargs_init tbl p) idxs = OK (uses, st) /\
               additional_args k st = OK adds.

  (* the entry the docstring lookup emits before the first instruction *)
  Definition doc_use (bt : option function) : list Z := if has_docstring bt then [0] else [].
  Definition doc_entry (bt : option function) (ks : list C) : list (C * option Z) :=
    if has_docstring bt then match ks with k0 :: _ => [(k0, None)] | [] => [] end else [].

  Theorem b2b_proj b lm names varnames freevars cellvars (ks : list C) bt a blocks addl lm' ps :
    bytes_to_blocks keq c b lm names varnames freevars cellvars ks bt a = OK (blocks, addl, lm') ->
    parse_bytes c b 0 0 0 = OK ps ->
    let args := map i_arg (concat blocks) in
    table_run str_eqb names 0 (uses_of (cfg_hasname c) (fun _ => true) ps)
              (names_in args) (names_in addl) /\
    table_run str_eqb varnames (args_len a) (uses_of (cfg_haslocal c) (fun _ => true) ps)
              (varnames_in args) (varnames_in addl) /\
    table_run str_eqb cellvars 0 (uses_of (cfg_hasfree c) (fun x => x <? zlen cellvars) ps)
              (cellvars_in args) (cellvars_in addl) /\
    table_run keq ks 0 (doc_use bt ++ uses_of (cfg_hasconst c) (fun _ => true) ps)
              (doc_entry bt ks ++ consts_in args) (consts_in addl) /\
    addl = arg_of_additional AName (names_in addl) ++ arg_of_additional AVarname (varnames_in addl)
           ++ arg_of_additional ACellvar (cellvars_in addl) ++ arg_of_additional AConst (consts_in addl).
  Proof.
    intros H Ep. unfold bytes_to_blocks in H. cbv zeta in H.
    cbn [d_consts d_names d_varnames d_cellvars] in H.
    match type of H with
    | match ?X with _ => _ end = _ => destruct X as [st1|e] eqn:Est; [|discriminate]
    end.
    rewrite Ep in H.
    match type of H with
    | match ?X with _ => _ end = _ => destruct X as [[[ois lm1] st2]|e] eqn:Ed; [|discriminate]
    end.
    set (T := sorted_set (0 :: jump_targets ois)) in *.
    destruct (split_blocks T ois [] false) as [blocks0|e] eqn:Es; [|discriminate].
    destruct (additional_args str_eqb (d_names st2)) as [an|] eqn:An; [|discriminate].
    destruct (additional_args str_eqb (d_varnames st2)) as [av|] eqn:Av; [|discriminate].
    destruct (additional_args str_eqb (d_cellvars st2)) as [ac|] eqn:Ac; [|discriminate].
    destruct (additional_args keq (d_consts st2)) as [ak|] eqn:Ak; [|discriminate].
    inversion H; subst blocks0 lm1 addl. clear H.
    apply split_blocks_concat in Es. cbn [app] in Es.
    cbv zeta. rewrite Es, retarget_names, retarget_varnames, retarget_cellvars, retarget_consts.
    fold (dargs ois).
    (* the four projections of the additional args *)
    rewrite !names_in_app, !varnames_in_app, !cellvars_in_app, !consts_in_app.
    rewrite names_in_aoa_n, names_in_aoa_v, names_in_aoa_c, names_in_aoa_k.
    rewrite varnames_in_aoa_n, varnames_in_aoa_v, varnames_in_aoa_c, varnames_in_aoa_k.
    rewrite cellvars_in_aoa_n, cellvars_in_aoa_v, cellvars_in_aoa_c, cellvars_in_aoa_k.
    rewrite consts_in_aoa_n, consts_in_aoa_v, consts_in_aoa_c, consts_in_aoa_k.
    cbn [app]. rewrite !app_nil_r.
    (* initial state *)
    assert (Hst : d_names st1 = toargs_init names 0 /\
                  d_varnames st1 = toargs_init varnames (args_len a) /\
                  d_cellvars st1 = toargs_init cellvars 0 /\
                  TR.found_all keq (toargs_init ks 0) (doc_use bt) = OK (doc_entry bt ks, d_consts st1)).
    { unfold doc_use, doc_entry. destruct (has_docstring bt).
      - destruct (found_index keq (toargs_init ks 0) 0) as [[[k0 ov0] t]|] eqn:F; [|discriminate].
        inversion Est; subst st1. cbn [d_names d_varnames d_cellvars d_consts].
        repeat (split; [reflexivity|]).
        cbn [TR.found_all]. rewrite F.
        unfold found_index in F. destruct ks as [|k r]; [discriminate|].
        cbn in F. inversion F; subst. reflexivity.
      - inversion Est; subst st1. repeat split. }
    destruct Hst as (S1 & S2 & S3 & S4).
    assert (Hn : zlen (ta_args (d_cellvars st1)) = zlen cellvars) by (rewrite S3; reflexivity).
    destruct (decode_instrs_proj _ _ _ _ _ _ _ _ Ed Hn) as (Q1 & Q2 & Q3 & Q4).
    rewrite S1 in Q1. rewrite S2 in Q2. rewrite S3 in Q3.
    split; [exists (d_names st2); split; assumption|].
    split; [exists (d_varnames st2); split; assumption|].
    split; [exists (d_cellvars st2); split; assumption|].
    split; [|reflexivity].
    exists (d_consts st2). split; [|assumption].
    exact (TR.found_all_app _ _ _ _ _ _ _ _ S4 Q4).
  Qed.
End Proj.

(* ------------------------------------------------------------------ *)
(** * 3. What decode_code exposes *)

(* the docstring of the block type is the first constant when that is a string *)
Definition doc_consistent (bt : option function) (ks : list const) : Prop :=
  match bt with
  | None => True
  | Some f => fn_doc f = match ks with KInner (IStr s) :: _ => Some s | _ => None end
  end.

Lemma decode_code_b2b c code ks d : decode_code c code ks = OK d ->
  exists lm a lm',
    bytes_to_blocks key_eqb c (co_code code) lm (co_names code) (co_varnames code)
      (co_freevars code) (co_cellvars code) ks (cd_type d) a
    = OK (cd_blocks d, cd_addargs d, lm') /\
    doc_consistent (cd_type d) ks /\
    match cd_type d with Some f => fn_args f = a | None => args_len a = 0 end.
Proof.
  unfold decode_code. cbv zeta. intros H.
  repeat dmatch H. inversion H; subst d. cbn [cd_blocks cd_type cd_addargs].
  match goal with B : bytes_to_blocks _ _ _ _ _ _ _ _ _ _ _ = OK _ |- _ => rename B into B' end.
  do 3 eexists. split; [exact B'|].
  match goal with R : match filter _ FN_FLAGS with _ => _ end = OK (?o, _) |- _ =>
    clear - R; repeat dmatch R; inversion R; subst; cbn [doc_consistent fn_doc fn_args];
    (split; [try exact I; reflexivity|try reflexivity; lia])
  end.
Qed.

(* ------------------------------------------------------------------ *)
(** * 4. blocks_to_constants rebuilds the constants table *)

Notation kr := ConstsProofs.key_eqb_refl.
Notation ks_ := ConstsProofs.key_eqb_sym_eq.
Notation kt := ConstsProofs.key_eqb_trans.

Lemma add_additional_app {C} (keq : C -> C -> bool) is_str none_c (l1 l2 : list (arg_ C)) bt fv : forall st,
  add_additional keq is_str none_c (l1 ++ l2) bt fv st =
  match add_additional keq is_str none_c l1 bt fv st with
  | OK st1 => add_additional keq is_str none_c l2 bt fv st1
  | Err e => Err e
  end.
Proof.
  induction l1 as [|x l1 IH]; intros st; cbn [app add_additional]; [reflexivity|].
  destruct (from_arg keq is_str none_c x bt fv st) as [[v st1]|]; [apply IH|reflexivity].
Qed.

Lemma found_all_in_range {T} (keq : T -> T -> bool) tbl : forall idxs ts uses ts',
  ta_args ts = tbl -> Forall (fun i => 0 <= i) idxs ->
  TR.found_all keq ts idxs = OK (uses, ts') ->
  Forall (fun i => 0 <= i < zlen tbl) idxs.
Proof.
  induction idxs as [|i r IH]; intros ts uses ts' Ha HF H; [constructor|].
  cbn [TR.found_all] in H. apply Forall_cons_iff in HF as [Hi HF].
  destruct (found_index keq ts i) as [[[x ov] t]|] eqn:F; [|discriminate].
  destruct (TR.found_all keq t r) as [[l t2]|] eqn:Er; [|discriminate].
  apply DV.found_index_spec in F as [F1 F2]. rewrite Ha in F1, F2.
  constructor.
  - apply EV.py_index_Some_range in F1; [lia|exact Hi].
  - eapply IH; eassumption.
Qed.

Lemma uses_of_nonneg cls keep ps :
  Forall (fun p => 0 <= p_arg p) ps -> Forall (fun i => 0 <= i) (uses_of cls keep ps).
Proof.
  intros H. apply Forall_forall. intros i Hi. unfold uses_of in Hi.
  apply in_map_iff in Hi as (p & <- & Hp). apply filter_In in Hp as [Hp _].
  rewrite Forall_forall in H. now apply H.
Qed.

Lemma parse_nonneg c b ps : code_ok c b = true -> parse_bytes c b 0 0 0 = OK ps ->
  Forall (fun p => 0 <= p_arg p) ps.
Proof.
  intros U P. destruct (EV.parse_tiled c b ps U P) as [Hpi _].
  eapply Forall_impl; [|exact Hpi]. intros p Hp. apply Hp.
Qed.

Lemma b2b_parse {C} (keq : C -> C -> bool) c b lm names varnames freevars cellvars ks bt a r :
  bytes_to_blocks keq c b lm names varnames freevars cellvars ks bt a = OK r ->
  exists ps, parse_bytes c b 0 0 0 = OK ps.
Proof.
  unfold bytes_to_blocks. cbv zeta. intros H.
  match type of H with
  | match ?X with _ => _ end = _ => destruct X as [st1|e]; [|discriminate]
  end.
  destruct (parse_bytes c b 0 0 0) as [ps|]; [eauto|discriminate].
Qed.

Lemma doc_rule_off bt ks : doc_consistent bt ks ->
  docstring_is_none bt = true -> match ks with KInner (IStr _) :: _ => False | _ => True end.
Proof.
  unfold doc_consistent, docstring_is_none. destruct bt as [f|]; [|discriminate].
  intros Hd Hn. destruct (fn_doc f); [discriminate|].
  destruct ks as [|[[]|] r]; try exact I. discriminate.
Qed.

Notation ADDK := (add_additional key_eqb is_str_const (KInner INone)).

(* operands then additional args, from any related pair of states *)
Lemma consts_rest ks bt fv ts fs idxs uses st adds en ev ec :
  doc_consistent bt ks ->
  TR.DI key_eqb ks ts -> TR.EI key_eqb ks ts fs ->
  Forall (fun i => 0 <= i) idxs ->
  TR.found_all key_eqb ts idxs = OK (uses, st) ->
  additional_args key_eqb st = OK adds ->
  exists fs', ADDK (arg_of_additional AConst uses ++ arg_of_additional AConst adds) bt fv
                   (mkEnc en ev ec fs) = OK (mkEnc en ev ec fs') /\
              fa_to_tuple fs' = OK ks.
Proof.
  intros Hdc HD HE Hnn Hf Hadd.
  pose proof (doc_rule_off _ _ Hdc) as Hdoc.
  assert (HF := found_all_in_range key_eqb ks _ _ _ _ (TR.D_args _ _ _ HD) Hnn Hf).
  destruct (EV.addl_consts fv ks bt Hdoc _ _ _ _ _ en ev ec HD HE HF Hf) as (fs1 & A1 & HD1 & HE1).
  destruct (EV.adds_found key_eqb kr ks_ kt _ _ _ HD1 Hadd) as (idxs2 & ts' & Hf2 & HF2 & Hall).
  destruct (EV.addl_consts fv ks bt Hdoc _ _ _ _ _ en ev ec HD1 HE1 HF2 Hf2) as (fs2 & A2 & HD2 & HE2).
  exists fs2. rewrite add_additional_app, A1, A2. split; [reflexivity|].
  exact (TR.to_tuple_full key_eqb kr ks_ kt _ _ _ HD2 HE2 Hall).
Qed.

Theorem blocks_to_constants_decoded c b lm names varnames freevars cellvars ks bt a blocks addl lm' :
  cfg_ops_wf c = true -> code_ok c b = true -> doc_consistent bt ks ->
  bytes_to_blocks key_eqb c b lm names varnames freevars cellvars ks bt a = OK (blocks, addl, lm') ->
  blocks_to_constants key_eqb is_str_const (KInner INone) (fun s => KInner (IStr s)) blocks addl bt
  = OK ks.
Proof.
  intros W U Hdc H.
  destruct (b2b_parse _ _ _ _ _ _ _ _ _ _ _ _ H) as [ps Ep].
  destruct (b2b_proj key_eqb c W _ _ _ _ _ _ _ _ _ _ _ _ _ H Ep) as (_ & _ & _ & (st & Hf & Hadd) & _).
  pose proof (uses_of_nonneg (cfg_hasconst c) (fun _ => true) ps (parse_nonneg c b ps U Ep)) as Hnn.
  unfold blocks_to_constants. cbv zeta.
  fold (only_consts (map i_arg (concat blocks))). fold (only_consts addl).
  rewrite !only_consts_spec.
  unfold doc_use, doc_entry in Hf.
  destruct (has_docstring bt) eqn:Hd.
  - (* the docstring is found first, at index 0 *)
    unfold has_docstring in Hd. destruct bt as [f|]; [|discriminate].
    destruct (fn_doc f) as [s|] eqn:Ef; [|discriminate].
    unfold doc_consistent in Hdc. rewrite Ef in Hdc.
    destruct ks as [|[[]|] r]; try discriminate Hdc. inversion Hdc; subst s0. clear Hdc.
    cbn [app TR.found_all] in Hf.
    destruct (found_index key_eqb (toargs_init (KInner (IStr s) :: r) 0) 0) as [[[k0 ov0] t]|] eqn:F;
      [|discriminate].
    destruct (TR.found_all key_eqb t _) as [[l st']|] eqn:Er; [|discriminate].
    inversion Hf; subst k0 ov0 l st'. clear Hf.
    assert (Hr0 : 0 <= 0 < zlen (KInner (IStr s) :: r)) by (unfold zlen; cbn [length]; lia).
    destruct (TR.replay_step key_eqb kr ks_ kt _ _ _ _ _ _ _ (EV.DI0_key _) (TR.EI_empty key_eqb _) Hr0 F)
      as (fs1 & Hadd1 & HD1 & HE1).
    cbn [fa_add key_lookup fa_index fromargs_empty fa_items] in Hadd1.
    change (zlen (@nil (Z * const))) with 0 in Hadd1.
    destruct (fa_setitem key_eqb fromargs_empty 0 (KInner (IStr s))) as [fs1'|] eqn:Es; [|discriminate].
    inversion Hadd1; subst fs1'. clear Hadd1.
    assert (Hdc' : doc_consistent (Some f) (KInner (IStr s) :: r)) by (unfold doc_consistent; exact Ef).
    destruct (consts_rest _ _ [] _ _ _ _ _ _ fromargs_empty fromargs_empty fromargs_empty
                Hdc' HD1 HE1 Hnn Er Hadd) as (fs' & A & Tk).
    rewrite A. exact Tk.
  - cbn [app] in Hf.
    assert (Hcs : match bt with
                  | Some f => match fn_doc f with
                              | Some d => fa_setitem key_eqb fromargs_empty 0 (KInner (IStr d))
                              | None => OK fromargs_empty
                              end
                  | None => OK fromargs_empty
                  end = OK fromargs_empty).
    { unfold has_docstring in Hd. destruct bt as [f|]; [|reflexivity].
      destruct (fn_doc f); [discriminate|reflexivity]. }
    rewrite Hcs.
    destruct (consts_rest _ _ [] _ _ _ _ _ _ fromargs_empty fromargs_empty fromargs_empty
                Hdc (EV.DI0_key ks) (TR.EI_empty key_eqb ks) Hnn Hf Hadd) as (fs' & A & Tk).
    rewrite A. exact Tk.
Qed.

Theorem C14_iter : S_C14_iter.
Proof.
  unfold S_C14_iter. intros c code ks d Hwf Hd.
  destruct (decode_code_b2b _ _ _ _ Hd) as (lm & a & lm' & Hb & Hdc & _).
  unfold rt_wf in Hwf. EV.split_andb.
  unfold iter_code_data.
  rewrite (blocks_to_constants_decoded _ _ _ _ _ _ _ _ _ _ _ _ _ ltac:(eassumption) ltac:(eassumption) Hdc Hb).
  reflexivity.
Qed.

(* ------------------------------------------------------------------ *)
(** * 5. all_code_data walks the nested code objects *)

Section PyInd.
  Context (P : pyconst -> Prop).
  Context (HInner : forall i, P (PInner i)).
  Context (HCode : forall code, Forall P (co_consts code) -> P (PCode code)).

  Fixpoint pyconst_ind' (k : pyconst) : P k :=
    match k as k0 return P k0 with
    | PInner i => HInner i
    | PCode code =>
        HCode code
          (match code as c0 return Forall P (co_consts c0) with
           | mkCode a1 a2 a3 a4 a5 a6 a7 consts a9 a10 a11 a12 a13 a14 a15 a16 =>
               (fix go (l : list pyconst) : Forall P l :=
                  match l with
                  | [] => Forall_nil P
                  | x :: xs => Forall_cons x (pyconst_ind' x) (go xs)
                  end) consts
           end)
    end.
End PyInd.

Lemma mapM_cons {A B} (f : A -> res B) x xs :
  mapM f (x :: xs) = match f x with
                     | Err e => Err e
                     | OK y => match mapM f xs with Err e => Err e | OK ys => OK (y :: ys) end
                     end.
Proof. reflexivity. Qed.

Lemma walk_codes_code code :
  walk_codes (PCode code) = code :: flat_map walk_codes (co_consts code).
Proof.
  (* the inner fix of walk_codes is flat_map itself *)
  reflexivity.
Qed.

Lemma depth_children code f : (depth_const (PCode code) <= S f)%nat ->
  Forall (fun x => (depth_const x <= f)%nat) (co_consts code).
Proof.
  change (depth_const (PCode code)) with
    (S ((fix go (l : list pyconst) : nat :=
           match l with [] => 0%nat | x :: r => Nat.max (depth_const x) (go r) end) (co_consts code))).
  intros H. apply le_S_n in H. revert H.
  induction (co_consts code) as [|x l IH]; intros H; constructor.
  - lia.
  - apply IH. lia.
Qed.

Lemma rt_wf_deep_code c code : rt_wf_deep c (PCode code) = true ->
  exists ks, mapM (to_const c) (co_consts code) = OK ks /\ rt_wf c code ks = true /\
             Forall (fun x => rt_wf_deep c x = true) (co_consts code).
Proof.
  change (rt_wf_deep c (PCode code)) with
    (match mapM (to_const c) (co_consts code) with
     | OK ks =>
         rt_wf c code ks
         && (fix all (l : list pyconst) : bool :=
               match l with [] => true | x :: r => rt_wf_deep c x && all r end) (co_consts code)
     | Err _ => false
     end).
  destruct (mapM (to_const c) (co_consts code)) as [ks|]; [|discriminate].
  intros H. apply andb_true_iff in H as [H1 H2]. exists ks. split; [reflexivity|]. split; [exact H1|].
  revert H2. induction (co_consts code) as [|x l IH]; intros H2; constructor.
  - apply andb_true_iff in H2. tauto.
  - apply IH. apply andb_true_iff in H2. tauto.
Qed.

Lemma to_const_code c code :
  to_const c (PCode code) =
  match to_code_data c code with OK d => OK (KCode d) | Err e => Err e end.
Proof.
  change (to_const c (PCode code)) with
    (match mapM (to_const c) (co_consts code) with
     | Err e => Err e
     | OK ks => match decode_code c code ks with OK d => OK (KCode d) | Err e => Err e end
     end).
  unfold to_code_data. destruct (mapM (to_const c) (co_consts code)); reflexivity.
Qed.

Definition all_ok (c : cfg) (k : pyconst) : Prop :=
  match k with
  | PInner _ => True
  | PCode code =>
      forall d fuel,
        rt_wf_deep c (PCode code) = true -> to_code_data c code = OK d ->
        (depth_const (PCode code) <= fuel)%nat ->
        exists ds, all_code_data fuel d = OK ds /\
                   Forall2 (fun x k => to_code_data c k = OK x) ds (walk_codes (PCode code))
  end.

Lemma all_children c f : forall (l : list pyconst) ks,
  Forall (all_ok c) l -> mapM (to_const c) l = OK ks ->
  Forall (fun x => rt_wf_deep c x = true) l -> Forall (fun x => (depth_const x <= f)%nat) l ->
  exists ls, mapM (all_code_data f) (codes_of ks) = OK ls /\
             Forall2 (fun x k => to_code_data c k = OK x) (concat ls) (flat_map walk_codes l).
Proof.
  induction l as [|x r IH]; intros ks HP Hm Hw Hd.
  - cbn in Hm. inversion Hm; subst ks. exists []. split; [reflexivity|constructor].
  - rewrite mapM_cons in Hm.
    apply Forall_cons_iff in HP as [Px HP]. apply Forall_cons_iff in Hw as [Wx Hw].
    apply Forall_cons_iff in Hd as [Dx Hd].
    destruct x as [i|code].
    + cbn [to_const] in Hm. destruct (mapM (to_const c) r) as [ys|] eqn:Er; [|discriminate].
      inversion Hm; subst ks. destruct (IH ys HP eq_refl Hw Hd) as (ls & Hls & HF).
      exists ls. split; [exact Hls|]. exact HF.
    + rewrite to_const_code in Hm.
      destruct (to_code_data c code) as [d|] eqn:Et; [|discriminate].
      destruct (mapM (to_const c) r) as [ys|] eqn:Er; [|discriminate].
      inversion Hm; subst ks. destruct (IH ys HP eq_refl Hw Hd) as (ls & Hls & HF).
      destruct (Px d f Wx Et Dx) as (ds & Hds & HFd).
      exists (ds :: ls). split.
      * unfold codes_of. cbn [flat_map app]. fold (codes_of ys). rewrite mapM_cons, Hds, Hls. reflexivity.
      * cbn [concat flat_map]. apply Forall2_app; assumption.
Qed.

Lemma all_ok_all c : forall k, all_ok c k.
Proof.
  induction k as [i|code IH] using pyconst_ind'; [exact I|].
  intros d fuel Hw Ht Hd.
  destruct (rt_wf_deep_code _ _ Hw) as (ks & Hm & Hwf & Hwc).
  unfold to_code_data in Ht. rewrite Hm in Ht.
  destruct fuel as [|f].
  { exfalso. revert Hd.
    change (depth_const (PCode code)) with
      (S ((fix go (l : list pyconst) : nat :=
             match l with [] => 0%nat | x :: r => Nat.max (depth_const x) (go r) end) (co_consts code))).
    lia. }
  pose proof (depth_children _ _ Hd) as Hdc.
  destruct (all_children c f _ _ IH Hm Hwc Hdc) as (ls & Hls & HF).
  exists (d :: concat ls). split.
  - cbn [all_code_data]. rewrite (C14_iter c code ks d Hwf Ht), Hls. reflexivity.
  - rewrite walk_codes_code. constructor; [|exact HF].
    unfold to_code_data. rewrite Hm. exact Ht.
Qed.

Theorem C14_all : S_C14_all.
Proof.
  unfold S_C14_all. intros c code d fuel Hw Ht Hd.
  exact (all_ok_all c (PCode code) d fuel Hw Ht Hd).
Qed.

Check (C14_iter : S_C14_iter).
Check (C14_all : S_C14_all).
Print Assumptions b2b_proj.
Print Assumptions blocks_to_constants_decoded.
Print Assumptions C14_iter.
Print Assumptions C14_all.
