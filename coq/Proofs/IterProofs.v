(* C14: iteration over decoded data enumerates every nested code object.
   Part 1 (shared with OverrideProofs.v): the run of the decoder, projected on each of its four
   operand tables, is TablesReplay.found_all on the operand indices of that table's opcode class
   followed by additional_args.
   Part 2: blocks_to_constants rebuilds the constants table (C14_iter).
   Part 3: all_code_data walks the nested code objects (C14_all). *)
From Coq Require Import ZArith List Bool Lia ZifyBool.
From PCD Require Import Base.PyBase Base.Cfg Model.Flags Model.Args Model.Data Model.Consts
  Model.LineTable Model.Blocks Model.CodeData Spec.Lnotab Spec.Dis Model.ViewSer
  Proofs.C02_Statements Proofs.C11_Statements Proofs.C01_Statements Proofs.C14_Statements.
From PCD Require Proofs.TablesReplay Proofs.BlocksPartition Proofs.DecodeView Proofs.EncodeValues
  Proofs.ConstsProofs.
Import ListNotations. Open Scope Z_scope.
Ltac Zify.zify_post_hook ::= Z.to_euclidean_division_equations.

Module TR := TablesReplay.
Module EV := EncodeValues.
Module DV := DecodeView.

Ltac dmatch H :=
  match type of H with
  | match ?X with _ => _ end = _ => destruct X eqn:?; try discriminate H
  end.

(* ------------------------------------------------------------------ *)
(** * 1. Projections of symbolic operands *)

Section ArgLists.
  Context {C : Type}.
  Implicit Types l : list (arg_ C).

  Lemma names_in_app l1 l2 : names_in (l1 ++ l2) = names_in l1 ++ names_in l2.
  Proof. apply flat_map_app. Qed.
  Lemma varnames_in_app l1 l2 : varnames_in (l1 ++ l2) = varnames_in l1 ++ varnames_in l2.
  Proof. apply flat_map_app. Qed.
  Lemma cellvars_in_app l1 l2 : cellvars_in (l1 ++ l2) = cellvars_in l1 ++ cellvars_in l2.
  Proof. apply flat_map_app. Qed.
  Lemma consts_in_app l1 l2 : consts_in (l1 ++ l2) = consts_in l1 ++ consts_in l2.
  Proof. apply flat_map_app. Qed.

  Lemma names_in_cons x l : names_in (x :: l) = names_in [x] ++ names_in l.
  Proof. exact (names_in_app [x] l). Qed.
  Lemma varnames_in_cons x l : varnames_in (x :: l) = varnames_in [x] ++ varnames_in l.
  Proof. exact (varnames_in_app [x] l). Qed.
  Lemma cellvars_in_cons x l : cellvars_in (x :: l) = cellvars_in [x] ++ cellvars_in l.
  Proof. exact (cellvars_in_app [x] l). Qed.
  Lemma consts_in_cons x l : consts_in (x :: l) = consts_in [x] ++ consts_in l.
  Proof. exact (consts_in_app [x] l). Qed.

  Ltac aoa_tac u :=
    induction u as [|[s ov] r IH]; [reflexivity|];
    cbn [arg_of_additional map fst snd]; cbn [names_in varnames_in cellvars_in consts_in flat_map app];
    try (f_equal); exact IH.

  Lemma names_in_aoa_n (u : list (str * option Z)) : names_in (arg_of_additional (C:=C) AName u) = u.
  Proof. aoa_tac u. Qed.
  Lemma names_in_aoa_v (u : list (str * option Z)) : names_in (arg_of_additional (C:=C) AVarname u) = [].
  Proof. aoa_tac u. Qed.
  Lemma names_in_aoa_c (u : list (str * option Z)) : names_in (arg_of_additional (C:=C) ACellvar u) = [].
  Proof. aoa_tac u. Qed.
  Lemma names_in_aoa_k (u : list (C * option Z)) : names_in (arg_of_additional AConst u) = [].
  Proof. aoa_tac u. Qed.

  Lemma varnames_in_aoa_n (u : list (str * option Z)) : varnames_in (arg_of_additional (C:=C) AName u) = [].
  Proof. aoa_tac u. Qed.
  Lemma varnames_in_aoa_v (u : list (str * option Z)) : varnames_in (arg_of_additional (C:=C) AVarname u) = u.
  Proof. aoa_tac u. Qed.
  Lemma varnames_in_aoa_c (u : list (str * option Z)) : varnames_in (arg_of_additional (C:=C) ACellvar u) = [].
  Proof. aoa_tac u. Qed.
  Lemma varnames_in_aoa_k (u : list (C * option Z)) : varnames_in (arg_of_additional AConst u) = [].
  Proof. aoa_tac u. Qed.

  Lemma cellvars_in_aoa_n (u : list (str * option Z)) : cellvars_in (arg_of_additional (C:=C) AName u) = [].
  Proof. aoa_tac u. Qed.
  Lemma cellvars_in_aoa_v (u : list (str * option Z)) : cellvars_in (arg_of_additional (C:=C) AVarname u) = [].
  Proof. aoa_tac u. Qed.
  Lemma cellvars_in_aoa_c (u : list (str * option Z)) : cellvars_in (arg_of_additional (C:=C) ACellvar u) = u.
  Proof. aoa_tac u. Qed.
  Lemma cellvars_in_aoa_k (u : list (C * option Z)) : cellvars_in (arg_of_additional AConst u) = [].
  Proof. aoa_tac u. Qed.

  Lemma consts_in_aoa_n (u : list (str * option Z)) : consts_in (arg_of_additional (C:=C) AName u) = [].
  Proof. aoa_tac u. Qed.
  Lemma consts_in_aoa_v (u : list (str * option Z)) : consts_in (arg_of_additional (C:=C) AVarname u) = [].
  Proof. aoa_tac u. Qed.
  Lemma consts_in_aoa_c (u : list (str * option Z)) : consts_in (arg_of_additional (C:=C) ACellvar u) = [].
  Proof. aoa_tac u. Qed.
  Lemma consts_in_aoa_k (u : list (C * option Z)) : consts_in (arg_of_additional AConst u) = u.
  Proof. aoa_tac u. Qed.

  (* the filter of blocks_to_constants *)
  Definition only_consts (l : list (arg_ C)) : list (arg_ C) :=
    filter (fun a : arg_ C => match a with AConst _ _ => true | _ => false end) l.

  Lemma only_consts_spec l : only_consts l = arg_of_additional AConst (consts_in l).
  Proof.
    induction l as [|x l IH]; [reflexivity|].
    unfold only_consts in *. cbn [filter]. rewrite consts_in_cons.
    unfold arg_of_additional in *. rewrite map_app, <- IH.
    destruct x; reflexivity.
  Qed.

  (* retargeting a jump does not touch the table operands *)
  Lemma retarget_names T (l : list (instr_ C)) :
    names_in (map i_arg (map (retarget T) l)) = names_in (map i_arg l).
  Proof.
    induction l as [|i l IH]; [reflexivity|]. cbn [map].
    rewrite names_in_cons, (names_in_cons (i_arg i)), IH. f_equal.
    unfold retarget. destruct (i_arg i) eqn:E; cbn [i_arg]; rewrite ?E; reflexivity.
  Qed.
  Lemma retarget_varnames T (l : list (instr_ C)) :
    varnames_in (map i_arg (map (retarget T) l)) = varnames_in (map i_arg l).
  Proof.
    induction l as [|i l IH]; [reflexivity|]. cbn [map].
    rewrite varnames_in_cons, (varnames_in_cons (i_arg i)), IH. f_equal.
    unfold retarget. destruct (i_arg i) eqn:E; cbn [i_arg]; rewrite ?E; reflexivity.
  Qed.
  Lemma retarget_cellvars T (l : list (instr_ C)) :
    cellvars_in (map i_arg (map (retarget T) l)) = cellvars_in (map i_arg l).
  Proof.
    induction l as [|i l IH]; [reflexivity|]. cbn [map].
    rewrite cellvars_in_cons, (cellvars_in_cons (i_arg i)), IH. f_equal.
    unfold retarget. destruct (i_arg i) eqn:E; cbn [i_arg]; rewrite ?E; reflexivity.
  Qed.
  Lemma retarget_consts T (l : list (instr_ C)) :
    consts_in (map i_arg (map (retarget T) l)) = consts_in (map i_arg l).
  Proof.
    induction l as [|i l IH]; [reflexivity|]. cbn [map].
    rewrite consts_in_cons, (consts_in_cons (i_arg i)), IH. f_equal.
    unfold retarget. destruct (i_arg i) eqn:E; cbn [i_arg]; rewrite ?E; reflexivity.
  Qed.

  (* the blocks are the instructions, in order (whenever split_blocks succeeds) *)
  Lemma split_blocks_concat T : forall (l : list (Z * instr_ C)) cur started bl,
    split_blocks T l cur started = OK bl ->
    concat bl = (if started then rev cur else []) ++ map (retarget T) (map snd l).
  Proof.
    induction l as [|[o i] r IH]; intros cur started bl H; cbn [split_blocks] in H.
    - inversion H; subst bl. destruct started; cbn [concat map]; reflexivity.
    - cbn [map snd]. destruct (zmem o T).
      + destruct (split_blocks T r [retarget T i] true) as [rest|] eqn:E; [|discriminate].
        apply IH in E. cbn [rev app] in E. inversion H; subst bl.
        destruct started; cbn [concat]; rewrite E; reflexivity.
      + destruct started; [|discriminate].
        apply IH in H. rewrite H. cbn [rev]. rewrite <- app_assoc. reflexivity.
  Qed.
End ArgLists.

(* ------------------------------------------------------------------ *)
(** * 2. The decoder run, table by table *)

Definition one (b : bool) (a : Z) : list Z := if b then [a] else [].

Lemma uses_of_cons cls keep p r :
  uses_of cls keep (p :: r) = one (zmem (p_op p) cls && keep (p_arg p)) (p_arg p) ++ uses_of cls keep r.
Proof.
  unfold uses_of, one. cbn [filter]. destruct (zmem (p_op p) cls && keep (p_arg p)); reflexivity.
Qed.

Section Proj.
  Context {C : Type} (keq : C -> C -> bool).
  Variable c : cfg.
  Hypothesis W : cfg_ops_wf c = true.

  Lemma to_arg_proj op a next fv st parg st' :
    to_arg keq c op a next fv st = OK (parg, st') ->
    TR.found_all str_eqb (d_names st) (one (zmem op (cfg_hasname c)) a)
      = OK (names_in [parg], d_names st') /\
    TR.found_all str_eqb (d_varnames st) (one (zmem op (cfg_haslocal c)) a)
      = OK (varnames_in [parg], d_varnames st') /\
    TR.found_all str_eqb (d_cellvars st)
      (one (zmem op (cfg_hasfree c) && (a <? zlen (ta_args (d_cellvars st)))) a)
      = OK (cellvars_in [parg], d_cellvars st') /\
    TR.found_all keq (d_consts st) (one (zmem op (cfg_hasconst c)) a)
      = OK (consts_in [parg], d_consts st').
  Proof.
    intros H. destruct (DV.ops_wf_spec c W) as [_ HW].
    destruct (HW op) as (H1 & H2 & H3 & H4 & H5 & H6). clear HW.
    unfold to_arg in H.
    destruct (zmem op (cfg_hasjabs c)) eqn:E1.
    { destruct (H1 eq_refl) as (_ & _ & -> & -> & -> & ->). inversion H; subst. repeat split. }
    destruct (zmem op (cfg_hasjrel c)) eqn:E2.
    { destruct (H2 eq_refl) as (_ & -> & -> & -> & ->). inversion H; subst. repeat split. }
    destruct (zmem op (cfg_hasname c)) eqn:E3.
    { destruct (H3 eq_refl) as (_ & -> & -> & ->).
      destruct (found_index str_eqb (d_names st) a) as [[[s ov] t]|] eqn:F; [|discriminate].
      inversion H; subst. cbn [one TR.found_all andb]. rewrite F. repeat split. }
    destruct (zmem op (cfg_haslocal c)) eqn:E4.
    { destruct (H4 eq_refl) as (_ & -> & ->).
      destruct (found_index str_eqb (d_varnames st) a) as [[[s ov] t]|] eqn:F; [|discriminate].
      inversion H; subst. cbn [one TR.found_all andb]. rewrite F. repeat split. }
    destruct (zmem op (cfg_hasfree c)) eqn:E5.
    { destruct (H5 eq_refl) as (_ & ->). cbn [andb].
      destruct (a <? zlen (ta_args (d_cellvars st))) eqn:L.
      - destruct (found_index str_eqb (d_cellvars st) a) as [[[s ov] t]|] eqn:F; [|discriminate].
        inversion H; subst. cbn [one TR.found_all]. rewrite F. repeat split.
      - destruct (py_index fv (a - zlen (ta_args (d_cellvars st)))); [|discriminate].
        inversion H; subst. repeat split. }
    cbn [andb].
    destruct (zmem op (cfg_hasconst c)) eqn:E6.
    { destruct (found_index keq (d_consts st) a) as [[[k ov] t]|] eqn:F; [|discriminate].
      inversion H; subst. cbn [one TR.found_all]. rewrite F. repeat split. }
    destruct (op <? cfg_have_argument c); inversion H; subst; repeat split.
  Qed.

  Definition dargs (ois : list (Z * instr_ C)) : list (arg_ C) := map i_arg (map snd ois).

  Lemma decode_instrs_proj : forall ps fv lm st ois lm' st' ncell,
    decode_instrs keq c ps fv lm st = OK (ois, lm', st') ->
    zlen (ta_args (d_cellvars st)) = ncell ->
    TR.found_all str_eqb (d_names st) (uses_of (cfg_hasname c) (fun _ => true) ps)
      = OK (names_in (dargs ois), d_names st') /\
    TR.found_all str_eqb (d_varnames st) (uses_of (cfg_haslocal c) (fun _ => true) ps)
      = OK (varnames_in (dargs ois), d_varnames st') /\
    TR.found_all str_eqb (d_cellvars st) (uses_of (cfg_hasfree c) (fun x => x <? ncell) ps)
      = OK (cellvars_in (dargs ois), d_cellvars st') /\
    TR.found_all keq (d_consts st) (uses_of (cfg_hasconst c) (fun _ => true) ps)
      = OK (consts_in (dargs ois), d_consts st').
  Proof.
    induction ps as [|[[[[op a] n] off] nx] r IH]; intros fv lm st ois lm' st' ncell H Hn.
    - cbn [decode_instrs] in H. inversion H; subst. repeat split.
    - cbn [decode_instrs] in H.
      destruct (to_arg keq c op a nx fv st) as [[parg st1]|] eqn:Et; [|discriminate].
      destruct (oget (lm_lines lm) off) as [line|]; [|discriminate].
      match type of H with
      | match ?X with _ => _ end = _ => destruct X as [[[rest lm1] st2]|] eqn:Er; [|discriminate]
      end.
      inversion H; subst ois lm1 st2. clear H.
      destruct (to_arg_proj _ _ _ _ _ _ _ Et) as (P1 & P2 & P3 & P4).
      assert (Hn1 : zlen (ta_args (d_cellvars st1)) = ncell).
      { rewrite (TR.found_all_args _ _ _ _ _ P3). exact Hn. }
      destruct (IH _ _ _ _ _ _ ncell Er Hn1) as (Q1 & Q2 & Q3 & Q4).
      unfold dargs. cbn [map snd i_arg]. fold (dargs rest).
      rewrite !uses_of_cons. unfold p_op, p_arg. cbn [fst snd]. rewrite !andb_true_r.
      rewrite names_in_cons, varnames_in_cons, cellvars_in_cons, consts_in_cons.
      rewrite Hn in P3.
      split; [exact (TR.found_all_app _ _ _ _ _ _ _ _ P1 Q1)|].
      split; [exact (TR.found_all_app _ _ _ _ _ _ _ _ P2 Q2)|].
      split; [exact (TR.found_all_app _ _ _ _ _ _ _ _ P3 Q3)|].
      exact (TR.found_all_app _ _ _ _ _ _ _ _ P4 Q4).
  Qed.

  (* one table of the decoded data: the operands are found_all on the uses, the additional args
     are additional_args of the resulting state *)
  Definition table_run {T} (k : T -> T -> bool) (tbl : list T) (p : Z) (idxs : list Z)
    (uses adds : list (T * option Z)) : Prop :=
    exists st, TR.found_all k (toargs_init tbl p) idxs = OK (uses, st) /\
               additional_args k st = OK adds.

  (* the entry the docstring lookup emits before the first instruction *)
  Definition doc_use (bt : option function) : list Z := if has_docstring bt then [0] else [].
  Definition doc_entry (bt : option function) (ks : list C) : list (C * option Z) :=
    if has_docstring bt then match ks with k0 :: _ => [(k0, None)] | [] => [] end else [].

  Theorem b2b_proj b lm names varnames freevars cellvars (ks : list C) bt a blocks addl lm' ps :
    bytes_to_blocks keq c b lm names varnames freevars cellvars ks bt a = OK (blocks, addl, lm') ->
    parse_bytes c b 0 0 0 = OK ps ->
    let args := map i_arg (concat blocks) in
    table_run str_eqb names 0 (uses_of (cfg_hasname c) (fun _ => true) ps)
              (names_in args) (names_in addl) /\
    table_run str_eqb varnames (args_len a) (uses_of (cfg_haslocal c) (fun _ => true) ps)
              (varnames_in args) (varnames_in addl) /\
    table_run str_eqb cellvars 0 (uses_of (cfg_hasfree c) (fun x => x <? zlen cellvars) ps)
              (cellvars_in args) (cellvars_in addl) /\
    table_run keq ks 0 (doc_use bt ++ uses_of (cfg_hasconst c) (fun _ => true) ps)
              (doc_entry bt ks ++ consts_in args) (consts_in addl) /\
    addl = arg_of_additional AName (names_in addl) ++ arg_of_additional AVarname (varnames_in addl)
           ++ arg_of_additional ACellvar (cellvars_in addl) ++ arg_of_additional AConst (consts_in addl).
  Proof.
    intros H Ep. unfold bytes_to_blocks in H. cbv zeta in H.
    cbn [d_consts d_names d_varnames d_cellvars] in H.
    match type of H with
    | match ?X with _ => _ end = _ => destruct X as [st1|e] eqn:Est; [|discriminate]
    end.
    rewrite Ep in H.
    match type of H with
    | match ?X with _ => _ end = _ => destruct X as [[[ois lm1] st2]|e] eqn:Ed; [|discriminate]
    end.
    set (T := sorted_set (0 :: jump_targets ois)) in *.
    destruct (split_blocks T ois [] false) as [blocks0|e] eqn:Es; [|discriminate].
    destruct (additional_args str_eqb (d_names st2)) as [an|] eqn:An; [|discriminate].
    destruct (additional_args str_eqb (d_varnames st2)) as [av|] eqn:Av; [|discriminate].
    destruct (additional_args str_eqb (d_cellvars st2)) as [ac|] eqn:Ac; [|discriminate].
    destruct (additional_args keq (d_consts st2)) as [ak|] eqn:Ak; [|discriminate].
    inversion H; subst blocks0 lm1 addl. clear H.
    apply split_blocks_concat in Es. cbn [app] in Es.
    cbv zeta. rewrite Es, retarget_names, retarget_varnames, retarget_cellvars, retarget_consts.
    fold (dargs ois).
    (* the four projections of the additional args *)
    rewrite !names_in_app, !varnames_in_app, !cellvars_in_app, !consts_in_app.
    rewrite names_in_aoa_n, names_in_aoa_v, names_in_aoa_c, names_in_aoa_k.
    rewrite varnames_in_aoa_n, varnames_in_aoa_v, varnames_in_aoa_c, varnames_in_aoa_k.
    rewrite cellvars_in_aoa_n, cellvars_in_aoa_v, cellvars_in_aoa_c, cellvars_in_aoa_k.
    rewrite consts_in_aoa_n, consts_in_aoa_v, consts_in_aoa_c, consts_in_aoa_k.
    cbn [app]. rewrite !app_nil_r.
    (* initial state *)
    assert (Hst : d_names st1 = toargs_init names 0 /\
                  d_varnames st1 = toargs_init varnames (args_len a) /\
                  d_cellvars st1 = toargs_init cellvars 0 /\
                  TR.found_all keq (toargs_init ks 0) (doc_use bt) = OK (doc_entry bt ks, d_consts st1)).
    { unfold doc_use, doc_entry. destruct (has_docstring bt).
      - destruct (found_index keq (toargs_init ks 0) 0) as [[[k0 ov0] t]|] eqn:F; [|discriminate].
        inversion Est; subst st1. cbn [d_names d_varnames d_cellvars d_consts].
        repeat (split; [reflexivity|]).
        cbn [TR.found_all]. rewrite F.
        unfold found_index in F. destruct ks as [|k r]; [discriminate|].
        cbn in F. inversion F; subst. reflexivity.
      - inversion Est; subst st1. repeat split. }
    destruct Hst as (S1 & S2 & S3 & S4).
    assert (Hn : zlen (ta_args (d_cellvars st1)) = zlen cellvars) by (rewrite S3; reflexivity).
    destruct (decode_instrs_proj _ _ _ _ _ _ _ _ Ed Hn) as (Q1 & Q2 & Q3 & Q4).
    rewrite S1 in Q1. rewrite S2 in Q2. rewrite S3 in Q3.
    split; [exists (d_names st2); split; assumption|].
    split; [exists (d_varnames st2); split; assumption|].
    split; [exists (d_cellvars st2); split; assumption|].
    split; [|reflexivity].
    exists (d_consts st2). split; [|assumption].
    exact (TR.found_all_app _ _ _ _ _ _ _ _ S4 Q4).
  Qed.
End Proj.

(* ------------------------------------------------------------------ *)
(** * 3. What decode_code exposes *)

(* the docstring of the block type is the first constant when that is a string *)
Definition doc_consistent (bt : option function) (ks : list const) : Prop :=
  match bt with
  | None => True
  | Some f => fn_doc f = match ks with KInner (IStr s) :: _ => Some s | _ => None end
  end.

Lemma decode_code_b2b c code ks d : decode_code c code ks = OK d ->
  exists lm a lm',
    bytes_to_blocks key_eqb c (co_code code) lm (co_names code) (co_varnames code)
      (co_freevars code) (co_cellvars code) ks (cd_type d) a
    = OK (cd_blocks d, cd_addargs d, lm') /\
    doc_consistent (cd_type d) ks.
Proof.
  unfold decode_code. cbv zeta. intros H.
  repeat dmatch H. inversion H; subst d. cbn [cd_blocks cd_type cd_addargs].
  match goal with B : bytes_to_blocks _ _ _ _ _ _ _ _ _ _ _ = OK _ |- _ => rename B into B' end.
  do 3 eexists. split; [exact B'|].
  match goal with R : match filter _ FN_FLAGS with _ => _ end = OK (?o, _) |- _ =>
    clear - R; repeat dmatch R; inversion R; subst; cbn [doc_consistent fn_doc]; try exact I; reflexivity
  end.
Qed.
