(* C06, code round trip - part 2: the blocks.  Rebuilding normalized blocks from a symbolic view
   respects agreement of views up to the key equality of constants; pairing constants with their
   encodings does not change the view. *)
From Coq Require Import ZArith List Bool Lia ZifyBool.
From PCD Require Import Base.PyBase Base.Cfg Model.Flags Model.Args Model.Data Model.Consts
  Model.LineTable Model.Blocks Model.CodeData Spec.Lnotab Spec.Dis Model.ViewSer
  Proofs.C02_Statements Proofs.C11_Statements Proofs.C01_Statements Proofs.C03_Statements
  Proofs.C03b_Statements Proofs.C03c_Statements Proofs.C06_Statements.
From PCD Require Proofs.ConstsProofs Proofs.NormalizeProofs Proofs.NormalFormWf Proofs.NormalizePreserves
  Proofs.EncodeCorrect.
Import ListNotations. Open Scope Z_scope.

Module CP := ConstsProofs.
Module NP := NormalizeProofs.
Module NW := NormalFormWf.
Module ECo := EncodeCorrect.

(* ------------------------------------------------------------------ *)
(** * 1. map_view *)

Lemma map_view_compose {K L M} (f : K -> L) (g : L -> M) v :
  map_view g (map_view f v) = map_view (fun k => g (f k)) v.
Proof.
  unfold map_view. rewrite map_map. apply map_ext. intros x. cbn [v_op v_val v_line].
  destruct (v_val x); reflexivity.
Qed.

Lemma map_view_ext {K L} (f g : K -> L) v : (forall k, f k = g k) -> map_view f v = map_view g v.
Proof.
  intros H. unfold map_view. apply map_ext. intros x. destruct (v_val x); try reflexivity. now rewrite H.
Qed.

Lemma map_view_normalize_idem v :
  map_view normalize_const (map_view normalize_const v) = map_view normalize_const v.
Proof. rewrite map_view_compose. apply map_view_ext. exact NP.normalize_const_idem. Qed.

(* ------------------------------------------------------------------ *)
(** * 2. Agreement of views *)

Definition vrel {C} (keq : C -> C -> bool) (x y : vinstr C) : Prop :=
  (v_op x =? v_op y) && val_match keq (v_val x) (v_val y) && option_eqb Z.eqb (v_line x) (v_line y) = true.

Lemma view_agrees_F2 {C} (keq : C -> C -> bool) a b :
  view_agrees keq a b = true <-> Forall2 (vrel keq) a b.
Proof.
  unfold view_agrees. revert b. induction a as [|x a IH]; intros [|y b]; cbn [list_eqb]; split; intros H;
    try discriminate; try constructor; try (now inversion H).
  - apply andb_true_iff in H. exact (proj1 H).
  - apply IH. apply andb_true_iff in H. exact (proj2 H).
  - inversion H; subst. apply andb_true_iff. split; [assumption|]. now apply IH.
Qed.

Lemma view_agrees_map {C} (keq : C -> C -> bool) (f : C -> C) a b :
  (forall x y, keq x y = true -> keq (f x) (f y) = true) ->
  view_agrees keq a b = true -> view_agrees keq (map_view f a) (map_view f b) = true.
Proof.
  intros Hf H. apply view_agrees_F2 in H. apply view_agrees_F2. unfold map_view.
  induction H as [|x y a b Hxy _ IH]; cbn [map]; constructor; [|exact IH].
  unfold vrel in *. cbn [v_op v_val v_line].
  apply andb_true_iff in Hxy as [Hxy Hl]. apply andb_true_iff in Hxy as [Ho Hv].
  rewrite Ho, Hl. cbn [andb]. rewrite andb_true_r.
  destruct (v_val x), (v_val y); cbn [val_match] in *; try discriminate; try assumption.
  now apply Hf.
Qed.

(* ------------------------------------------------------------------ *)
(** * 3. blocks_of_view respects agreement *)

Section Rebuild.
  Context {C : Type} (keq : C -> C -> bool).

  (* j is built from the second view, i from the first *)
  Definition irel (j i : instr_ C) : Prop := instr_eqb keq j i = true.

  Lemma targets_agree a b : Forall2 (vrel keq) a b -> view_targets a = view_targets b.
  Proof.
    intros H. unfold view_targets. f_equal. f_equal.
    induction H as [|x y a b Hxy _ IH]; [reflexivity|]. cbn [flat_map]. rewrite IH. f_equal.
    unfold vrel in Hxy. apply andb_true_iff in Hxy as [Hxy _]. apply andb_true_iff in Hxy as [_ Hv].
    destruct (v_val x), (v_val y); cbn [val_match] in Hv; try discriminate; try reflexivity.
    f_equal. lia.
  Qed.

  Lemma instr_agree T x y : vrel keq x y ->
    irel (mkInstr (v_op y) (view_arg T y) None (v_line y) []) (mkInstr (v_op x) (view_arg T x) None (v_line x) []).
  Proof.
    unfold vrel, irel, instr_eqb. cbn [i_name i_arg i_nargs i_line i_lineoffs option_eqb list_eqb].
    intros H. apply andb_true_iff in H as [H Hl]. apply andb_true_iff in H as [Ho Hv].
    apply CP.oz_eqb_spec in Hl. rewrite Hl. rewrite (proj2 (CP.oz_eqb_spec _ _) eq_refl).
    replace (v_op y =? v_op x) with true by lia. cbn [andb]. rewrite !andb_true_r.
    unfold view_arg.
    destruct (v_val x), (v_val y); cbn [val_match] in Hv; try discriminate; cbn [arg_eqb option_eqb andb].
    - reflexivity.
    - lia.
    - apply str_eqb_spec in Hv. subst. rewrite andb_true_r. now apply str_eqb_spec.
    - apply str_eqb_spec in Hv. subst. rewrite andb_true_r. now apply str_eqb_spec.
    - apply str_eqb_spec in Hv. subst. rewrite andb_true_r. now apply str_eqb_spec.
    - apply str_eqb_spec in Hv. subst. now apply str_eqb_spec.
    - exact Hv.
    - apply andb_true_iff in Hv as [Ht Hr]. apply Z.eqb_eq in Ht. apply Bool.eqb_prop in Hr. subst.
      rewrite Z.eqb_refl, Bool.eqb_reflx. reflexivity.
  Qed.

  Lemma Forall2_rev' {A B} (R : A -> B -> Prop) l l' : Forall2 R l l' -> Forall2 R (rev l) (rev l').
  Proof.
    induction 1 as [|x y l l' Hxy _ IH]; cbn [rev]; [constructor|].
    apply Forall2_app; [exact IH|]. constructor; [exact Hxy|constructor].
  Qed.

  Lemma cut_agree T : forall a b, Forall2 (vrel keq) a b -> forall i cur cur',
    Forall2 irel cur' cur ->
    Forall2 (Forall2 irel) (cut_blocks T b i cur') (cut_blocks T a i cur).
  Proof.
    induction 1 as [|x y a b Hxy _ IH]; intros i cur cur' Hc; cbn [cut_blocks].
    - inversion Hc; subst; [constructor|]. constructor; [|constructor].
      apply Forall2_rev'. exact Hc.
    - cbv zeta.
      assert (He : match cur' with [] => true | _ :: _ => false end = match cur with [] => true | _ :: _ => false end).
      { inversion Hc; reflexivity. }
      rewrite He. destruct (zmem i T && negb match cur with [] => true | _ :: _ => false end).
      + constructor; [apply Forall2_rev'; exact Hc|]. apply IH. constructor; [|constructor].
        apply instr_agree. exact Hxy.
      + apply IH. constructor; [|exact Hc]. apply instr_agree. exact Hxy.
  Qed.

  Theorem blocks_of_view_agree a b :
    view_agrees keq a b = true ->
    leqb (leqb (instr_eqb keq)) (blocks_of_view b) (blocks_of_view a) = true.
  Proof.
    intros H. apply view_agrees_F2 in H. unfold blocks_of_view.
    rewrite <- (targets_agree a b H).
    pose proof (cut_agree (view_targets a) a b H 0 [] [] (Forall2_nil _)) as HF.
    apply CP.leqb_Forall2. eapply NW.Forall2_weaken; [|exact HF].
    intros l l' Hl. apply CP.leqb_Forall2. exact Hl.
  Qed.
End Rebuild.

(* ------------------------------------------------------------------ *)
(** * 4. Pairing the constants with their encodings keeps the view *)

Section Pairing.
  Context {K P : Type} (h : K -> res P).
  Let f (k : K) : res (K * P) := match h k with OK p => OK (k, p) | Err e => Err e end.

  Definition prel (i : instr_ K) (j : instr_ (K * P)) : Prop := mapM_instr f i = OK j.

  Lemma prel_view firsts i j : prel i j ->
    mkV (i_name i) (data_val firsts (i_arg i)) (i_line i)
    = mkV (i_name j) (match data_val firsts (i_arg j) with
                      | DConst k => DConst (fst k)
                      | DNoArg => DNoArg | DInt z => DInt z | DName s => DName s | DLocal s => DLocal s
                      | DCell s => DCell s | DFree s => DFree s | DJump t r => DJump t r | DBad => DBad
                      end) (i_line j).
  Proof.
    unfold prel, mapM_instr. destruct (i_arg i) as [z|t r|s ov|s ov|k ov|s|s ov|z]; cbn [mapM_arg];
      try (intros H; inversion H; subst j; cbn [i_name i_arg i_line data_val]; reflexivity).
    unfold f. destruct (h k) as [p|]; [|discriminate].
    intros H; inversion H; subst j; cbn [i_name i_arg i_line data_val fst]; reflexivity.
  Qed.

  Lemma bfi_F2 {A B} (R : instr_ A -> instr_ B -> Prop) : forall (B1 : list (list (instr_ A))) (B2 : list (list (instr_ B))) i,
    Forall2 (Forall2 R) B1 B2 ->
    block_first_indices B1 i = block_first_indices B2 i.
  Proof.
    intros B1 B2 i H. revert i. induction H as [|b b' r r' Hbb _ IH]; intros i; [reflexivity|]. cbn [block_first_indices].
    unfold zlen. rewrite (NW.Forall2_length_eq _ _ _ Hbb). f_equal. apply IH.
  Qed.

  Lemma concat_F2 {A B} (R : A -> B -> Prop) (B1 : list (list A)) (B2 : list (list B)) :
    Forall2 (Forall2 R) B1 B2 -> Forall2 R (concat B1) (concat B2).
  Proof. induction 1; cbn [concat]; [constructor|]. now apply Forall2_app. Qed.

  Lemma pairing_view (B1 : list (list (instr_ K))) (B2 : list (list (instr_ (K * P)))) :
    mapM (mapM (mapM_instr f)) B1 = OK B2 ->
    data_view B1 = map_view fst (data_view B2).
  Proof.
    intros H. apply NW.mapM_F2 in H.
    assert (HF : Forall2 (Forall2 prel) B1 B2).
    { eapply NW.Forall2_weaken; [|exact H]. cbv beta. intros b b' Hb. apply NW.mapM_F2 in Hb. exact Hb. }
    unfold data_view, map_view. rewrite map_map. rewrite (bfi_F2 _ _ _ 0 HF).
    apply concat_F2 in HF. induction HF as [|i j l l' Hij _ IH]; [reflexivity|].
    cbn [map]. rewrite IH. f_equal. cbn [v_op v_val v_line]. now apply prel_view.
  Qed.
End Pairing.

Lemma mapM_cd_blocks {C D} (f : C -> res D) d d' : mapM_cd f d = OK d' ->
  mapM (mapM (mapM_instr f)) (cd_blocks d) = OK (cd_blocks d').
Proof.
  unfold mapM_cd. destruct (mapM (mapM (mapM_instr f)) (cd_blocks d)) as [bl|]; [|discriminate].
  destruct (mapM (mapM_arg f) (cd_addargs d)); [|discriminate]. intros H; inversion H; reflexivity.
Qed.
