(* Statements for C07 (JSON form) and C15 (version independence of the JSON form). *)
From PCD Require Import Base.PyBase Base.Cfg Model.Flags Model.Args Model.Data Model.Consts Model.Json.

(* integers the loaders read as raw JSON numbers (line numbers, sizes, indices, targets) *)
Definition small (z : Z) : bool := (MIN_INTEGER <=? z) && (z <=? MAX_INTEGER).
Definition small_opt (o : option Z) : bool := match o with Some z => small z | None => true end.

Section WfJson.
  Context {C : Type} (wfc : C -> bool).
  Definition wfj_arg (a : arg_ C) : bool :=
    match a with
    | AInt z => small z
    | AJump t _ => small t
    | AName _ ov | AVarname _ ov | ACellvar _ ov => small_opt ov
    | AConst k ov => wfc k && small_opt ov
    | AFreevar _ => true
    | ANoArg z => small z
    end.
  (* AdditionalArg = Name | Varname | Cellvar | Constant *)
  Definition wfj_addarg (a : arg_ C) : bool :=
    wfj_arg a && match a with AName _ _ | AVarname _ _ | ACellvar _ _ | AConst _ _ => true | _ => false end.
  Definition wfj_instr (i : instr_ C) : bool :=
    wfj_arg (i_arg i) && small_opt (i_nargs i) && small_opt (i_line i) && forallb small (i_lineoffs i).
  Definition wfj_cd_with (d : code_data_ C) : bool :=
    forallb (forallb wfj_instr) (cd_blocks d) && small (cd_firstline d) && small (cd_stacksize d)
    && match cd_addline d with Some al => small_opt (al_line al) && forallb small (al_offs al) | None => true end
    && forallb wfj_addarg (cd_addargs d).
End WfJson.

Fixpoint wfj_const (k : const) : bool :=
  match k with
  | KInner _ => true
  | KCode d => wfj_cd_with wfj_const d
  end.
Definition wfj_cd : code_data -> bool := wfj_cd_with wfj_const.

(* strict JSON: no NaN / Infinity numbers, integers within +-2^53 *)
Fixpoint json_plain (j : json) : bool :=
  match j with
  | JNull | JBool _ | JStr _ => true
  | JInt z => small z
  | JFloat b => negb (float_is_nan b) && negb (float_is_inf b)
  | JList l => (fix all (l : list json) : bool := match l with [] => true | x :: r => json_plain x && all r end) l
  | JObj f => (fix all (l : list (str * json)) : bool :=
                 match l with [] => true | (_, v) :: r => json_plain v && all r end) f
  end.

(* decimal text round trip *)
Definition S_decimal_roundtrip : Prop := forall z, parse_int (decimal z) = Some z.

(* inner constants: every kind, any nesting *)
Definition S_iconst_roundtrip : Prop := forall k,
  exists k', as_const (interp_json (iconst_to_json k)) = OK k' /\ ikey_eqb k k' = true.

(* the JSON form loads back to equal data (all NaNs identified), any nesting of code constants *)
Definition S_json_roundtrip : Prop := forall d,
  wfj_cd d = true ->
  exists d', code_data_from_json (code_data_to_json d) = OK d' /\ cd_eqb d d' = true.

(* and to identical data when no float constant is a NaN *)
Fixpoint nanfree_i (k : iconst) : bool :=
  match k with
  | IFloat b => negb (float_is_nan b)
  | IComplex r i => negb (float_is_nan r) && negb (float_is_nan i)
  | ITuple l | IFrozenset l =>
      (fix all (l : list iconst) : bool := match l with [] => true | x :: r => nanfree_i x && all r end) l
  | _ => true
  end.
Definition nanfree_arg {C} (nf : C -> bool) (a : arg_ C) : bool :=
  match a with AConst k _ => nf k | _ => true end.
Fixpoint nanfree_const (k : const) : bool :=
  match k with
  | KInner i => nanfree_i i
  | KCode d => forallb (forallb (fun i => nanfree_arg nanfree_const (i_arg i))) (cd_blocks d)
               && forallb (nanfree_arg nanfree_const) (cd_addargs d)
  end.
Definition S_json_roundtrip_exact : Prop := forall d,
  wfj_cd d = true -> nanfree_const (KCode d) = true ->
  code_data_from_json (code_data_to_json d) = OK d.

(* the JSON form is strict JSON *)
Definition S_json_plain : Prop := forall d, wfj_cd d = true -> json_plain (code_data_to_json d) = true.
