(* C09 / tables_replay: replaying the output of the operand-table decoder (ToArgs.found_index,
   additional_args) through the encoder (FromArgs.add, to_tuple) gives back every operand
   index and the table, duplicate keys included; characterisation of the overrides. *)
From Coq Require Import ZArith List Bool Lia ZifyBool FinFun.
From PCD Require Import Base.PyBase Base.Cfg Model.Flags Model.Args Model.Data Model.LineTable
  Model.Blocks.
Import ListNotations. Open Scope Z_scope.
Ltac Zify.zify_post_hook ::= Z.to_euclidean_division_equations.

(* ------------------------------------------------------------------ *)
(** * Insertion ordered dictionaries *)

Section ODictLemmas.
  Context {V : Type}.
  Implicit Types d : odict V.

  Lemma oget_oset d k v k' :
    oget (oset d k v) k' = if k =? k' then Some v else oget d k'.
  Proof.
    induction d as [|[k0 v0] r IH]; cbn [oset oget].
    - reflexivity.
    - destruct (k0 =? k) eqn:E0; cbn [oget].
      + destruct (k =? k') eqn:E1; destruct (k0 =? k') eqn:E2; try reflexivity; lia.
      + rewrite IH. destruct (k0 =? k') eqn:E2; destruct (k =? k') eqn:E1; try reflexivity; lia.
  Qed.

  Lemma omem_oset d k v k' : omem (oset d k v) k' = (k =? k') || omem d k'.
  Proof. unfold omem. rewrite oget_oset. destruct (k =? k'); reflexivity. Qed.

  Lemma okeys_oset d k v :
    okeys (oset d k v) = if omem d k then okeys d else okeys d ++ [k].
  Proof.
    unfold omem, okeys. induction d as [|[k0 v0] r IH]; cbn [oset oget map fst app].
    - reflexivity.
    - destruct (k0 =? k) eqn:E0; cbn [map fst].
      + f_equal. lia.
      + rewrite IH. destruct (oget r k); reflexivity.
  Qed.

  Lemma zlen_oset d k v :
    zlen (oset d k v) = if omem d k then zlen d else zlen d + 1.
  Proof.
    unfold zlen. rewrite <- (map_length fst (oset d k v)), <- (map_length fst d).
    fold (okeys (oset d k v)). fold (okeys d). rewrite okeys_oset.
    destruct (omem d k); [reflexivity|]. rewrite app_length. cbn [length]. lia.
  Qed.

  Lemma omem_In d k : omem d k = true <-> In k (okeys d).
  Proof.
    unfold omem, okeys. induction d as [|[k0 v0] r IH]; cbn [oget map fst In].
    - split; [discriminate | tauto].
    - destruct (k0 =? k) eqn:E0.
      + split; [intros _; left; lia | reflexivity].
      + rewrite IH. split; [tauto | intros [H|H]; [lia | exact H]].
  Qed.

  Lemma omem_oget d k : omem d k = true -> exists v, oget d k = Some v.
  Proof. unfold omem. destruct (oget d k); [eauto | discriminate]. Qed.
End ODictLemmas.

Definition zrange (n : nat) : list Z := map Z.of_nat (seq 0 n).

Lemma in_zrange n i : In i (zrange n) <-> 0 <= i < Z.of_nat n.
Proof.
  unfold zrange. rewrite in_map_iff. split.
  - intros (k & <- & Hk). apply in_seq in Hk. lia.
  - intros H. exists (Z.to_nat i). split; [lia | apply in_seq; lia].
Qed.

Lemma NoDup_zrange n : NoDup (zrange n).
Proof.
  unfold zrange. apply Injective_map_NoDup; [|apply seq_NoDup].
  intros a b H. lia.
Qed.

Lemma zrange_length n : length (zrange n) = n.
Proof. unfold zrange. now rewrite map_length, seq_length. Qed.

Lemma zrange_S n : zrange (S n) = zrange n ++ [Z.of_nat n].
Proof. unfold zrange. rewrite seq_S, map_app. reflexivity. Qed.

(* ------------------------------------------------------------------ *)
(** * Key tables *)

Section Keys.
  Context {T : Type} (keq : T -> T -> bool).
  Hypothesis keq_refl : forall x, keq x x = true.
  Hypothesis keq_sym : forall x y, keq x y = keq y x.
  Hypothesis keq_trans : forall x y z, keq x y = true -> keq y z = true -> keq x z = true.

  Lemma keq_cong x y z : keq x y = true -> keq x z = keq y z.
  Proof.
    intros H. destruct (keq y z) eqn:E.
    - eapply keq_trans; eauto.
    - destruct (keq x z) eqn:E'; [|reflexivity].
      rewrite <- E. symmetry. eapply keq_trans; [|exact E']. now rewrite keq_sym.
  Qed.

  Lemma keq_cong_r x y z : keq x y = true -> keq z x = keq z y.
  Proof. intros H. rewrite (keq_sym z x), (keq_sym z y). now apply keq_cong. Qed.

  Lemma key_lookup_ext ks k1 k2 :
    keq k1 k2 = true -> key_lookup keq ks k1 = key_lookup keq ks k2.
  Proof.
    intros H. induction ks as [|[k' i] r IH]; cbn [key_lookup]; [reflexivity|].
    rewrite (keq_cong _ _ k' H), IH. reflexivity.
  Qed.

  Lemma key_lookup_key_set ks a i k :
    key_lookup keq (key_set keq ks a i) k = if keq k a then Some i else key_lookup keq ks k.
  Proof.
    induction ks as [|[k' j] r IH]; cbn [key_set key_lookup].
    - reflexivity.
    - destruct (keq a k') eqn:E1; cbn [key_lookup].
      + destruct (keq k a) eqn:E2.
        * rewrite (keq_cong _ _ k' E2), E1. reflexivity.
        * destruct (keq k k') eqn:E3; [|reflexivity].
          exfalso. rewrite (keq_cong_r _ _ k E1) in E2. rewrite keq_sym in E2. congruence.
      + rewrite IH. destruct (keq k k') eqn:E3; [|reflexivity].
        destruct (keq k a) eqn:E2; [|reflexivity].
        exfalso. rewrite <- (keq_cong _ _ k' E2) in E1. congruence.
  Qed.

  Lemma key_lookup_snoc ks a i k :
    key_lookup keq (ks ++ [(a, i)]) k =
    match key_lookup keq ks k with
    | Some f => Some f
    | None => if keq k a then Some i else None
    end.
  Proof.
    induction ks as [|[k' j] r IH]; cbn [app key_lookup]; [reflexivity|].
    destruct (keq k k'); [reflexivity | exact IH].
  Qed.

  Lemma key_mem_ext ds k1 k2 : keq k1 k2 = true -> key_mem keq ds k1 = key_mem keq ds k2.
  Proof.
    intros H. unfold key_mem. induction ds as [|d r IH]; cbn [existsb]; [reflexivity|].
    rewrite (keq_cong _ _ d H), IH. reflexivity.
  Qed.

  Lemma key_mem_cons ds a k : key_mem keq (a :: ds) k = keq k a || key_mem keq ds k.
  Proof. reflexivity. Qed.
End Keys.

(* ------------------------------------------------------------------ *)
(** * python indexing *)

Lemma py_index_nonneg {A} (l : list A) i :
  0 <= i -> py_index l i = nth_error l (Z.to_nat i).
Proof.
  intros H. unfold py_index, znth. destruct (i <? 0) eqn:E; [lia | reflexivity].
Qed.

Lemma py_index_inrange {A} (l : list A) i :
  0 <= i < zlen l -> exists a, py_index l i = Some a.
Proof.
  intros H. rewrite py_index_nonneg by lia.
  destruct (nth_error l (Z.to_nat i)) eqn:E; [eauto|].
  apply nth_error_None in E. unfold zlen in H. lia.
Qed.

(* ------------------------------------------------------------------ *)
(** * Decoder / encoder runs *)

Section Replay.
  Context {T : Type} (keq : T -> T -> bool).
  Hypothesis keq_refl : forall x, keq x x = true.
  Hypothesis keq_sym : forall x y, keq x y = keq y x.
  Hypothesis keq_trans : forall x y z, keq x y = true -> keq y z = true -> keq x z = true.

  (* decoder: thread found_index over the operand indices of the instructions *)
  Fixpoint found_all (st : toargs T) (idxs : list Z) : res (list (T * option Z) * toargs T) :=
    match idxs with
    | [] => OK ([], st)
    | i :: r => match found_index keq st i with
                | Err e => Err e
                | OK (a, ov, st1) => match found_all st1 r with
                                     | OK (l, st2) => OK ((a, ov) :: l, st2) | Err e => Err e end
                end
    end.
  (* encoder: thread fa_add *)
  Fixpoint add_all (st : fromargs T) (l : list (T * option Z)) : res (list Z * fromargs T) :=
    match l with
    | [] => OK ([], st)
    | (a, ov) :: r => match fa_add keq st a ov with
                      | Err e => Err e
                      | OK (i, st1) => match add_all st1 r with
                                       | OK (is, st2) => OK (i :: is, st2) | Err e => Err e end
                      end
    end.
  (* encoder preset (enc_init): for i, k in enumerate(l): t[i] = k *)
  Fixpoint set_all (l : list T) (i : Z) (t : fromargs T) : res (fromargs T) :=
    match l with
    | [] => OK t
    | k :: r => match fa_setitem keq t i k with OK t' => set_all r (i + 1) t' | Err e => Err e end
    end.

  Lemma found_index_spec ts idx a ov ts1 :
    found_index keq ts idx = OK (a, ov, ts1) ->
    py_index (ta_args ts) idx = Some a /\
    ta_args ts1 = ta_args ts /\
    ta_order ts1 = (if omem (ta_order ts) idx then ta_order ts
                    else oset (ta_order ts) idx (zlen (ta_order ts))) /\
    ov = (if negb (match oget (ta_order ts1) idx with Some o => o =? idx | None => false end)
             || key_mem keq (ta_dups ts1) a then Some idx else None) /\
    ( (omem (ta_order ts) idx = true /\ ts1 = ts) \/
      (omem (ta_order ts) idx = false /\
       exists first, key_lookup keq (ta_keys ts) a = Some first /\
         ta_keys ts1 = ta_keys ts /\
         ta_dups ts1 = (if first =? idx then ta_dups ts
                        else if key_mem keq (ta_dups ts) a then ta_dups ts else a :: ta_dups ts)) \/
      (omem (ta_order ts) idx = false /\ key_lookup keq (ta_keys ts) a = None /\
       ta_keys ts1 = ta_keys ts ++ [(a, idx)] /\ ta_dups ts1 = ta_dups ts)).
  Proof.
    unfold found_index. destruct (py_index (ta_args ts) idx) as [a0|] eqn:Ea; [|discriminate].
    destruct (omem (ta_order ts) idx) eqn:Em.
    - intros H. inversion H; subst. repeat split; auto.
    - destruct (key_lookup keq (ta_keys ts) a0) as [first|] eqn:Ek;
        intros H; inversion H; subst; cbn [ta_args ta_order ta_keys ta_dups].
      + repeat split; auto. right; left. split; auto. exists first. auto.
      + repeat split; auto. right; right. auto.
  Qed.

  Lemma found_index_ok ts idx :
    (exists a, py_index (ta_args ts) idx = Some a) -> exists r, found_index keq ts idx = OK r.
  Proof. intros [a Ha]. unfold found_index. rewrite Ha. eauto. Qed.

  (* ---------------------------------------------------------------- *)
  (** ** Invariants *)
  Section WithTable.
  Variable tbl : list T.
  Notation val := (py_index tbl).

  (* decoder state *)
  Record DI (ts : toargs T) : Prop := {
    D_args : ta_args ts = tbl;
    D_range : forall i, omem (ta_order ts) i = true -> 0 <= i < zlen tbl;
    D_keys : forall k f, key_lookup keq (ta_keys ts) k = Some f ->
        omem (ta_order ts) f = true /\ exists b, val f = Some b /\ keq k b = true;
    (* a found index is registered under its key, or its key is unique in the table *)
    D_reg : forall i a, omem (ta_order ts) i = true -> val i = Some a ->
        (exists f, key_lookup keq (ta_keys ts) a = Some f) \/
        (forall j b, 0 <= j < zlen tbl -> j <> i -> val j = Some b -> keq a b = false);
    D_dups : forall i j a b, omem (ta_order ts) i = true -> omem (ta_order ts) j = true ->
        i <> j -> val i = Some a -> val j = Some b -> keq a b = true ->
        key_mem keq (ta_dups ts) a = true;
    D_dupk : forall k, key_mem keq (ta_dups ts) k = true ->
        exists f, key_lookup keq (ta_keys ts) k = Some f
  }.

  (* effect of one decoder step *)
  Record Step (ts : toargs T) (idx : Z) (a : T) (ts1 : toargs T) : Prop := {
    S_val : val idx = Some a;
    S_mem : forall i, omem (ta_order ts1) i = (idx =? i) || omem (ta_order ts) i;
    S_len : zlen (ta_order ts1) =
            if omem (ta_order ts) idx then zlen (ta_order ts) else zlen (ta_order ts) + 1;
    S_dmono : forall k, key_mem keq (ta_dups ts) k = true -> key_mem keq (ta_dups ts1) k = true;
    S_dnew : forall k, key_mem keq (ta_dups ts1) k = true ->
             key_mem keq (ta_dups ts) k = true \/ keq k a = true
  }.

  Lemma dec_step ts idx a ov ts1 :
    DI ts -> 0 <= idx < zlen tbl -> found_index keq ts idx = OK (a, ov, ts1) ->
    DI ts1 /\ Step ts idx a ts1.
  Proof.
    intros HD Hr H. apply found_index_spec in H.
    destruct H as (Ha & Hargs & Hord & _ & Hc).
    rewrite (D_args _ HD) in Ha.
    destruct Hc as [[Em ->] | [(Em & first & Ek & Hk & Hd) | (Em & Ek & Hk & Hd)]].
    - split; [exact HD|]. constructor; auto.
      + intros i. destruct (idx =? i) eqn:E; [|reflexivity]. assert (idx = i) by lia. subst.
        now rewrite Em.
      + now rewrite Em.
    - (* key already registered: duplicate *)
      rewrite Em in Hord.
      destruct (D_keys _ HD _ _ Ek) as (Hf & b & Hb & Hab).
      assert (Hne : first <> idx) by (intros ->; congruence).
      destruct (first =? idx) eqn:Efi; [lia|]. clear Efi.
      assert (Hmem : forall i, omem (ta_order ts1) i = (idx =? i) || omem (ta_order ts) i).
      { intros i. rewrite Hord. apply omem_oset. }
      assert (Hdm : forall k, key_mem keq (ta_dups ts) k = true -> key_mem keq (ta_dups ts1) k = true).
      { intros k Hk'. rewrite Hd. destruct (key_mem keq (ta_dups ts) a); [exact Hk'|].
        rewrite key_mem_cons, Hk'. apply orb_true_r. }
      assert (Hda : key_mem keq (ta_dups ts1) a = true).
      { rewrite Hd. destruct (key_mem keq (ta_dups ts) a) eqn:E; [exact E|].
        rewrite key_mem_cons, keq_refl. reflexivity. }
      assert (Hdn : forall k, key_mem keq (ta_dups ts1) k = true ->
                              key_mem keq (ta_dups ts) k = true \/ keq k a = true).
      { intros k. rewrite Hd. destruct (key_mem keq (ta_dups ts) a); [auto|].
        rewrite key_mem_cons. intros Hk'. apply orb_true_iff in Hk'. tauto. }
      split.
      + constructor.
        * now rewrite Hargs, (D_args _ HD).
        * intros i. rewrite Hmem. intros Hi. apply orb_true_iff in Hi as [Hi|Hi].
          -- assert (idx = i) by lia. now subst.
          -- now apply (D_range _ HD).
        * intros k f. rewrite Hk. intros Hkf. destruct (D_keys _ HD _ _ Hkf) as (H1 & H2).
          split; [|exact H2]. rewrite Hmem, H1. apply orb_true_r.
        * intros i ai. rewrite Hmem, Hk. intros Hi Hai.
          destruct (idx =? i) eqn:E.
          -- assert (idx = i) by lia; subst i. left. exists first. congruence.
          -- cbn [orb] in Hi. apply (D_reg _ HD); assumption.
        * intros i j ai bj. rewrite !Hmem. intros Hi Hj Hij Hai Hbj Hkk.
          destruct (idx =? i) eqn:Ei; [|destruct (idx =? j) eqn:Ej].
          -- assert (idx = i) by lia; subst i. assert (ai = a) by congruence. now subst.
          -- assert (idx = j) by lia; subst j. assert (bj = a) by congruence. subst.
             rewrite (key_mem_ext keq keq_sym keq_trans _ _ _ Hkk). exact Hda.
          -- cbn [orb] in Hi, Hj. apply Hdm. eapply (D_dups _ HD i j); eassumption.
        * intros k Hk'. rewrite Hk. destruct (Hdn _ Hk') as [H1|H1].
          -- now apply (D_dupk _ HD).
          -- exists first. now rewrite (key_lookup_ext keq keq_sym keq_trans _ _ _ H1).
      + constructor; auto.
        rewrite Hord, zlen_oset, Em. reflexivity.
    - (* fresh key *)
      rewrite Em in Hord.
      assert (Hmem : forall i, omem (ta_order ts1) i = (idx =? i) || omem (ta_order ts) i).
      { intros i. rewrite Hord. apply omem_oset. }
      assert (Hfresh : forall j b, omem (ta_order ts) j = true -> val j = Some b -> keq a b = false).
      { intros j b Hj Hb. destruct (D_reg _ HD _ _ Hj Hb) as [[f Hf] | Hu].
        - destruct (keq a b) eqn:E; [|reflexivity].
          rewrite <- (key_lookup_ext keq keq_sym keq_trans _ _ _ E) in Hf. congruence.
        - rewrite keq_sym. apply (Hu idx a); auto. intros ->. congruence. }
      split.
      + constructor.
        * now rewrite Hargs, (D_args _ HD).
        * intros i. rewrite Hmem. intros Hi. apply orb_true_iff in Hi as [Hi|Hi].
          -- assert (idx = i) by lia. now subst.
          -- now apply (D_range _ HD).
        * intros k f. rewrite Hk, key_lookup_snoc. rewrite Hmem.
          destruct (key_lookup keq (ta_keys ts) k) as [f'|] eqn:Ekk.
          -- intros Hf; inversion Hf; subst f'. destruct (D_keys _ HD _ _ Ekk) as (H1 & H2).
             split; [|exact H2]. rewrite H1. apply orb_true_r.
          -- destruct (keq k a) eqn:Eka; [|discriminate]. intros Hf; inversion Hf; subst f.
             rewrite Z.eqb_refl. split; [reflexivity|]. exists a. auto.
        * intros i ai. rewrite Hmem, Hk. intros Hi Hai.
          destruct (idx =? i) eqn:E.
          -- assert (idx = i) by lia; subst i. left. exists idx.
             rewrite key_lookup_snoc, Ek. assert (ai = a) by congruence; subst.
             now rewrite keq_refl.
          -- cbn [orb] in Hi. destruct (D_reg _ HD _ _ Hi Hai) as [[f Hf]|Hu]; [|now right].
             left. exists f. now rewrite key_lookup_snoc, Hf.
        * intros i j ai bj. rewrite !Hmem, Hd. intros Hi Hj Hij Hai Hbj Hkk.
          destruct (idx =? i) eqn:Ei; [|destruct (idx =? j) eqn:Ej].
          -- assert (idx = i) by lia; subst i. assert (ai = a) by congruence. subst.
             assert (Ej : idx =? j = false) by lia. rewrite Ej in Hj. cbn [orb] in Hj.
             rewrite (Hfresh _ _ Hj Hbj) in Hkk. discriminate.
          -- assert (idx = j) by lia; subst j. assert (bj = a) by congruence. subst.
             cbn [orb] in Hi. rewrite keq_sym, (Hfresh _ _ Hi Hai) in Hkk. discriminate.
          -- cbn [orb] in Hi, Hj. eapply (D_dups _ HD i j); eassumption.
        * intros k. rewrite Hd, Hk. intros Hk'. destruct (D_dupk _ HD _ Hk') as [f Hf].
          exists f. now rewrite key_lookup_snoc, Hf.
      + constructor; auto.
        * rewrite Hord, zlen_oset, Em. reflexivity.
        * intros k. now rewrite Hd.
        * intros k. rewrite Hd. auto.
  Qed.

  End WithTable.
End Replay.
